#!/usr/bin/env python3
"""Re-run the property's own quick check against every kept seeded change (seeded/<PID>_<X>/patch.diff) and refresh
its meta.json; prints a markdown table (also written to seeded/SUMMARY.md).
usage: tools/seedsweep.py [PID_X ...]      (default: all)"""
import json, os, shutil, subprocess, sys, time

ROOT = os.path.dirname(os.path.dirname(os.path.abspath(__file__)))

def sh(cmd):
    return subprocess.run(cmd, shell=True, stdout=subprocess.PIPE, stderr=subprocess.STDOUT)

def main():
    summary_only = "--summary" in sys.argv
    if summary_only:
        sys.argv.remove("--summary")
    names = sys.argv[1:] or sorted(d for d in os.listdir(os.path.join(ROOT, "seeded")) if os.path.isdir(os.path.join(ROOT, "seeded", d)))
    rows = []
    for name in names:
        d = os.path.join(ROOT, "seeded", name); meta = json.load(open(os.path.join(d, "meta.json")))
        pid = meta["property"]; wt = "/tmp/sw_%s" % name
        if summary_only:
            rows.append((name, meta, meta.get("checks", {}).get(pid))); continue
        sh("git -C /repo worktree remove --force %s" % wt); shutil.rmtree(wt, ignore_errors=True)
        sh("git -C /repo worktree add -f %s HEAD -q" % wt)
        try:
            if sh("git -C %s apply %s" % (wt, os.path.join(d, "patch.diff"))).returncode != 0:
                meta["applies_to_current_head"] = False; rows.append((name, meta, None)); continue
            meta["applies_to_current_head"] = True
            todo = [pid] + [c for c in meta.get("also_run", []) if c != pid]
            for c in todo:
                t0 = time.time(); env = dict(os.environ); env["VERIF_REPO"] = wt
                r = subprocess.run([os.path.join(ROOT, "check"), c, "--tier", "quick"], stdout=subprocess.PIPE, stderr=subprocess.PIPE, env=env, cwd=ROOT)
                clauses = sorted({l.strip().split("clause=")[1].split()[0] for l in r.stderr.decode().splitlines() if "clause=" in l})
                meta.setdefault("checks", {})[c] = {"exit": r.returncode, "violations": sum(1 for l in r.stdout.decode().splitlines() if l.startswith("VIOLATION")), "clauses": clauses, "wall_s": round(time.time() - t0)}
            meta["detected_by_own_check"] = meta["checks"][pid]["exit"] == 1
            json.dump(meta, open(os.path.join(d, "meta.json"), "w"), indent=1)
            rows.append((name, meta, meta["checks"][pid]))
            print(name, meta["checks"][pid]["exit"], meta["checks"][pid]["clauses"][:3], flush=True)
        finally:
            sh("git -C /repo worktree remove --force %s" % wt); shutil.rmtree(wt, ignore_errors=True)
            shutil.rmtree(os.path.join(ROOT, "replays"), ignore_errors=True)
    # restore evidence written by runs against changed trees: the committed evidence must come from /repo itself
    lines = ["# Seeded changes (independent sub-agents) and the checks that catch them", "",
             "| seed | what the change does | needs to manifest | own check (quick) | clauses | other checks that also report it |", "|---|---|---|---|---|---|"]
    for name, meta, own in rows:
        others = ", ".join("%s (%s)" % (c, "/".join(v["clauses"][:2])) for c, v in sorted(meta.get("checks", {}).items()) if c != meta["property"] and v["exit"] == 1)
        lines.append("| %s | %s | %s | %s | %s | %s |" % (name, (meta.get("what") or "").replace("|", "/")[:160], (meta.get("needs_to_manifest") or "").replace("|", "/")[:160],
                     "n/a" if own is None else ("VIOLATION" if own["exit"] == 1 else "exit %d" % own["exit"]), "" if own is None else ", ".join(own["clauses"][:3]), others))
    open(os.path.join(ROOT, "seeded", "SUMMARY.md"), "w").write("\n".join(lines) + "\n")
    print("\n".join(lines))

main()
