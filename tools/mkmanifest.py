#!/usr/bin/env python3
"""Regenerates /verif/MANIFEST.json from the table below (keeps the manifest valid while checks are added)."""
import json, os, sys
ROOT = os.path.dirname(os.path.dirname(os.path.abspath(__file__)))
sys.path.insert(0, ROOT)
from vlib.manifest_data import CHECKS, HOOK_COMMITS, NOT_YET

def main():
    checks = []
    for pid, c in sorted(CHECKS.items()):
        checks.append({
            "property_id": pid,
            "quick_cmd": "./check %s --tier quick" % pid,
            "thorough_cmd": "./check %s --tier thorough" % pid,
            "evidence_file": "/verif/evidence/%s.json" % pid,
            "replay_cmd_template": "./check %s --replay {path}" % pid,
            "engine": c.get("engine", "tlc-trace"),
            "level_claimed": {"category": c["level"], "text": c["text"], "design_ref": c["design_ref"]},
            "level_note": c["note"],
            "technique": c["technique"],
        })
    m = {
        "version": 1,
        "setup_cmd": "./setup.sh",
        "hooks": {"guard": "CLIPPER2_VERIF",
                  "enable": "checks compile /repo/CPP/Clipper2Lib/src/*.cpp together with /verif/harness/*.cpp with -DCLIPPER2_VERIF (vlib/core.py build())",
                  "baseline_off_cmd": "cmake --build /repo/_build && ctest --test-dir /repo/_build -j8 --timeout 900",
                  "source_commits": HOOK_COMMITS, "add_only": True},
        "engines": [
            {"name": "tlc-trace", "path": "/verif/spec", "serves_properties": sorted(CHECKS), "kind_free_text": "TLA+ specifications (spec/*.tla) checked by TLC: exhaustive small-scope model checking of the design-level modules, TLC-enumerated behaviours replayed into the real library by harness/vh, and ndjson traces of the real library validated by TLC against the trace specifications"},
        ],
        "checks": checks,
        "notes": "All verdicts come from TLA+ postconditions evaluated by TLC on traces of the real library built from /repo's working tree; see DESIGN.md.",
        "not_applicable": [{"property_id": p, "reason": r} for p, r in sorted(NOT_YET.items()) if p not in CHECKS],
    }
    with open(os.path.join(ROOT, "MANIFEST.json"), "w") as f:
        json.dump(m, f, indent=1)
    print("MANIFEST.json: %d checks, %d not_applicable" % (len(checks), len(m["not_applicable"])))
main()
