#!/bin/sh
# kill leftover check / TLC / harness processes (development helper; patterns kept out of the caller's command line)
me=$$
for pat in "seedsweep.py" "tlc2.TLC" ".cache/bin/vh_" "verif/check " "./check C"; do
  for p in $(pgrep -f "$pat"); do [ "$p" != "$me" ] && [ "$p" != "$PPID" ] && kill "$p" 2>/dev/null; done
done
sleep 1
exit 0
