#!/usr/bin/env python3
"""Evaluate a seeded change produced by an independent sub-agent and keep it under /verif/seeded/.
usage: tools/seedeval.py <PID> <agent_out_dir> [--checks C01,C03] [--tier quick]
For each change X in meta.json: scratch worktree of /repo HEAD -> git apply patch_X.diff -> existing test suite must pass ->
demo passes on the unchanged tree and fails with the change -> run the property's check with VERIF_REPO=<worktree> ->
record everything in /verif/seeded/<PID>_<X>/{patch.diff, demo.cpp, meta.json}; remove the worktree."""
import json, os, shutil, subprocess, sys, time

ROOT = os.path.dirname(os.path.dirname(os.path.abspath(__file__)))

def sh(cmd, **kw):
    return subprocess.run(cmd, shell=isinstance(cmd, str), stdout=subprocess.PIPE, stderr=subprocess.STDOUT, **kw)

def main():
    pid, out = sys.argv[1], sys.argv[2]
    checks = [pid]; tier = "quick"; tag = ""
    for i, a in enumerate(sys.argv):
        if a == "--checks": checks = sys.argv[i + 1].split(",")
        if a == "--tier": tier = sys.argv[i + 1]
        if a == "--tag": tag = sys.argv[i + 1]
    meta = json.load(open(os.path.join(out, "meta.json")))
    for ch in meta["changes"]:
        x = ch["id"]; wt = "/tmp/sv_%s_%s" % (pid, x)
        patch = os.path.join(out, "patch_%s.diff" % x); demo = os.path.join(out, "demo_%s.cpp" % x)
        res = {"property": pid, "change": x, "what": ch.get("what"), "needs_to_manifest": ch.get("needs_to_manifest"), "files": ch.get("files"), "ran": []}
        sh("git -C /repo worktree remove --force %s" % wt); shutil.rmtree(wt, ignore_errors=True)
        sh("git -C /repo worktree add -f %s HEAD -q" % wt)
        try:
            p = sh("git -C %s apply %s" % (wt, patch))
            res["applies"] = p.returncode == 0
            if p.returncode != 0:
                res["error"] = p.stdout.decode()[-500:]; print(pid, x, "PATCH DOES NOT APPLY"); continue
            t = sh("cmake -G Ninja -S %s/CPP -B %s/_build -DCMAKE_BUILD_TYPE=RelWithDebInfo -DUSE_EXTERNAL_GTEST=ON -DCLIPPER2_EXAMPLES=OFF -DCLIPPER2_UTILS=OFF -DGTest_DIR=/root/miniconda/lib/cmake/GTest >/dev/null && cmake --build %s/_build >/dev/null && ctest --test-dir %s/_build -j8 --timeout 900 | tail -3" % (wt, wt, wt, wt))
            res["existing_tests_pass_with_change"] = b"100% tests passed" in t.stdout
            res["ran"].append("cmake+ctest in scratch worktree: " + t.stdout.decode().strip().splitlines()[0] if t.stdout.strip() else "ctest: no output")
            shutil.rmtree(wt + "/_build", ignore_errors=True)
            build = ch.get("demo_build", "").split("(")[0]
            extra = " ".join(w for w in build.split() if w.startswith(("-pthread", "-fsanitize", "-D", "-fno-", "-O")) and not w.startswith("-O"))
            cxx = "clang++" if "-fsanitize" in extra else "g++"
            def demo_run(tree, tag):
                exe = "/tmp/sv_demo_%s_%s_%s" % (pid, x, tag)
                c = sh("%s -std=c++17 -O1 %s -I%s/CPP/Clipper2Lib/include %s %s/CPP/Clipper2Lib/src/*.cpp -o %s" % (cxx, extra, tree, demo, tree, exe))
                if c.returncode != 0:
                    return "compile error: " + c.stdout.decode()[-300:]
                try:
                    r = sh(exe, timeout=300); rc = r.returncode
                except subprocess.TimeoutExpired:
                    rc = "timeout"
                os.unlink(exe); return rc
            res["demo_exit_unchanged"] = demo_run("/repo", "clean"); res["demo_exit_changed"] = demo_run(wt, "mut")
            res["ran"].append("demo compiled against /repo (exit %s) and against the changed worktree (exit %s)" % (res["demo_exit_unchanged"], res["demo_exit_changed"]))
            res["checks"] = {}
            for c in checks:
                t0 = time.time()
                env = dict(os.environ); env["VERIF_REPO"] = wt
                r = subprocess.run([os.path.join(ROOT, "check"), c, "--tier", tier], stdout=subprocess.PIPE, stderr=subprocess.PIPE, env=env, cwd=ROOT)
                viol = [l for l in r.stdout.decode().splitlines() if l.startswith("VIOLATION")]
                clauses = sorted({l.strip().split("clause=")[1].split()[0] for l in r.stderr.decode().splitlines() if "clause=" in l})
                res["checks"][c] = {"exit": r.returncode, "violations": len(viol), "clauses": clauses, "wall_s": round(time.time() - t0)}
                res["ran"].append("VERIF_REPO=%s ./check %s --tier %s -> exit %d" % (wt, c, tier, r.returncode))
            res["detected_by_own_check"] = res["checks"].get(pid, {}).get("exit") == 1
            valid = res["existing_tests_pass_with_change"] and res["demo_exit_unchanged"] == 0 and res["demo_exit_changed"] not in (0,) and not str(res["demo_exit_changed"]).startswith("compile")
            res["valid_seed"] = bool(valid)
            dst = os.path.join(ROOT, "seeded", "%s_%s%s" % (pid, x, tag)); os.makedirs(dst, exist_ok=True)
            shutil.copy(patch, os.path.join(dst, "patch.diff")); shutil.copy(demo, os.path.join(dst, "demo.cpp"))
            json.dump(res, open(os.path.join(dst, "meta.json"), "w"), indent=1)
            print(pid, x, "valid" if valid else "INVALID", "tests_pass=%s demo=%s/%s" % (res["existing_tests_pass_with_change"], res["demo_exit_unchanged"], res["demo_exit_changed"]),
                  {c: (v["exit"], v["clauses"][:3]) for c, v in res["checks"].items()})
        finally:
            sh("git -C /repo worktree remove --force %s" % wt); shutil.rmtree(wt, ignore_errors=True)
            shutil.rmtree(os.path.join(ROOT, "replays"), ignore_errors=True)

main()
