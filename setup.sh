#!/bin/sh
# Offline setup: build the harness variants used by the quick checks and smoke-test TLC.
set -e
cd "$(dirname "$0")"
python3 - <<'PY'
import sys
sys.path.insert(0, '.')
from vlib import core
for v in ("plain", "hi"):
    core.build(v)
r = core.tlc_ok(core.tlc("FillLemmas", "FillLemmas.cfg", timeout=300), "FillLemmas")
print("setup ok: TLC states", r.distinct)
PY
