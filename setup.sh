#!/bin/sh
# Offline setup: warm the content-hash build cache (library objects for every variant the quick checks use)
# and smoke-test TLC.  Checks rebuild on demand from /repo's working tree anyway, so this only saves time.
set -e
cd "$(dirname "$0")"
python3 - <<'PY'
import sys
sys.path.insert(0, '.')
from vlib import core
todo = [("plain", ("bool",)), ("hi", ("bool",)), ("z", ("z",)), ("asan", ("c10",)), ("asanx", ("c10",)), ("asanz", ("c10",)), ("tsan", ("thr",)),
        ("plain", ("hist",)), ("plain", ("repr",)), ("plain", ("open",)), ("plain", ("off",)), ("plain", ("thr",)), ("plain", ("z",))]
core.run_parallel(lambda t: core.build(t[0], t[1]), todo, n=4)
r = core.tlc_ok(core.tlc("FillLemmas", "FillLemmas.cfg", timeout=300), "FillLemmas")
print("setup ok: TLC states", r.distinct)
PY
