// Family "c20": the path utilities (TrimCollinear, SimplifyPath, RamerDouglasPeucker, StripDuplicates,
// StripNearEqual, TranslatePath, GetBounds, Length, Ellipse) for spec/C20Trace.tla.
// The harness only calls the library on (embedded) lattice paths and records what came back, mapped back to
// the lattice; every contract clause is decided by TLC from spec/PathUtils.tla.  Variants of one call
// (PathD overloads, Paths overloads) that return exactly the primary result are only counted ("same");
// a variant that returns something else is recorded as a call of its own and judged like any other.
#include "common.hpp"
#include <cmath>
#include <csignal>
#include <unistd.h>

namespace {

// ---- monitored-call marker: a crash (SIGSEGV / SIGBUS / SIGFPE / SIGABRT, stack overflow included) while a library
// call is in progress is reported on stderr as {"crash":...} with the lattice path and the call, exit code 3
static const Path64* g_cur = nullptr; static const char* g_fn = ""; static int g_emb = 0; static std::string g_cfg;
static void on_crash(int sig) {
  if (g_cur) fprintf(stderr, "\n{\"crash\":%d,\"fn\":\"%s\",\"cfg\":\"%s\",\"emb\":%d,\"p\":%s}\n", sig, g_fn, g_cfg.c_str(), g_emb, jpath(*g_cur).c_str());
  _exit(g_cur ? 3 : 4);
}
static void install_crash_handler() {
  static char stack[1 << 16]; stack_t ss; ss.ss_sp = stack; ss.ss_size = sizeof stack; ss.ss_flags = 0; sigaltstack(&ss, nullptr);
  struct sigaction sa; memset(&sa, 0, sizeof sa); sa.sa_handler = on_crash; sa.sa_flags = SA_ONSTACK; sigemptyset(&sa.sa_mask);
  for (int s : {SIGSEGV, SIGBUS, SIGFPE, SIGABRT, SIGILL}) sigaction(s, &sa, nullptr);
}
struct Mon { Mon(const char* fn, const std::string& cfg) { g_fn = fn; g_cfg = cfg; } };

struct Rat { long long n, d; };

static bool unemb_path(const Emb& e, const Path64& p, Path64& out) {
  out.clear();
  for (auto& q : p) { int64_t dx = q.x - e.tx, dy = q.y - e.ty; if (dx % e.m || dy % e.m) return false; out.emplace_back(dx / e.m, dy / e.m); }
  return true;
}
static PathD to_d(const Path64& p) { PathD r; r.reserve(p.size()); for (auto& q : p) r.emplace_back((double)q.x, (double)q.y); return r; }
// exact conversion back; false if a coordinate is not an integer value
// (snap: the precision-2 overload returns multiples of 0.01 computed as x * (1/100); a value within 1e-9 of an integer is that integer)
static bool from_d(const PathD& p, Path64& out, bool snap = false) {
  out.clear();
  for (auto q : p) {
    if (snap) { if (std::fabs(q.x - std::nearbyint(q.x)) <= 1e-9) q.x = std::nearbyint(q.x); if (std::fabs(q.y - std::nearbyint(q.y)) <= 1e-9) q.y = std::nearbyint(q.y); }
    if (!(std::floor(q.x) == q.x && std::floor(q.y) == q.y) || std::fabs(q.x) > 9e18 || std::fabs(q.y) > 9e18) return false; out.emplace_back((int64_t)q.x, (int64_t)q.y); }
  return true;
}
static bool small_coords(const Path64& p) { for (auto& q : p) if (std::llabs(q.x) > (1LL << 30) || std::llabs(q.y) > (1LL << 30)) return false; return true; }
static bool exact_in_double(const Path64& p) { for (auto& q : p) if (std::llabs(q.x) > (1LL << 52) || std::llabs(q.y) > (1LL << 52)) return false; return true; }

struct Stats { long long calls = 0, same = 0, variants_diff = 0, paths = 0; std::vector<uint64_t> nt; };

static uint64_t hmix(uint64_t h, uint64_t v) { h ^= v + 0x9E3779B97F4A7C15ULL + (h << 6) + (h >> 2); return h * 0xBF58476D1CE4E5B9ULL; }
static uint64_t hpath(const Path64& p) { uint64_t h = 0xC20; for (auto& q : p) { h = hmix(h, (uint64_t)q.x); h = hmix(h, (uint64_t)q.y); } return hmix(h, p.size()); }

struct Rec {   // one path's calls
  const Emb& emb; const Path64& lat; Stats& st; std::vector<std::string> calls; uint64_t hp;
  Rec(const Emb& e, const Path64& l, Stats& s) : emb(e), lat(l), st(s), hp(hpath(l)) {}
  // a call that returned an (embedded) path; key = hash of (function, configuration)
  void path_call(Ev& ev, const Path64& embedded_out, uint64_t key, const std::vector<std::pair<std::string, std::pair<bool, Path64>>>& variants) {
    Path64 o; bool ok = unemb_path(emb, embedded_out, o);
    std::string same = "[";
    std::vector<std::string> extra;
    for (auto& v : variants) {
      if (v.second.first && v.second.second == embedded_out) { same += (same.size() > 1 ? "," : "") + jstr(v.first); ++st.same; }
      else {
        ++st.variants_diff;
        Path64 vo; bool vok = v.second.first && unemb_path(emb, v.second.second, vo);
        Ev e2 = ev; e2.ks("v", v.first).kn("lat", vok).kv("out", jpath(vok ? vo : Path64())).kv("same", "[]");
        extra.push_back(e2.str());
      }
    }
    same += "]";
    Ev e1 = ev; e1.ks("v", "64").kn("lat", ok).kv("out", jpath(ok ? o : Path64())).kv("same", same);
    calls.push_back(e1.str()); ++st.calls;
    for (auto& s : extra) { calls.push_back(s); ++st.calls; }
    if (!ok || o != lat) st.nt.push_back(hmix(hp, key));      // non-trivial: the call changed the path
  }
};

static Ev call(const char* f) { Ev e(f); e.s = "{"; e.first = true; e.ks("f", f); return e; }

static void do_path(std::ostream& os, long long id, const std::string& fam, const Path64& lat, const Emb& emb, const std::vector<Rat>& eps,
                    const std::vector<Rat>& mds, uint64_t seed, Stats& st, bool lite) {
  ++st.paths;
  g_cur = &lat; g_emb = emb.id;
  struct Clear { ~Clear() { g_cur = nullptr; } } clear_on_exit;
  const Path64 E = emb_path(emb, lat);
  const bool dbl = exact_in_double(E);
  const double m = (double)emb.m;
  Rec R(emb, lat, st);
  typedef std::vector<std::pair<std::string, std::pair<bool, Path64>>> Vars;
  // ---- TrimCollinear (closed, open) and its second application
  for (int open = 0; open < 2; ++open) {
    Mon mon("TrimCollinear", open ? "open" : "closed");
    Path64 out = TrimCollinear(E, open != 0);
    Path64 out2 = TrimCollinear(out, open != 0);
    Path64 o2; bool ok2 = unemb_path(emb, out2, o2);
    Vars vs;
    if (dbl && !lite) for (int prec : {0, 2}) {
      if (prec == 2 && !small_coords(E)) continue;
      PathD d = TrimCollinear(to_d(E), prec, open != 0); Path64 b; bool ok = from_d(d, b, prec == 2);
      vs.push_back({prec == 0 ? "D0" : "D2", {ok, b}});
    }
    Ev ev = call("TC"); ev.kn("c", open ? 0 : 1).kn("lat2", ok2).kv("out2", jpath(ok2 ? o2 : Path64()));
    R.path_call(ev, out, 100 + open, vs);
  }
  // ---- SimplifyPath / RamerDouglasPeucker
  for (size_t k = 0; k < eps.size(); ++k) {
    const double e = (double)eps[k].n / (double)eps[k].d * m;
    for (int closed = 1; closed >= 0; --closed) {
      Mon mon("SimplifyPath", std::to_string(eps[k].n) + "/" + std::to_string(eps[k].d) + (closed ? " closed" : " open"));
      Path64 out = SimplifyPath(E, e, closed != 0);
      Vars vs;
      if (!lite) {
        Paths64 ps = SimplifyPaths(Paths64{E}, e, closed != 0); vs.push_back({"Ps", {ps.size() == 1, ps.size() == 1 ? ps[0] : Path64()}});
        if (dbl) { PathD d = SimplifyPath(to_d(E), e, closed != 0); Path64 b; bool ok = from_d(d, b); vs.push_back({"D", {ok, b}}); }
      }
      Ev ev = call("SP"); ev.kn("c", closed).kn("en", eps[k].n).kn("ed", eps[k].d);
      R.path_call(ev, out, 200 + k * 2 + closed, vs);
    }
    {
      Mon mon("RamerDouglasPeucker", std::to_string(eps[k].n) + "/" + std::to_string(eps[k].d));
      Path64 out = RamerDouglasPeucker(E, e);
      Vars vs;
      if (!lite) {
        Paths64 ps = RamerDouglasPeucker(Paths64{E}, e); vs.push_back({"Ps", {ps.size() == 1, ps.size() == 1 ? ps[0] : Path64()}});
        if (dbl) { PathD d = RamerDouglasPeucker(to_d(E), e); Path64 b; bool ok = from_d(d, b); vs.push_back({"D", {ok, b}}); }
      }
      Ev ev = call("RDP"); ev.kn("en", eps[k].n).kn("ed", eps[k].d);
      R.path_call(ev, out, 300 + k, vs);
    }
  }
  // ---- StripDuplicates / StripNearEqual
  for (int closed = 1; closed >= 0; --closed) {
    Mon mon("StripDuplicates/StripNearEqual", closed ? "closed" : "open");
    Path64 out = E; StripDuplicates(out, closed != 0);
    Vars vs;
    if (!lite) { Paths64 ps{E}; StripDuplicates(ps, closed != 0); vs.push_back({"Ps", {ps.size() == 1, ps.size() == 1 ? ps[0] : Path64()}});
      if (dbl) { PathD d = to_d(E); StripDuplicates(d, closed != 0); Path64 b; bool ok = from_d(d, b); vs.push_back({"D", {ok, b}}); } }
    Ev ev = call("SD"); ev.kn("c", closed);
    R.path_call(ev, out, 400 + closed, vs);
    for (size_t k = 0; k < mds.size(); ++k) {
      const double t = (double)mds[k].n / (double)mds[k].d * m * m;
      Path64 o = StripNearEqual(E, t, closed != 0);
      Vars v2;
      if (!lite) { Paths64 ps = StripNearEqual(Paths64{E}, t, closed != 0); v2.push_back({"Ps", {ps.size() == 1, ps.size() == 1 ? ps[0] : Path64()}});
        if (dbl) { PathD d = StripNearEqual(to_d(E), t, closed != 0); Path64 b; bool ok = from_d(d, b); v2.push_back({"D", {ok, b}}); } }
      Ev e2 = call("SNE"); e2.kn("c", closed).kn("mn", mds[k].n).kn("md", mds[k].d);
      R.path_call(e2, o, 500 + k * 2 + closed, v2);
    }
  }
  // ---- TranslatePath by a small lattice vector derived from the path and the seed
  {
    Mon mon("TranslatePath/GetBounds/Length", ""); Rng r(R.hp ^ seed); const int64_t dx = r.range(-5, 5), dy = r.range(-5, 5);
    Path64 out = TranslatePath(E, dx * emb.m, dy * emb.m);
    Vars vs;
    if (!lite) { Paths64 ps = TranslatePaths(Paths64{E}, dx * emb.m, dy * emb.m); vs.push_back({"Ps", {ps.size() == 1, ps.size() == 1 ? ps[0] : Path64()}});
      if (dbl) { PathD d = TranslatePath(to_d(E), (double)(dx * emb.m), (double)(dy * emb.m)); Path64 b; bool ok = from_d(d, b); vs.push_back({"D", {ok, b}}); } }
    Ev ev = call("TR"); ev.kn("dx", dx).kn("dy", dy);
    R.path_call(ev, out, 600, vs);
  }
  // ---- GetBounds (path and single-element path set)
  {
    auto rec = [&](const Rect64& b, const char* v) {
      const bool inv = b.left > b.right || b.top > b.bottom;
      Path64 c{{b.left, b.top}, {b.right, b.bottom}}, lc; bool ok = !inv && unemb_path(emb, c, lc);
      Ev ev = call("GB"); ev.ks("v", v).kn("inv", inv).kn("lat", inv || ok);
      std::vector<long long> bb = ok ? std::vector<long long>{lc[0].x, lc[0].y, lc[1].x, lc[1].y} : std::vector<long long>{0, 0, 0, 0};
      ev.kv("bb", jints(bb));
      R.calls.push_back(ev.str()); ++st.calls;
    };
    rec(GetBounds(E), "64");
    if (!lite) { rec(GetBounds(Paths64{E}), "Ps"); if (dbl) { RectD d = GetBounds(to_d(E)); if (d.left <= d.right) rec(Rect64((int64_t)d.left, (int64_t)d.top, (int64_t)d.right, (int64_t)d.bottom), "D"); else rec(Rect64(1, 1, 0, 0), "D"); } }
  }
  // ---- Length (only where the lattice unit is the library's unit)
  if (emb.m == 1) {
    long long maxd2 = 0; for (size_t i = 0; i < lat.size(); ++i) { auto& a = lat[i]; auto& b = lat[(i + 1) % lat.size()]; maxd2 = std::max<long long>(maxd2, (a.x - b.x) * (a.x - b.x) + (a.y - b.y) * (a.y - b.y)); }
    long long s = maxd2 <= 20 ? 10000 : maxd2 <= 2000 ? 1000 : maxd2 <= 200000 ? 100 : 0;   // s * s * maxd2 < 2^31 (TLC integers)
    if (s) for (int closed = 1; closed >= 0; --closed) {
      auto rec = [&](double L, const char* v) { Ev ev = call("LEN"); ev.ks("v", v).kn("c", closed).kn("s", s).kn("lo", (long long)std::floor(L * s)).kn("hi", (long long)std::ceil(L * s)); R.calls.push_back(ev.str()); ++st.calls; };
      rec(Length(E, closed != 0), "64");
      if (!lite && dbl) rec(Length(to_d(E), closed != 0), "D");
    }
  }
  os << "{\"e\":\"Path\",\"id\":" << id << ",\"fam\":" << jstr(fam) << ",\"emb\":" << emb.id << ",\"p\":" << jpath(lat) << ",\"calls\":["
     ;
  for (size_t i = 0; i < R.calls.size(); ++i) os << (i ? "," : "") << R.calls[i];
  os << "]}\n";
}

static std::vector<Rat> rats(const std::string& s) {
  std::vector<Rat> r; std::stringstream ss(s); std::string t;
  while (std::getline(ss, t, ',')) { if (t.empty()) continue; auto k = t.find('/'); Rat q{atoll(t.substr(0, k).c_str()), k == std::string::npos ? 1 : atoll(t.substr(k + 1).c_str())}; r.push_back(q); }
  return r;
}

// random longer paths: collinear runs, repeated points, spikes, first = last
static Path64 gen_rand(Rng& r, int maxlen, int g) {
  Path64 p; int n = (int)r.range(0, maxlen);
  while ((int)p.size() < n) {
    int kind = (int)r.range(0, 9);
    if (p.empty() || kind <= 3) p.emplace_back(r.range(0, g), r.range(0, g));
    else if (kind == 4) p.push_back(p.back());                                   // repeated point
    else if (kind == 5 && p.size() >= 2) p.push_back(p[p.size() - 2]);           // spike: go back
    else if (kind <= 7) {                                                        // collinear run along a small direction
      int64_t dx = r.range(-2, 2), dy = r.range(-2, 2); int len = (int)r.range(1, 3);
      for (int k = 0; k < len && (int)p.size() < n; ++k) { Point64 q(p.back().x + dx, p.back().y + dy); if (q.x < 0 || q.y < 0 || q.x > g || q.y > g) break; p.push_back(q); }
    } else if (kind == 8 && p.size() >= 2) {                                     // partial reversal on the same line
      Point64 a = p[p.size() - 2], b = p.back(); int64_t t = r.range(-2, 3);
      Point64 q(b.x + t * (b.x - a.x), b.y + t * (b.y - a.y)); if (q.x >= 0 && q.y >= 0 && q.x <= g && q.y <= g) p.push_back(q);
    } else p.push_back(p[r.range(0, (int64_t)p.size() - 1)]);                    // revisit an earlier vertex
  }
  if (!p.empty() && r.range(0, 3) == 0) { if ((int)p.size() >= maxlen) p.pop_back(); p.push_back(p[0]); }   // first = last
  return p;
}

static std::vector<Path64> degen_shapes() {
  std::vector<Path64> base = {
    {}, {{1, 1}}, {{1, 1}, {1, 1}}, {{0, 0}, {3, 1}}, {{2, 2}, {2, 2}, {2, 2}}, {{2, 2}, {2, 2}, {2, 2}, {2, 2}}, {{2, 2}, {2, 2}, {2, 2}, {2, 2}, {2, 2}, {2, 2}},
    {{0, 0}, {1, 0}, {2, 0}}, {{0, 0}, {1, 1}, {2, 2}, {3, 3}}, {{0, 0}, {2, 1}, {4, 2}, {6, 3}, {8, 4}, {10, 5}},
    {{0, 0}, {4, 0}, {2, 0}, {6, 0}, {1, 0}}, {{0, 0}, {5, 0}, {0, 0}, {5, 0}, {0, 0}}, {{0, 0}, {3, 0}, {3, 0}, {6, 0}, {6, 0}, {6, 3}},
    {{0, 0}, {2, 0}, {4, 0}, {4, 2}, {4, 4}, {2, 4}, {0, 4}, {0, 2}}, {{0, 0}, {4, 0}, {4, 4}, {0, 4}, {0, 0}}, {{0, 0}, {4, 0}, {4, 4}, {0, 4}, {0, 0}, {0, 0}},
    {{0, 0}, {4, 0}, {4, 4}, {2, 4}, {2, 8}, {2, 4}, {0, 4}}, {{0, 0}, {4, 0}, {8, 0}, {4, 0}, {4, 4}}, {{0, 0}, {20, 1}, {40, 0}, {40, 40}, {0, 0}},
    {{0, 0}, {10, 1}, {20, 0}, {30, 1}, {40, 0}, {40, 10}, {0, 10}}, {{0, 0}, {10, 0}, {10, 1}, {20, 1}, {20, 0}, {30, 0}, {30, 10}, {0, 10}},
    {{0, 0}, {8, 0}, {8, 8}, {0, 8}, {0, 0}, {8, 0}, {8, 8}, {0, 8}}, {{0, 0}, {6, 6}, {6, 0}, {0, 6}}, {{0, 0}, {6, 6}, {6, 0}, {3, 3}, {0, 6}},
    {{5, 0}, {6, 4}, {10, 5}, {6, 6}, {5, 10}, {4, 6}, {0, 5}, {4, 4}}, {{0, 0}, {1, 0}, {1, 0}, {2, 0}, {2, 0}, {2, 1}, {2, 1}, {0, 1}, {0, 1}, {0, 0}},
    {{0, 0}, {12, 1}, {24, 0}, {24, 12}, {12, 13}, {0, 12}}, {{0, 0}, {3, 0}, {6, 0}, {9, 0}, {9, 1}, {6, 1}, {3, 1}, {0, 1}},
  };
  std::vector<Path64> all; std::set<Path64, bool (*)(const Path64&, const Path64&)> seen(path_less);
  for (auto& b : base) for (int rev = 0; rev < 2; ++rev) for (size_t s = 0; s < std::max<size_t>(1, b.size()); ++s) {
    Path64 p; for (size_t i = 0; i < b.size(); ++i) p.push_back(b[(s + i) % b.size()]); if (rev) std::reverse(p.begin(), p.end());
    if (seen.insert(p).second) all.push_back(p);
  }
  return all;
}

// vh c20 --fam in|rand|degen --in file --skip k --stride s --n N --seed S --emb 0,1 --eps 0/1,1/2,1/1,2/1 --mds 1/1,2/1,9/2 --lite 0|1 --out file --nt file
static int cmd_c20(const Args& a) {
  install_crash_handler();
  const uint64_t seed = (uint64_t)argi(a, "seed", 1); Rng r(seed);
  std::string fam = args(a, "fam", "rand");
  std::vector<long long> embs = argl(a, "emb", "0");
  std::vector<Rat> eps = rats(args(a, "eps", "0/1,1/2,1/1,2/1")), mds = rats(args(a, "mds", "1/1,2/1,9/2"));
  const bool lite = argi(a, "lite", 0) != 0; long long n = argi(a, "n", 100);
  std::ofstream os(args(a, "out", "/dev/stdout"));
  Stats st; long long id = 0;
  static const std::vector<Rat> EPSALL = {{0, 1}, {1, 2}, {1, 1}, {3, 2}, {2, 1}, {3, 1}, {5, 1}, {8, 1}, {1, 4}, {7, 2}};
  static const std::vector<Rat> MDSALL = {{0, 1}, {1, 1}, {2, 1}, {9, 2}, {5, 1}, {10, 1}, {1, 2}, {26, 1}};
  if (fam == "in") {
    std::ifstream in(args(a, "in", "")); std::string line; long long cnt = 0, skip = argi(a, "skip", 0), stride = argi(a, "stride", 1);
    while (std::getline(in, line)) {
      if (line.empty()) continue;
      long long k = cnt++; if (k < skip || (k - skip) % stride != 0) continue;
      JV v = jparse(line); Path64 p = path_from(v["p"]);
      for (long long e : embs) do_path(os, ++id, fam, p, emb_table()[e], eps, mds, seed, st, lite);
    }
  } else if (fam == "rand") {
    for (long long i = 0; i < n; ++i) {
      int g = (int)r.pick(std::vector<int>{2, 3, 4, 6, 9, 14, 24, 40}); Path64 p = gen_rand(r, (int)argi(a, "maxlen", 12), g);
      std::vector<Rat> e4, m3; for (int k = 0; k < 4; ++k) e4.push_back(r.pick(EPSALL)); for (int k = 0; k < 3; ++k) m3.push_back(r.pick(MDSALL));
      do_path(os, ++id, fam, p, emb_table()[r.pick(embs)], e4, m3, seed, st, lite);
    }
  } else if (fam == "degen") {
    for (auto& p : degen_shapes()) for (long long e : embs) do_path(os, ++id, fam, p, emb_table()[e], EPSALL, MDSALL, seed, st, lite);
  } else { fprintf(stderr, "unknown fam\n"); return 2; }
  os.close();
  std::string ntf = args(a, "nt", "");
  if (!ntf.empty()) { std::ofstream nt(ntf, std::ios::binary); nt.write((const char*)st.nt.data(), (std::streamsize)(st.nt.size() * sizeof(uint64_t))); }
  fprintf(stderr, "{\"paths\":%lld,\"calls\":%lld,\"variants_same\":%lld,\"variants_diff\":%lld,\"nontrivial\":%zu}\n", st.paths, st.calls, st.same, st.variants_diff, st.nt.size());
  return 0;
}

// vh c20ell --out file : Ellipse<int64_t> over centres x doubled radii x step counts (enumerated here, judged by TLC)
static int cmd_c20ell(const Args& a) {
  std::ofstream os(args(a, "out", "/dev/stdout"));
  const int maxr2 = (int)argi(a, "maxr2", 24); long long cnt = 0;
  std::vector<Point64> cs = {{0, 0}, {7, -3}};
  std::vector<long long> steps = argl(a, "steps", "0,1,2,3,4,5,7,12,16,33");
  std::vector<long long> one = argl(a, "one", "");      // cx,cy,a2,b2,steps : replay of a single call
  for (auto& c : cs) for (int a2 = -2; a2 <= maxr2; ++a2) for (int b2 = -2; b2 <= maxr2; ++b2) for (long long s : steps) {
    if (one.size() == 5 && !(c.x == one[0] && c.y == one[1] && a2 == one[2] && b2 == one[3] && s == one[4])) continue;
    if (a2 == 0 && b2 > 2) continue;        // radiusX = 0 returns the empty path whatever radiusY is: a few of them suffice
    if (a2 == 1 && b2 < 0) { /* keep */ }
    Path64 p = Ellipse<int64_t>(c, a2 * 0.5, b2 * 0.5, (size_t)s);
    Ev ev("Ell"); ev.kv("c", jpt(c)).kn("a2", a2).kn("b2", b2).kn("steps", s).kn("n", (long long)p.size()).kv("p", jpath(p)).ks("v", "pt");
    os << ev.str() << "\n"; ++cnt;
    if (a2 > 0 && b2 > 0 && a2 % 2 == 0 && b2 % 2 == 0 && c.x == 0) {   // the Rect overload: same ellipse given by its bounding box
      Path64 q = Ellipse(Rect64(c.x - a2 / 2, c.y - b2 / 2, c.x + a2 / 2, c.y + b2 / 2), (size_t)s);
      if (q != p) { Ev e2("Ell"); e2.kv("c", jpt(c)).kn("a2", a2).kn("b2", b2).kn("steps", s).kn("n", (long long)q.size()).kv("p", jpath(q)).ks("v", "rect"); os << e2.str() << "\n"; ++cnt; }
    }
  }
  fprintf(stderr, "{\"paths\":0,\"calls\":%lld,\"variants_same\":0,\"variants_diff\":0,\"nontrivial\":0}\n", cnt);
  return 0;
}

// vh c20nt --files a.nt,b.nt,... : number of distinct 64-bit keys over the side files (distinct non-trivial calls)
static int cmd_c20nt(const Args& a) {
  std::vector<uint64_t> all; std::stringstream ss(args(a, "files", "")); std::string f;
  while (std::getline(ss, f, ',')) { if (f.empty()) continue; std::ifstream in(f, std::ios::binary); uint64_t v; while (in.read((char*)&v, sizeof v)) all.push_back(v); }
  std::sort(all.begin(), all.end()); size_t total = all.size(); all.erase(std::unique(all.begin(), all.end()), all.end());
  printf("{\"total\":%zu,\"distinct\":%zu}\n", total, all.size());
  return 0;
}


// ---------------------------------------------------------------- near-collinear paths with large coordinates
// wire format of spec/C18BigInt.tla: [sign, 12-bit limbs little-endian]
static std::string jbig(int64_t v) {
  std::string r = "["; unsigned __int128 m = v < 0 ? (unsigned __int128)(-(i128)v) : (unsigned __int128)v;
  r += v == 0 ? "0" : v > 0 ? "1" : "-1";
  while (m) { r += "," + std::to_string((unsigned)(m & 0xFFF)); m >>= 12; }
  return r + "]";
}
static std::string jbigpath(const Path64& p) { return jarr(p.begin(), p.end(), [](const Point64& q) { return "[" + jbig(q.x) + "," + jbig(q.y) + "]"; }); }
static int64_t egcd(int64_t a, int64_t b, i128& x, i128& y) {   // a*x + b*y = g > 0 (g = 0 only for a = b = 0)
  if (b == 0) { x = a < 0 ? -1 : 1; y = 0; return a < 0 ? -a : a; }
  i128 x1, y1; int64_t g = egcd(b, a % b, x1, y1); x = y1; y = x1 - (i128)(a / b) * y1; return g;
}
static int64_t big_comp(Rng& r, int lo, int hi) { int e = (int)r.range(lo, hi); int64_t v = ((int64_t)1 << e) + r.range(0, ((int64_t)1 << e) - 1); return r.coin() ? v : -v; }
static Point64 big_dir(Rng& r, int lo, int hi) {
  for (;;) { int64_t x = big_comp(r, lo, hi), y = r.range(0, 9) == 0 ? 0 : big_comp(r, lo, hi); if (r.range(0, 19) == 0) std::swap(x, y); if (x || y) return Point64(x, y); }
}
// next edge v with exact cross product u x v = k0 * gcd(u) (k0 = 0: straight on)
static bool near_edge(Rng& r, const Point64& u, int64_t k0, Point64& v) {
  i128 a, b; int64_t g = egcd(u.x, u.y, a, b); if (g == 0) return false;
  if (k0 == 0) { int64_t t = r.range(1, 3); v = Point64(u.x / g * t, u.y / g * t); if (r.range(0, 2) == 0) v = u; return true; }
  i128 wx = -b, wy = a;                                   // u.x * wy - u.y * wx = g
  i128 uu = (i128)u.x * u.x + (i128)u.y * u.y, q = ((i128)wx * u.x + (i128)wy * u.y) / uu; wx -= q * u.x; wy -= q * u.y;   // |w| <~ |u|
  i128 t = (k0 < 0 ? -k0 : k0) + r.range(1, 2);
  i128 vx = t * u.x + (i128)k0 * wx, vy = t * u.y + (i128)k0 * wy;
  const i128 lim = (i128)1 << 46; if (vx > lim || vx < -lim || vy > lim || vy < -lim) return false;
  v = Point64((int64_t)vx, (int64_t)vy); return true;
}
static Path64 gen_near(Rng& r) {
  static const std::vector<int64_t> KS = {0, 0, 1, -1, 1, -1, 2, -2, 3, -3, 5, -7, 17, -64, 1000, -100000};
  for (;;) {
    int lo = (int)r.range(26, 38), hi = (int)r.range(lo, 40), n = (int)r.range(3, 7);
    Path64 p; p.emplace_back(r.range(0, 3) ? r.range(-(1LL << 20), 1LL << 20) : 0, r.range(0, 3) ? r.range(-(1LL << 20), 1LL << 20) : 0);
    Point64 u = big_dir(r, lo, hi); p.emplace_back(p[0].x + u.x, p[0].y + u.y);
    bool ok = true;
    while ((int)p.size() < n && ok) {
      Point64 v;
      if (r.range(0, 4) == 0) v = big_dir(r, lo, hi);                      // an ordinary (large) corner
      else if (!near_edge(r, u, r.pick(KS), v)) { ok = false; break; }
      Point64 q(p.back().x + v.x, p.back().y + v.y);
      if (std::llabs(q.x) > (1LL << 50) || std::llabs(q.y) > (1LL << 50)) { ok = false; break; }
      p.push_back(q); u = v;
    }
    if (ok && (int)p.size() >= 3) return p;
  }
}
// vh c20big --n N --seed S --out file : TrimCollinear (Path64 and the PathD overload, closed and open) on near-collinear large paths
static int cmd_c20big(const Args& a) {
  install_crash_handler();
  Rng r((uint64_t)argi(a, "seed", 1)); long long n = argi(a, "n", 100), calls = 0, same = 0, diff = 0, id = 0;
  std::ofstream os(args(a, "out", "/dev/stdout"));
  std::vector<Path64> fixed = { {{0, 0}, {(1LL << 30) + 1, 1LL << 30}, {(1LL << 31) + 3, (1LL << 31) + 1}},
                                {{5, -7}, {(1LL << 30) + 6, (1LL << 30) - 7}, {(1LL << 31) + 8, (1LL << 31) - 6}, {(1LL << 31) + 8, -(1LL << 33)}},
                                {{0, 0}, {(1LL << 40) + 1, 1LL << 40}, {(1LL << 41) + 3, (1LL << 41) + 1}, {-(1LL << 39), (1LL << 41)}} };
  std::ifstream in(args(a, "in", "")); std::string line; std::vector<Path64> given;
  if (a.count("in")) while (std::getline(in, line)) if (!line.empty()) given.push_back(path_from(jparse(line)["p"]));
  const long long total = a.count("in") ? (long long)given.size() : n;
  for (long long i = 0; i < total; ++i) {
    Path64 p = a.count("in") ? given[i] : (i < (long long)fixed.size() && argi(a, "fixed", 1) ? fixed[i] : gen_near(r));
    if (!a.count("in") && r.coin()) std::rotate(p.begin(), p.begin() + r.range(0, (int64_t)p.size() - 1), p.end());   // move the wrap-around point
    if (!a.count("in") && r.range(0, 3) == 0) std::reverse(p.begin(), p.end());
    g_cur = &p; g_emb = 0;
    for (int open = 0; open < 2; ++open) {
      Mon mon("TrimCollinear(large near-collinear)", open ? "open" : "closed");
      Path64 out = TrimCollinear(p, open != 0), out2 = TrimCollinear(out, open != 0);
      auto emit = [&](const char* v, const Path64& o, const Path64& o2) {
        os << "{\"e\":\"Big\",\"id\":" << ++id << ",\"c\":" << (open ? 0 : 1) << ",\"v\":" << jstr(v) << ",\"p\":" << jbigpath(p)
           << ",\"out\":" << jbigpath(o) << ",\"out2\":" << jbigpath(o2) << "}\n"; ++calls; };
      emit("64", out, out2);
      PathD d = TrimCollinear(to_d(p), 0, open != 0); Path64 b; bool okd = from_d(d, b);
      if (okd && b == out) ++same;
      else { ++diff; PathD d2 = TrimCollinear(d, 0, open != 0); Path64 b2; from_d(d2, b2); emit("D0", okd ? b : Path64{{1LL << 62, 1LL << 62}}, b2); }
    }
    g_cur = nullptr;
  }
  fprintf(stderr, "{\"paths\":%lld,\"calls\":%lld,\"variants_same\":%lld,\"variants_diff\":%lld,\"nontrivial\":0}\n", total, calls, same, diff);
  return 0;
}

static Reg r1("c20", cmd_c20);
static Reg r4("c20big", cmd_c20big);
static Reg r3("c20nt", cmd_c20nt);
static Reg r2("c20ell", cmd_c20ell);
}  // namespace
