// Shared pieces of the boolean-clipping families (C01 C02 C03 C04 C05 C13 C15).
#pragma once
#include "common.hpp"

// ---- native pre-filter mirroring Geom!GP (same conservative tests; TLC certifies the survivors)
inline int64_t isqrt_hi(int64_t n) { int64_t lo = 0, hi = 3037000499LL; while (lo < hi) { int64_t m = (lo + hi) / 2; if (m * m >= n) hi = m; else lo = m + 1; } return lo; }
struct TEdge { Point64 a, b; int path, idx, n; };
inline std::vector<TEdge> tag_edges(const Paths64& ps) { std::vector<TEdge> E; for (size_t k = 0; k < ps.size(); ++k) for (size_t i = 0; i < ps[k].size(); ++i) E.push_back({ps[k][i], ps[k][(i + 1) % ps[k].size()], (int)k, (int)i, (int)ps[k].size()}); return E; }
inline int64_t crossp(const Point64& a, const Point64& b, const Point64& p) { return (b.x - a.x) * (p.y - a.y) - (b.y - a.y) * (p.x - a.x); }
inline int sgn(int64_t v) { return v > 0 ? 1 : v < 0 ? -1 : 0; }
inline bool far_rat(int64_t x, int64_t y, int64_t D, const TEdge& g, int t) {
  const Point64 &u = g.a, &v = g.b;
  int64_t cr = (v.x - u.x) * (y - D * u.y) - (v.y - u.y) * (x - D * u.x);
  int64_t len2 = (u.x - v.x) * (u.x - v.x) + (u.y - v.y) * (u.y - v.y);
  if (std::llabs(cr) >= t * D * isqrt_hi(len2)) return true;
  if (x <= D * (std::min(u.x, v.x) - t) || x >= D * (std::max(u.x, v.x) + t)) return true;
  if (y <= D * (std::min(u.y, v.y) - t) || y >= D * (std::max(u.y, v.y) + t)) return true;
  return false;
}
inline bool proper_cross(const TEdge& e, const TEdge& f) {
  return sgn(crossp(e.a, e.b, f.a)) * sgn(crossp(e.a, e.b, f.b)) < 0 && sgn(crossp(f.a, f.b, e.a)) * sgn(crossp(f.a, f.b, e.b)) < 0;
}
inline bool gp_native(const Paths64& all, int t) {
  auto E = tag_edges(all);
  for (auto& e : E) if (e.a == e.b) return false;
  for (auto& e : E) for (auto& f : E) {
    bool endpoint = e.path == f.path && (e.idx == f.idx || (f.idx + 1) % f.n == e.idx);
    if (!endpoint && !far_rat(e.a.x, e.a.y, 1, f, t)) return false;
  }
  for (size_t i = 0; i < E.size(); ++i) for (size_t j = i + 1; j < E.size(); ++j) if (proper_cross(E[i], E[j])) {
    const Point64 &a = E[i].a, &b = E[i].b, &c = E[j].a, &d = E[j].b;
    int64_t den = (b.x - a.x) * (d.y - c.y) - (b.y - a.y) * (d.x - c.x);
    int64_t num = (c.x - a.x) * (d.y - c.y) - (c.y - a.y) * (d.x - c.x);
    int s = sgn(den);
    int64_t X = s * (a.x * den + (b.x - a.x) * num), Y = s * (a.y * den + (b.y - a.y) * num), D = s * den;
    for (size_t k = 0; k < E.size(); ++k) if (k != i && k != j && !far_rat(X, Y, D, E[k], t)) return false;
  }
  return true;
}
inline bool rectilinear(const Paths64& ps) { for (auto& p : ps) for (size_t i = 0; i < p.size(); ++i) { auto& a = p[i]; auto& b = p[(i + 1) % p.size()]; if (a.x != b.x && a.y != b.y) return false; } return true; }

// ---- generators (lattice level, small coordinates)
inline Path64 rand_poly(Rng& r, int R, int nv) { Path64 p; for (int i = 0; i < nv; ++i) p.emplace_back(r.range(0, R), r.range(0, R)); return p; }
inline int64_t gcd64(int64_t a, int64_t b) { a = std::llabs(a); b = std::llabs(b); while (b) { int64_t t = a % b; a = b; b = t; } return a; }
// insert an exactly collinear lattice vertex on one edge (three consecutive collinear input vertices are in general position too)
inline void subdivide(Rng& r, Path64& p) {
  for (int tries = 0; tries < 8; ++tries) { size_t i = (size_t)r.range(0, (int64_t)p.size() - 1); const Point64 a = p[i], b = p[(i + 1) % p.size()];
    int64_t g = gcd64(b.x - a.x, b.y - a.y); if (g < 2) continue; int64_t k = r.range(1, g - 1);
    p.insert(p.begin() + i + 1, Point64(a.x + (b.x - a.x) / g * k, a.y + (b.y - a.y) / g * k)); return; }
}
// gp_filter_t: clearance demanded by the native general-position pre-filter; 0 = no filter (arbitrary random polygons, only
// clauses that need no input certificate are judged: BoolTrace "loose" cases)
inline int& gp_filter_t() { static int t = 3; return t; }
inline bool gen_gps(Rng& r, int R, int maxpaths, int maxv, Paths64& S, Paths64& C) {
  for (int tries = 0; tries < 4000; ++tries) {
    S.clear(); C.clear();
    int ns = (int)r.range(1, maxpaths), nc = (int)r.range(1, maxpaths);
    for (int i = 0; i < ns; ++i) S.push_back(rand_poly(r, R, (int)r.range(3, maxv)));
    for (int i = 0; i < nc; ++i) C.push_back(rand_poly(r, R, (int)r.range(3, maxv)));
    if (r.range(0, 2) == 0) for (auto* ps : {&S, &C}) for (auto& p : *ps) if (r.coin()) subdivide(r, p);
    Paths64 all = S; all.insert(all.end(), C.begin(), C.end());
    if (gp_filter_t() == 0) { bool ok = true; for (auto& p : all) for (size_t i = 0; i < p.size(); ++i) if (p[i] == p[(i + 1) % p.size()]) ok = false; if (ok) return true; continue; }
    if (gp_native(all, gp_filter_t())) return true;
  }
  return false;
}
inline Path64 ring(int64_t c, int64_t rad, bool diamond, bool positive) {
  Path64 p = diamond ? Path64{{c + rad, c}, {c, c + rad}, {c - rad, c}, {c, c - rad}} : Path64{{c - rad, c - rad}, {c + rad, c - rad}, {c + rad, c + rad}, {c - rad, c + rad}};
  if (!positive) std::reverse(p.begin(), p.end());
  return p;
}
inline void gen_ladder(int ws, int wc, bool diamond, Paths64& S, Paths64& C) {
  S.clear(); C.clear();
  for (int i = 0; i < std::abs(ws); ++i) S.push_back(ring(64, 60 - 16 * i, diamond, ws > 0));
  for (int i = 0; i < std::abs(wc); ++i) C.push_back(ring(64, 52 - 16 * i, diamond, wc > 0));
}
// closed rectilinear walk with 2n vertices on [0,g]^2; consecutive coordinates distinct unless degenerate
inline Path64 rect_walk(Rng& r, int g, int n, bool degenerate) {
  std::vector<int64_t> xs(n), ys(n);
  for (int i = 0; i < n; ++i) {
    do xs[i] = r.range(0, g); while (!degenerate && i > 0 && xs[i] == xs[i - 1]);
    do ys[i] = r.range(0, g); while (!degenerate && i > 0 && ys[i] == ys[i - 1]);
  }
  if (!degenerate) { while (xs[n - 1] == xs[0] || (n > 1 && xs[n - 1] == xs[n - 2])) xs[n - 1] = r.range(0, g); while (ys[n - 1] == ys[0] || (n > 1 && ys[n - 1] == ys[n - 2])) ys[n - 1] = r.range(0, g); }
  Path64 p; for (int i = 0; i < n; ++i) { p.emplace_back(xs[i], ys[i]); p.emplace_back(xs[(i + 1) % n], ys[i]); }
  return p;
}

// ---- one Execute on a fresh clipper
struct ExecRes { bool ok = false; Paths64 closed, open; };
inline ExecRes run_exec(const Paths64& S, const Paths64& SO, const Paths64& C, int ct, int fr, int pc, int rs, PolyTree64* tree) {
  ExecRes r; Clipper64 c; c.PreserveCollinear(pc != 0); c.ReverseSolution(rs != 0);
  if (!S.empty()) c.AddSubject(S);
  if (!SO.empty()) c.AddOpenSubject(SO);
  if (!C.empty()) c.AddClip(C);
  if (tree) { r.ok = c.Execute((ClipType)ct, (FillRule)fr, *tree, r.open); r.closed = PolyTreeToPaths64(*tree); }
  else r.ok = c.Execute((ClipType)ct, (FillRule)fr, r.closed, r.open);
  return r;
}
inline void flatten_tree(const PolyPath64& pp, int parent, Paths64& nodes, std::vector<long long>& par) {
  for (auto it = pp.begin(); it != pp.end(); ++it) { const PolyPath64& ch = **it; nodes.push_back(ch.Polygon()); par.push_back(parent); int me = (int)nodes.size(); flatten_tree(ch, me, nodes, par); }
}

// ---- registry of distinct outputs of one case; writes Out events
struct OutReg {
  std::vector<Paths64> outs; std::map<uint64_t, std::vector<int>> idx;
  const Emb* emb; const std::vector<Point64>* pts; int ps; std::ostream* os;
  int get(const Paths64& sol) {
    uint64_t h = hash_paths(sol);
    for (int k : idx[h]) if (outs[k - 1] == sol) return k;
    outs.push_back(sol); int k = (int)outs.size(); idx[h].push_back(k);
    size_t minlen = 1000000; long long dups = 0; bool any = false;
    int64_t lx = 0, ly = 0, hx = 0, hy = 0;
    for (auto& p : sol) { minlen = std::min(minlen, p.size()); for (size_t i = 0; i < p.size(); ++i) { if (p.size() > 1 && p[i] == p[(i + 1) % p.size()]) ++dups; if (!any) { lx = hx = p[i].x; ly = hy = p[i].y; any = true; } lx = std::min(lx, p[i].x); hx = std::max(hx, p[i].x); ly = std::min(ly, p[i].y); hy = std::max(hy, p[i].y); } }
    if (sol.empty()) minlen = 3;
    std::vector<long long> bb = any ? std::vector<long long>{floordiv(lx - emb->tx, emb->m), floordiv(ly - emb->ty, emb->m), ceildiv(hx - emb->tx, emb->m), ceildiv(hy - emb->ty, emb->m)} : std::vector<long long>{0, 0, -1, -1};
    Paths64 lat; bool islat = unemb_paths(*emb, sol, lat);
    // lattice-level coordinates must stay small for TLC
    if (islat) for (auto& p : lat) for (auto& q : p) if (std::llabs(q.x) > 4096 || std::llabs(q.y) > 4096) islat = false;
    Ev e("Out"); e.kn("k", k).kn("n", (long long)sol.size()).kn("minlen", (long long)minlen).kn("dups", dups).kv("bb", jints(bb)).kv("cover", jints(cover_at(sol, *pts, ps, *emb))).kn("lat", islat ? 1 : 0);
    if (islat) e.kv("paths", jpaths(lat));
    (*os) << e.str() << "\n";
    return k;
  }
};
