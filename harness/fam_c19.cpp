// Family "c19": MinkowskiSum / MinkowskiDiff (clipper.minkowski.h) for C19Trace.tla.
// The harness generates or reads (pattern, path) pairs at lattice level, embeds them natively
// (pattern -> m*pattern + Tp, path -> m*path + Tq), calls the library, and records MEASUREMENTS of
// the output: winding of the output at driver-chosen sample points (mapped with the same affine
// map), path count, the raw output where it maps back to small lattice points, the largest input
// coordinate, and the natively compared relation PathD overload == descaled Path64 result.
// Which points are inside the swept region / clear of the tolerance band is decided by TLC.
#include "common.hpp"
#include "clipper2/clipper.minkowski.h"

struct Emb19 { int id; int64_t m; int64_t tpx, tpy, tqx, tqy; int ps; };
static const std::vector<Emb19>& c19_embs() {
  static const int64_t A = 1LL << 39, B = (1LL << 40) - (1LL << 23);
  static std::vector<Emb19> t = {
    {0, 1, 0, 0, 0, 0, 1},
    {1, 1, (1LL << 29) + 7, -(1LL << 29) - 3, -(1LL << 30) + 11, (1LL << 28) + 5, 1},
    {2, 3, -A + 1, A - 2000, A - 2000, -A + 3, 3},                 // sum stays small, diff reaches 2^40
    {3, 1000, 0, 0, 0, 0, 4},
    {4, 8192, B, -B, B - 5, -B + 9, 4},                            // |input| <= 2^40, sum reaches 2^41
    {5, 1LL << 30, 0, 0, 0, 0, 4},
  };
  return t;
}

static Path64 emb19(const Path64& p, int64_t m, int64_t tx, int64_t ty) { Path64 r; r.reserve(p.size()); for (auto& q : p) r.emplace_back(m * q.x + tx, m * q.y + ty); return r; }

static bool distinct_pts(const Path64& p) { for (size_t i = 0; i < p.size(); ++i) for (size_t j = i + 1; j < p.size(); ++j) if (p[i] == p[j]) return false; return true; }
static Path64 rand_pts(Rng& r, int R, int n) { Path64 p; do { p.clear(); for (int i = 0; i < n; ++i) p.emplace_back(r.range(0, R), r.range(0, R)); } while (!distinct_pts(p)); return p; }
static int64_t cr3(const Point64& a, const Point64& b, const Point64& c) { return (b.x - a.x) * (c.y - a.y) - (b.y - a.y) * (c.x - a.x); }
static Path64 hull(Path64 p) {
  std::sort(p.begin(), p.end(), [](const Point64& a, const Point64& b) { return a.x < b.x || (a.x == b.x && a.y < b.y); });
  Path64 h(2 * p.size()); size_t k = 0;
  for (size_t i = 0; i < p.size(); ++i) { while (k >= 2 && cr3(h[k - 2], h[k - 1], p[i]) <= 0) --k; h[k++] = p[i]; }
  for (size_t i = p.size() - 1, t = k + 1; i > 0; --i) { while (k >= t && cr3(h[k - 2], h[k - 1], p[i - 1]) <= 0) --k; h[k++] = p[i - 1]; }
  h.resize(k - 1); return h;
}
// pattern kinds: 0 convex (hull of random points), 1 random vertex order (mostly self-intersecting for 4-5 vertices),
// 2 vertices sorted by angle about an interior point (simple, mostly non-convex)
static Path64 gen_pattern(Rng& r, int R, int nv, int kind) {
  for (int tries = 0; tries < 200; ++tries) {
    if (kind == 0) { Path64 h = hull(rand_pts(r, R, nv + 3)); if ((int)h.size() >= 3 && (int)h.size() <= 5) { if (r.coin()) std::reverse(h.begin(), h.end()); std::rotate(h.begin(), h.begin() + r.range(0, (int64_t)h.size() - 1), h.end()); return h; } continue; }
    Path64 p = rand_pts(r, R, nv);
    if (kind == 2) {
      int64_t cx = 0, cy = 0; for (auto& q : p) { cx += q.x; cy += q.y; }
      const double ox = (double)cx / nv + 0.123, oy = (double)cy / nv + 0.217;
      std::sort(p.begin(), p.end(), [&](const Point64& a, const Point64& b) { return atan2(a.y - oy, a.x - ox) < atan2(b.y - oy, b.x - ox); });
      if (r.coin()) std::reverse(p.begin(), p.end());
    }
    // bias only (TLC classifies the shapes): kind 2 wants a reflex vertex, kind 1 a crossing
    const int n = (int)p.size(); bool pos = false, neg = false, cross = false;
    for (int i = 0; i < n; ++i) { int64_t c = cr3(p[i], p[(i + 1) % n], p[(i + 2) % n]); if (c > 0) pos = true; if (c < 0) neg = true; }
    for (int i = 0; i < n; ++i) for (int j = i + 2; j < n; ++j) { if (i == 0 && j == n - 1) continue;
      const Point64 &a = p[i], &b = p[(i + 1) % n], &c = p[j], &d = p[(j + 1) % n];
      if ((cr3(a, b, c) > 0) != (cr3(a, b, d) > 0) && (cr3(c, d, a) > 0) != (cr3(c, d, b) > 0)) cross = true; }
    if (nv > 3 && tries < 60 && ((kind == 2 && !(pos && neg)) || (kind == 1 && !cross))) continue;
    return p;
  }
  return rand_pts(r, R, nv);
}

static std::vector<long long> split20(i128 v) { return {(long long)(v >> 20), (long long)(v & ((1 << 20) - 1))}; }

// sample points in ps-scaled lattice coordinates: uniformly in the box of the swept region, and scattered in and
// around individual parallelograms o + s*u + t*w (s, t in [-1/4, 5/4]) - only a choice of where to look
static std::vector<Point64> sample19(Rng& r, const Path64& pat, const Path64& path, bool sum, bool closed, int ps, int npts) {
  std::vector<Point64> pts; std::set<std::pair<int64_t, int64_t>> seen;
  auto add = [&](int64_t x, int64_t y) { if (seen.insert({x, y}).second) pts.emplace_back(x, y); };
  if (pat.empty() || path.empty()) { add(0, 0); add(1, 1); return pts; }
  int64_t lx = INT64_MAX, ly = INT64_MAX, hx = INT64_MIN, hy = INT64_MIN;
  for (auto& a : path) for (auto& b : pat) { Point64 c = sum ? a + b : a - b; lx = std::min(lx, c.x); hx = std::max(hx, c.x); ly = std::min(ly, c.y); hy = std::max(hy, c.y); }
  const int64_t mg = std::max<int64_t>(1, (hx - lx + hy - ly) / 16);
  size_t ne = closed ? path.size() : path.size() - 1;
  int guard = 0;
  while ((int)pts.size() < npts / 2 && ne > 0 && guard++ < 10000) {
    size_t i = r.next() % ne, j = r.next() % pat.size();
    Point64 a1 = path[i], a2 = path[(i + 1) % path.size()], b1 = pat[j], b2 = pat[(j + 1) % pat.size()];
    Point64 o = sum ? a1 + b1 : a1 - b1, u = a2 - a1, w = sum ? b2 - b1 : b1 - b2;
    int64_t s = r.range(-4, 20), t = r.range(-4, 20);   // sixteenths
    add(floordiv(ps * (16 * o.x + s * u.x + t * w.x), 16), floordiv(ps * (16 * o.y + s * u.y + t * w.y), 16));
  }
  guard = 0;
  while ((int)pts.size() < npts && guard++ < 100000) add(r.range(ps * (lx - mg), ps * (hx + mg)), r.range(ps * (ly - mg), ps * (hy + mg)));
  return pts;
}

// sampler "deep" (family deep): integer points of the central column x in [8, 22] of the swept band, half of them in the
// middle fifth of the result's y-range (where the hatch strokes pile up deepest), the rest over the whole y-range
static std::vector<Point64> sample_deep(Rng& r, const Path64& pat, const Path64& path, bool sum, int ps, int npts) {
  std::vector<Point64> pts; std::set<std::pair<int64_t, int64_t>> seen;
  auto add = [&](int64_t x, int64_t y) { if (seen.insert({x, y}).second) pts.emplace_back(x, y); };
  int64_t ly = INT64_MAX, hy = INT64_MIN;
  for (auto& a : path) for (auto& b : pat) { Point64 c = sum ? a + b : a - b; ly = std::min(ly, c.y); hy = std::max(hy, c.y); }
  const int64_t mid = (ly + hy) / 2, tenth = std::max<int64_t>(1, (hy - ly) / 10);
  int guard = 0;
  while ((int)pts.size() < npts / 2 && guard++ < 100000) add(r.range(ps * 8, ps * 22), r.range(ps * (mid - tenth), ps * (mid + tenth)));
  while ((int)pts.size() < npts && guard++ < 200000) add(r.range(ps * 8, ps * 22), r.range(ps * (ly - 4), ps * (hy + 4)));
  return pts;
}

static bool d_matches(double d, int64_t v, double scale) { return d == (double)v * (1 / scale) || d == (double)v / scale; }

struct Counts { long long calls = 0, cases = 0; };

static void run_case(std::ostream& os, uint64_t s0, long long id, const std::string& fam, const Path64& pat, const Path64& path,
                     int op, int closed, const Emb19& e, int npts, bool withD, Counts& cn, bool deep = false) {
  const bool sum = op == 1;
  uint64_t h = hash_paths({pat, path}) ^ s0 ^ (uint64_t)(op * 2 + closed) * 0x9E3779B97F4A7C15ULL ^ (uint64_t)e.id * 0xC2B2AE3D27D4EB4FULL;
  Rng pr(h);     // per-case stream: a replay of this single case (same --seed) picks the same points
  std::vector<Point64> pts = deep && !pat.empty() && !path.empty() ? sample_deep(pr, pat, path, sum, e.ps, npts) : sample19(pr, pat, path, sum, closed != 0, e.ps, npts);
  Path64 P = emb19(pat, e.m, e.tpx, e.tpy), Q = emb19(path, e.m, e.tqx, e.tqy);
  i128 inmax = 0; for (auto* pp : {&P, &Q}) for (auto& q : *pp) { inmax = std::max(inmax, (i128)std::llabs(q.x)); inmax = std::max(inmax, (i128)std::llabs(q.y)); }
  Paths64 out = sum ? MinkowskiSum(P, Q, closed != 0) : MinkowskiDiff(P, Q, closed != 0); ++cn.calls;
  // the result's frame: m*R + T with T = Tq + Tp (sum) or Tq - Tp (diff)
  const i128 Tx = sum ? (i128)e.tqx + e.tpx : (i128)e.tqx - e.tpx, Ty = sum ? (i128)e.tqy + e.tpy : (i128)e.tqy - e.tpy;
  std::vector<long long> cover; cover.reserve(pts.size());
  for (auto& q : pts) { PtW p{(i128)e.m * q.x + (i128)e.ps * Tx, (i128)e.m * q.y + (i128)e.ps * Ty}; bool on = false; int w = wind_at(out, p, e.ps, on); cover.push_back(on ? 99 : w); }
  // raw output at lattice level when every vertex maps back to a small lattice point
  Paths64 lat; bool islat = true; size_t nv = 0;
  for (auto& p : out) { Path64 rr; for (auto& q : p) { i128 dx = (i128)q.x - Tx, dy = (i128)q.y - Ty; if (dx % e.m || dy % e.m) { islat = false; break; } i128 x = dx / e.m, y = dy / e.m; if (x > 2048 || x < -2048 || y > 2048 || y < -2048) { islat = false; break; } rr.emplace_back((int64_t)x, (int64_t)y); ++nv; } if (!islat) break; lat.push_back(rr); }
  if (nv > 400) islat = false;
  if (!islat) lat.clear();
  // PathD overloads (decimal places dp): input lattice / 10^dp as doubles; result must be the Path64 result descaled
  long long dn = -1, deq = 1, dp = 0;
  if (withD && e.id == 0) {
    dp = (long long)(pr.next() % 4); const double scale = std::pow(10.0, (double)dp);
    PathD pd, qd; for (auto& q : pat) pd.emplace_back((double)q.x / scale, (double)q.y / scale); for (auto& q : path) qd.emplace_back((double)q.x / scale, (double)q.y / scale);
    // only meaningful when the library's own scaling recovers the lattice input exactly (checked natively, else skipped)
    bool exact = true;
    for (size_t i = 0; i < pat.size(); ++i) if ((int64_t)std::round(pd[i].x * scale) != pat[i].x || (int64_t)std::round(pd[i].y * scale) != pat[i].y) exact = false;
    for (size_t i = 0; i < path.size(); ++i) if ((int64_t)std::round(qd[i].x * scale) != path[i].x || (int64_t)std::round(qd[i].y * scale) != path[i].y) exact = false;
    if (exact) {
      PathsD od = sum ? MinkowskiSum(pd, qd, closed != 0, (int)dp) : MinkowskiDiff(pd, qd, closed != 0, (int)dp); ++cn.calls;
      dn = (long long)od.size();
      if (od.size() != out.size()) deq = 0;
      else for (size_t k = 0; k < od.size() && deq; ++k) { if (od[k].size() != out[k].size()) { deq = 0; break; } for (size_t i = 0; i < od[k].size(); ++i) if (!d_matches(od[k][i].x, out[k][i].x, scale) || !d_matches(od[k][i].y, out[k][i].y, scale)) { deq = 0; break; } }
    }
  }
  Ev ev("Mink");
  ev.kn("id", id).ks("fam", fam).kn("op", op).kn("closed", closed).kn("emb", e.id).kn("m", e.m).kn("ps", e.ps).kv("inmax", jints(split20(inmax)))
    .kv("pat", jpath(pat)).kv("path", jpath(path)).kv("pts", jpath(pts)).kn("n", (long long)out.size()).kv("cover", jints(cover))
    .kn("lat", islat ? 1 : 0).kv("paths", jpaths(lat)).kn("dn", dn).kn("deq", deq).kn("dp", dp);
  os << ev.str() << "\n"; ++cn.cases;
}

// vh c19 --fam rand|in|empty|deep [--E 255,256] [--sampler std|deep] --seed S --n N --emb 0,1 --ops 0,1 --closed 0,1 --npts 160 --ps 0 --d 1 --in file --skip k --stride s --out file
static int cmd_c19(const Args& a) {
  Rng r((uint64_t)argi(a, "seed", 1)); const uint64_t s0 = r.s;
  std::string fam = args(a, "fam", "rand");
  long long n = argi(a, "n", 10); int npts = (int)argi(a, "npts", 160); bool withD = argi(a, "d", 1) != 0;
  std::vector<long long> embs = argl(a, "emb", "0"), ops = argl(a, "ops", "1,0"), cls = argl(a, "closed", "0,1");
  const int psov = (int)argi(a, "ps", 0);
  const bool deep = args(a, "sampler", fam == "deep" ? "deep" : "std") == "deep";
  const bool rot = argi(a, "rotemb", 0) != 0;     // rotemb: one embedding of the list per (case, op, closed), rotating
  std::ofstream os(args(a, "out", "/dev/stdout"));
  Counts cn; long long id = 0, base = 0;
  auto emit = [&](const Path64& pat, const Path64& path) {
    long long k = 0; ++base;
    for (long long op : ops) for (long long c : cls) {
      ++k;
      for (size_t ei = 0; ei < embs.size(); ++ei) {
        if (rot && ei != 0 && (long long)ei != 1 + (base + k) % (long long)(embs.size() - 1)) continue;
        Emb19 e = c19_embs()[embs[ei]]; if (psov > 0) e.ps = psov;
        run_case(os, s0, ++id, fam, pat, path, (int)op, (int)c, e, npts, withD, cn, deep);
      }
    }
  };
  if (fam == "rand") {
    const int Rp[] = {24, 40, 64}, Rq[] = {60, 120, 200};
    for (long long i = 0; i < n; ++i) {
      int kind = (int)(i % 3), nv = (int)(kind == 0 ? r.range(3, 5) : r.range(0, 7) == 0 ? 3 : r.range(4, 5)), np = (int)r.range(2, 5);
      Path64 pat = gen_pattern(r, Rp[r.next() % 3], nv, kind), path = rand_pts(r, Rq[r.next() % 3], np);
      emit(pat, path);
    }
  } else if (fam == "deep") {
    // deep overlap: a tall rectangle pattern (one long edge, wider than the hatch) swept along a tightly folded hatch path of E short
    // strokes (x alternating 0 / 30, y = 6 i): in the central column every stroke's parallelogram of the long edge overlaps all the
    // others over a whole band (E deep), and the ramps below / above it pass through every depth 1..E.   --E 255,256
    for (long long E : argl(a, "E", "255,256")) {
      const int64_t H = 6 * E + 300;
      const int64_t Z = 0, W = -40; Path64 pat = {{Z, Z}, {Z, H}, {W, H}, {W, Z}}, path;
      for (long long i = 0; i <= E; ++i) path.emplace_back((int64_t)(i % 2 ? 30 : 0), (int64_t)(6 * i));
      emit(pat, path);
    }
  } else if (fam == "empty") {          // empty pattern and / or empty path (plus one non-empty control pair)
    Path64 tri = {{0, 0}, {10, 0}, {0, 10}}, seg = {{0, 0}, {30, 5}, {10, 40}}, none;
    emit(none, seg); emit(tri, none); emit(none, none); emit(tri, seg);
  } else if (fam == "in") {
    std::ifstream in(args(a, "in", "")); std::string line; long long cnt = 0, skip = argi(a, "skip", 0), stride = argi(a, "stride", 1);
    while (std::getline(in, line)) { if (line.empty()) continue; long long c = cnt++; if (c < skip || (c - skip) % stride != 0) continue; if (n > 0 && base >= n) break; JV v = jparse(line); emit(path_from(v["pat"]), path_from(v["path"])); }
  } else { fprintf(stderr, "unknown fam %s\n", fam.c_str()); return 2; }
  fprintf(stderr, "cases=%lld calls=%lld\n", cn.cases, cn.calls);
  return 0;
}
static Reg reg_c19("c19", cmd_c19);
