// Family "c16": every PathsD entry point against its integer counterpart on scaled input (C16Trace.tla).
// The harness (a) builds double inputs from dyadic rationals n / 2^e (exact), (b) calls the PathsD overload,
// (c) scales the same dyadic inputs itself in exact __int128 arithmetic and calls the integer overload,
// (d) recovers the integers behind the returned doubles in exact arithmetic and (e) records all of it.
// Whether (c) used the DOCUMENTED scale and rounding, whether the call is in the property's input class and
// whether the two results agree is decided by TLC (C16Trace.tla / C16Scale.tla), not here.  The IEEE last-bit
// clause (returned double = integer * (1/S) or integer / S) is measured natively and logged as a distance.
#include "common.hpp"
#include <cmath>

typedef unsigned __int128 u128;

struct Dy { int64_t n = 0; int e = 0; };                    // the rational n / 2^e, |n| < 2^53, e >= 0
static double dyv(const Dy& d) { return std::ldexp((double)d.n, -d.e); }
struct PtY { Dy x, y; };
typedef std::vector<PtY> PathY;
typedef std::vector<PathY> PathsY;

static std::string jwide(i128 v) {                           // [sign, limbs base 10^4 least significant first]
  if (v == 0) return "[0]";
  std::string s = v < 0 ? "[-1" : "[1"; u128 m = v < 0 ? (u128)(-v) : (u128)v;
  while (m) { s += "," + std::to_string((int)(m % 10000)); m /= 10000; }
  return s + "]";
}
static std::string jdy(const Dy& d) { return "[" + jwide(d.n) + "," + jnum(d.e) + "]"; }
static std::string jdyI(i128 n, int e) { return "[" + jwide(n) + "," + jnum(e) + "]"; }

// ---- the scale families, as the harness understands the documentation (TLC re-derives and checks every scaled coordinate)
static int sd_exp(int p) {                                   // k with 2^(k-1) <= 10^p < 2^k
  uint64_t t = 1; for (int i = 0; i < std::abs(p); ++i) t *= 10;
  int bl = 0; while (t) { ++bl; t >>= 1; }
  return p >= 0 ? bl : -(bl - 1);
}
static i128 pow10i(int q) { i128 t = 1; for (int i = 0; i < q; ++i) t *= 10; return t; }
static i128 pow2i(int q) { return (i128)1 << q; }
struct Fr { i128 N, D; bool ok; };                           // |x * S| = N / D
static Fr frac(i128 a, int e, char fam, int p) {
  Fr f{a, 1, true};
  if (e > 90) { f.ok = false; return f; }
  if (fam == 'D') { int k = sd_exp(p); if (k >= 0) { f.N = a * pow2i(k); f.D = pow2i(e); } else { f.D = pow2i(e - k); } }
  else if (p >= 0) { f.N = a * pow10i(p); f.D = pow2i(e); }
  else { f.D = pow2i(e) * pow10i(-p); }
  return f;
}
static i128 round_half_away(i128 v_abs_N, i128 D) { return (2 * v_abs_N + D) / (2 * D); }
static i128 scale_round(i128 n, int e, char fam, int p) {
  i128 a = n < 0 ? -n : n; Fr f = frac(a, e, fam, p);
  i128 M = round_half_away(f.N, f.D);
  return n < 0 ? -M : M;
}
static bool is_frac(i128 n, int e, char fam, int p) { i128 a = n < 0 ? -n : n; Fr f = frac(a, e, fam, p); return f.N % f.D != 0; }
static bool is_tie(i128 n, int e, char fam, int p) { i128 a = n < 0 ? -n : n; Fr f = frac(a, e, fam, p); return (2 * f.N) % (2 * f.D) == f.D; }
static double scale_double(char fam, int p) { return fam == 'D' ? std::ldexp(1.0, sd_exp(p)) : std::strtod(("1e" + std::to_string(p)).c_str(), nullptr); }

// d = n / 2^e exactly (e >= 0)
static bool decomp(double d, i128& n, int& e) {
  n = 0; e = 0;
  if (!std::isfinite(d)) return false;
  if (d == 0) return true;
  int ex; double m = std::frexp(d, &ex); int64_t mi = (int64_t)std::ldexp(m, 53); ex -= 53;
  while ((mi % 2) == 0) { mi /= 2; ++ex; }
  if (ex >= 0) { if (ex > 60) return false; n = (i128)mi * pow2i(ex); e = 0; } else { n = mi; e = -ex; }
  return true;
}
// the integer nearest to d * S, exactly
static bool recover(double d, char fam, int p, i128& out) {
  out = 0; i128 n; int e;
  if (!decomp(d, n, e)) return false;
  if (std::fabs((long double)d * (long double)scale_double(fam, p)) > 4.0e18L) return false;
  if (e > 90) return true;                                   // |d * S| < 2^53 * 2^27 / 2^90 : rounds to 0
  out = scale_round(n, e, fam, p); return true;
}
static int64_t ord(double d) { int64_t i; memcpy(&i, &d, 8); return i < 0 ? (int64_t)(0x8000000000000000ULL - (uint64_t)i) : i; }
static long long ulpdist(double a, double b) { if (!std::isfinite(a) || !std::isfinite(b)) return 1000; i128 x = (i128)ord(a) - (i128)ord(b); if (x < 0) x = -x; return x > 1000 ? 1000 : (long long)x; }

// ---- one case
struct CaseIn {
  std::string op; int p = 2;
  std::vector<PathsY> in;                                   // groups (meaning depends on op)
  long long ct = 1, fr = 0, pc = 0, rs = 0, jt = 0, et = 0, flag = 0;
  Dy delta, at, ml;
};
static char fam_of(const std::string& op) { return (op == "clipperd" || op == "clipperd_tree" || op == "boolop" || op == "boolop_tree" || op == "union1") ? 'D' : 'T'; }

static PathD toD(const PathY& p) { PathD r; for (auto& q : p) r.emplace_back(dyv(q.x), dyv(q.y)); return r; }
static PathsD toD(const PathsY& ps) { PathsD r; for (auto& p : ps) r.push_back(toD(p)); return r; }
static Path64 toFed(const PathY& p, char fam, int pr) { Path64 r; for (auto& q : p) r.emplace_back((int64_t)scale_round(q.x.n, q.x.e, fam, pr), (int64_t)scale_round(q.y.n, q.y.e, fam, pr)); return r; }
static Paths64 toFed(const PathsY& ps, char fam, int pr) { Paths64 r; for (auto& p : ps) r.push_back(toFed(p, fam, pr)); return r; }

static void flatD(const PolyPathD& pp, int parent, PathsD& nodes, std::vector<long long>& par) {
  for (auto it = pp.begin(); it != pp.end(); ++it) { const PolyPathD& ch = **it; nodes.push_back(ch.Polygon()); par.push_back(parent); int me = (int)nodes.size(); flatD(ch, me, nodes, par); }
}
static void flat64(const PolyPath64& pp, int parent, Paths64& nodes, std::vector<long long>& par) {
  for (auto it = pp.begin(); it != pp.end(); ++it) { const PolyPath64& ch = **it; nodes.push_back(ch.Polygon()); par.push_back(parent); int me = (int)nodes.size(); flat64(ch, me, nodes, par); }
}

struct Stats { long long calls = 0, libcalls = 0; };

// nearest double of v * 10^p for dyadic v (exact when representable), as the integer API's scaled parameter
static double scaled_param(const Dy& v, int p, bool& exact) {
  exact = true;
  if (v.n == 0) return 0.0;
  if (p >= 0) { i128 t = (i128)v.n * pow10i(p); i128 a = t < 0 ? -t : t; exact = a < ((i128)1 << 53); return std::ldexp((double)t, -v.e); }
  exact = false;                                             // 10^p is not a double: "scaled alike" is only defined up to the last bit
  return std::ldexp((double)v.n / (double)pow10i(-p), -v.e);
}

static void run_case(std::ostream& os, long long id, const CaseIn& c, Stats& st) {
  const char fam = fam_of(c.op); const int p = c.p; const std::string& op = c.op;
  std::vector<Paths64> fed; for (auto& g : c.in) fed.push_back(toFed(g, fam, p));
  std::vector<PathsD> din; for (auto& g : c.in) din.push_back(toD(g));
  std::vector<Paths64> r64; std::vector<PathsD> rD; std::vector<long long> par64, parD; int ok64 = 1, okD = 1, robust = 1;
  double fdelta = 0, fat = 0, fml = dyv(c.ml);
  const ClipType ct = (ClipType)c.ct; const FillRule fr = (FillRule)c.fr;
  if (op == "clipperd" || op == "clipperd_tree") {
    ClipperD cd(p); cd.PreserveCollinear(c.pc != 0); cd.ReverseSolution(c.rs != 0);
    if (!din[0].empty()) cd.AddSubject(din[0]);
    if (!din[1].empty()) cd.AddOpenSubject(din[1]);
    if (!din[2].empty()) cd.AddClip(din[2]);
    Clipper64 c6; c6.PreserveCollinear(c.pc != 0); c6.ReverseSolution(c.rs != 0);
    if (!fed[0].empty()) c6.AddSubject(fed[0]);
    if (!fed[1].empty()) c6.AddOpenSubject(fed[1]);
    if (!fed[2].empty()) c6.AddClip(fed[2]);
    PathsD clD, opD; Paths64 cl6, op6;
    if (op == "clipperd") { okD = cd.Execute(ct, fr, clD, opD); ok64 = c6.Execute(ct, fr, cl6, op6); }
    else {
      PolyTreeD tD; PolyTree64 t6; okD = cd.Execute(ct, fr, tD, opD); ok64 = c6.Execute(ct, fr, t6, op6);
      flatD(tD, 0, clD, parD); flat64(t6, 0, cl6, par64);
    }
    rD = {clD, opD}; r64 = {cl6, op6}; st.libcalls += 2;
  } else if (op == "boolop") {
    rD = {BooleanOp(ct, fr, din[0], din[1], p)}; r64 = {BooleanOp(ct, fr, fed[0], fed[1])}; st.libcalls += 2;
  } else if (op == "boolop_tree") {
    PolyTreeD tD; PolyTree64 t6; BooleanOp(ct, fr, din[0], din[1], tD, p); BooleanOp(ct, fr, fed[0], fed[1], t6);
    PathsD nD; Paths64 n6; flatD(tD, 0, nD, parD); flat64(t6, 0, n6, par64); rD = {nD}; r64 = {n6}; st.libcalls += 2;
  } else if (op == "union1") {
    rD = {Union(din[0], fr, p)}; r64 = {Union(fed[0], fr)}; st.libcalls += 2;
  } else if (op == "inflate") {
    bool ex1, ex2; fdelta = scaled_param(c.delta, p, ex1); fat = scaled_param(c.at, p, ex2);
    rD = {InflatePaths(din[0], dyv(c.delta), (JoinType)c.jt, (EndType)c.et, fml, p, dyv(c.at))};
    Paths64 base = InflatePaths(fed[0], fdelta, (JoinType)c.jt, (EndType)c.et, fml, fat); st.libcalls += 2;
    r64 = {base};
    if (!(ex1 && ex2)) {   // the scaled parameter is only defined up to the last bit: the case counts only if the integer result does not depend on that bit
      // every double within 3 ulps of the correctly rounded scaled value (covers delta * pow(10, p) and delta / 10^-p however rounded)
      auto around = [](double v, bool exact) { std::vector<double> r{v}; if (exact || v == 0) return r; double lo = v, hi = v; for (int i = 0; i < 3; ++i) { lo = std::nextafter(lo, -INFINITY); hi = std::nextafter(hi, INFINITY); r.push_back(lo); r.push_back(hi); } return r; };
      std::vector<double> ds = around(fdelta, ex1), as = around(fat, ex2);
      for (double d2 : ds) for (double a2 : as) { if (d2 == fdelta && a2 == fat) continue; ++st.libcalls; if (InflatePaths(fed[0], d2, (JoinType)c.jt, (EndType)c.et, fml, a2) != base) robust = 0; }
    }
  } else if (op == "rectclip" || op == "rectcliplines") {
    const PathY& rp = c.in[0][0];
    RectD rd(dyv(rp[0].x), dyv(rp[0].y), dyv(rp[1].x), dyv(rp[1].y));
    Rect64 r6(fed[0][0][0].x, fed[0][0][0].y, fed[0][0][1].x, fed[0][0][1].y);
    if (op == "rectclip") { rD = {RectClip(rd, din[1], p)}; r64 = {RectClip(r6, fed[1])}; }
    else { rD = {RectClipLines(rd, din[1], p)}; r64 = {RectClipLines(r6, fed[1])}; }
    st.libcalls += 2;
  } else if (op == "minksum" || op == "minkdiff") {
    if (op == "minksum") { rD = {MinkowskiSum(din[0][0], din[1][0], c.flag != 0, p)}; r64 = {MinkowskiSum(fed[0][0], fed[1][0], c.flag != 0)}; }
    else { rD = {MinkowskiDiff(din[0][0], din[1][0], c.flag != 0, p)}; r64 = {MinkowskiDiff(fed[0][0], fed[1][0], c.flag != 0)}; }
    st.libcalls += 2;
  } else if (op == "trim") {
    rD = {PathsD{TrimCollinear(din[0][0], p, c.flag != 0)}}; r64 = {Paths64{TrimCollinear(fed[0][0], c.flag != 0)}}; st.libcalls += 2;
  } else { fprintf(stderr, "unknown op %s\n", op.c_str()); exit(2); }
  ++st.calls;

  // ---- measurements of the D result: recovered integers, last-bit distance
  const double S = scale_double(fam, p), invS = 1.0 / S;
  long long ud = 0, recfail = 0, npts = 0;
  std::string jr = "[";
  for (size_t g = 0; g < rD.size(); ++g) {
    if (g) jr += ","; jr += "[";
    for (size_t k = 0; k < rD[g].size(); ++k) {
      if (k) jr += ","; jr += "[";
      for (size_t i = 0; i < rD[g][k].size(); ++i) {
        const PointD& q = rD[g][k][i]; i128 vx = 0, vy = 0;
        if (!recover(q.x, fam, p, vx) || !recover(q.y, fam, p, vy)) recfail = 1;
        for (int z = 0; z < 2; ++z) { double d = z ? q.y : q.x; i128 v = z ? vy : vx; i128 av = v < 0 ? -v : v;
          if (av >= ((i128)1 << 53)) continue;               // beyond the property's range: the last-bit clause is not measured
          double dv = (double)(int64_t)v; ud = std::max(ud, std::min(ulpdist(d, dv * invS), ulpdist(d, dv / S))); }
        if (i) jr += ","; jr += "[" + jwide(vx) + "," + jwide(vy) + "]"; ++npts;
      }
      jr += "]";
    }
    jr += "]";
  }
  jr += "]";
  auto jw64 = [](const std::vector<Paths64>& gs) {
    return jarr(gs.begin(), gs.end(), [](const Paths64& ps) { return jarr(ps.begin(), ps.end(), [](const Path64& pa) {
      return jarr(pa.begin(), pa.end(), [](const Point64& q) { return "[" + jwide(q.x) + "," + jwide(q.y) + "]"; }); }); });
  };
  long long ties = 0, ncoord = 0, nfrac = 0;
  std::string jin = jarr(c.in.begin(), c.in.end(), [&](const PathsY& ps) { return jarr(ps.begin(), ps.end(), [&](const PathY& pa) {
    return jarr(pa.begin(), pa.end(), [&](const PtY& q) { ncoord += 2; ties += is_tie(q.x.n, q.x.e, fam, p) + is_tie(q.y.n, q.y.e, fam, p); nfrac += is_frac(q.x.n, q.x.e, fam, p) + is_frac(q.y.n, q.y.e, fam, p);
      return "[" + jwide(q.x.n) + "," + jnum(q.x.e) + "," + jwide(q.y.n) + "," + jnum(q.y.e) + "]"; }); }); });
  i128 n1, n2, n3; int e1, e2, e3; decomp(fdelta, n1, e1); decomp(fat, n2, e2); decomp(fml, n3, e3);
  Ev ev("Call");
  ev.kn("id", id).ks("op", op).kn("p", p).kv("in", jin).kv("fed", jw64(fed));
  ev.kv("ip", "{\"ct\":" + jnum(c.ct) + ",\"fr\":" + jnum(c.fr) + ",\"pc\":" + jnum(c.pc) + ",\"rs\":" + jnum(c.rs) + ",\"jt\":" + jnum(c.jt) + ",\"et\":" + jnum(c.et) + ",\"flag\":" + jnum(c.flag) + "}");
  ev.kv("dp", "{\"delta\":" + jdy(c.delta) + ",\"at\":" + jdy(c.at) + ",\"ml\":" + jdy(c.ml) + "}");
  ev.kv("fp", "{\"delta\":" + jdyI(n1, e1) + ",\"at\":" + jdyI(n2, e2) + ",\"ml\":" + jdyI(n3, e3) + "}");
  ev.kn("robust", robust).kn("ok64", ok64).kn("okD", okD).kv("r64", jw64(r64)).kv("rD", jr).kv("par64", jints(par64)).kv("parD", jints(parD));
  ev.kn("ud", ud).kn("recfail", recfail).kn("ties", ties).kn("nfrac", nfrac).kn("ncoord", ncoord).kn("npts", npts);
  os << ev.str() << "\n";
}

// ---- native random generation (seeded); TLC certifies class membership of every coordinate
struct CoordGen {
  Rng& r; char fam; int p; int rb;                          // scaled magnitudes up to 2^rb
  bool avoid_ties;
  Dy coord() {
    static const int ts[] = {0, 0, 1, 1, 1, 2, 2, 3};
    for (;;) {
      int t = r.range(0, 9) < 8 ? ts[r.range(0, 7)] : (int)r.range(4, 12);       // scaled value is a multiple of 2^-t
      int extra = 0;                                           // bits n needs beyond those of the scaled value
      if (fam == 'D') { int k = sd_exp(p); if (k < 0) extra = -k; } else if (p < 0) { i128 q = pow10i(-p); while (q) { ++extra; q >>= 1; } }
      int rbe = std::min(rb, 50 - extra); if (rbe + t > 50 - extra) t = std::max(0, 50 - extra - rbe);
      Dy d; i128 n; int e;
      if (fam == 'D') { int k = sd_exp(p); i128 u = (i128)r.range(-((int64_t)1 << (rbe + t)), (int64_t)1 << (rbe + t));
        if (t + k >= 0) { n = u; e = t + k; } else { n = u * pow2i(-(t + k)); e = 0; } }
      else if (p >= 0) { i128 lim = (((i128)1 << (rbe + t)) / pow10i(p)) * pow2i(p); if (lim < 4) lim = 4;   // x = u / 2^(t+p): x * 10^p = u * 5^p / 2^t
        n = (i128)r.range(-(int64_t)lim, (int64_t)lim); e = t + p; }
      else { i128 u = (i128)r.range(-((int64_t)1 << (rbe + t)), (int64_t)1 << (rbe + t)); n = u * pow10i(-p); e = t; }
      i128 a = n < 0 ? -n : n;
      if (a >= ((i128)1 << 52)) continue;
      while (e > 0 && n % 2 == 0) { n /= 2; --e; }
      i128 m = scale_round(n, e, fam, p); if (m < 0) m = -m; if (m > ((i128)1 << 51)) continue;
      if (avoid_ties && is_tie(n, e, fam, p)) continue;
      d.n = (int64_t)n; d.e = e; return d;
    }
  }
  PtY pt() { PtY q; q.x = coord(); q.y = coord(); return q; }
  PathY path(int nv) { PathY pa; for (int i = 0; i < nv; ++i) pa.push_back(pt()); return pa; }
};

static const char* OPS[] = {"clipperd", "clipperd_tree", "boolop", "boolop_tree", "union1", "inflate", "rectclip", "rectcliplines", "minksum", "minkdiff", "trim"};
static const int NOPS = 11;

// fills the parameters and groups of a case from a point source
template <class G> static void fill_case(CaseIn& c, Rng& r, G& g, int rb) {
  const std::string& op = c.op; const char fam = fam_of(op);
  c.ct = r.range(1, 4); c.fr = r.range(0, 3); c.pc = r.range(0, 1); c.rs = r.range(0, 3) == 0; c.ml.n = 2; c.ml.e = 0;
  auto paths = [&](int lo, int hi, int vlo, int vhi) { PathsY ps; int np = (int)r.range(lo, hi); for (int i = 0; i < np; ++i) ps.push_back(g.path((int)r.range(vlo, vhi))); return ps; };
  if (op == "clipperd" || op == "clipperd_tree") { c.in = {paths(1, 3, 3, 6), r.range(0, 2) == 0 ? paths(1, 2, 2, 4) : PathsY(), paths(0, 2, 3, 6)}; }
  else if (op == "boolop" || op == "boolop_tree") { c.in = {paths(1, 3, 3, 6), paths(0, 2, 3, 6)}; }
  else if (op == "union1") { c.in = {paths(1, 4, 3, 7)}; }
  else if (op == "inflate") {
    c.in = {paths(1, 2, 1, 6)}; c.jt = r.range(0, 3); c.et = r.range(0, 4);
    static const int64_t mls[] = {2, 3, 5, 8}; c.ml.n = mls[r.range(0, 3)]; c.ml.e = r.range(0, 1);
    // delta * S = +-(1..7) * 2^(rb-5) (at least 1/4) with fb fractional bits; delta = nd / 2^ed
    int fb = (int)r.range(0, 3); const int p = c.p;
    long double target = (long double)r.range(1, 7) * std::ldexp(1.0L, rb - 5); if (target < 0.25L) target = 0.25L * r.range(1, 7);
    int sgnd = r.range(0, 2) == 0 ? -1 : 1; if (r.range(0, 24) == 0) sgnd = 0;
    if (p >= 0) { long double nd = std::floor(target * std::ldexp(1.0L, fb) / std::pow(5.0L, p)); if (nd < 1) nd = 1; c.delta.n = sgnd * (int64_t)nd; c.delta.e = fb + p; }   // delta * 10^p = nd * 5^p / 2^fb
    else { if (fb == 1) fb = 2;   /* p < 0: the scaled delta is only defined up to its last bits - keep it off the half-integers so that most cases are robust */
      long double nd = std::floor(target * std::ldexp(1.0L, fb)); if (nd < 1) nd = 1; if (nd > 4.0e7L) nd = 4.0e7L; if (fb > 0) nd = (long double)((int64_t)nd | 1); c.delta.n = sgnd * (int64_t)nd * (int64_t)pow10i(-p); c.delta.e = fb; }
    if (r.range(0, 2) != 0 && c.delta.n != 0) { int j = (int)r.range(2, 7); c.at.n = std::llabs(c.delta.n); c.at.e = c.delta.e + j; } else { c.at.n = 0; c.at.e = 0; }
    (void)fam;
  }
  else if (op == "rectclip" || op == "rectcliplines") {
    PtY a = g.pt(), b = g.pt();
    auto val = [](const Dy& d) { return std::ldexp((long double)d.n, -d.e); };
    if (val(a.x) > val(b.x)) std::swap(a.x, b.x);
    if (val(a.y) > val(b.y)) std::swap(a.y, b.y);
    c.in = {PathsY{PathY{a, b}}, op == "rectclip" ? paths(1, 3, 3, 7) : paths(1, 3, 2, 6)};
  }
  else if (op == "minksum" || op == "minkdiff") { c.in = {PathsY{g.path((int)r.range(2, 5))}, PathsY{g.path((int)r.range(2, 5))}}; c.flag = r.range(0, 1); }
  else if (op == "trim") {
    PathY pa = g.path((int)r.range(2, 7));
    // insert collinear runs: midpoints / repeats so that there is something to trim
    if (r.range(0, 1) && pa.size() >= 2) { PtY a = pa[0], b = pa[1]; if (a.x.e == b.x.e && a.y.e == b.y.e) { PtY m; m.x.e = a.x.e + 1; m.y.e = a.y.e + 1; m.x.n = a.x.n + b.x.n; m.y.n = a.y.n + b.y.n; pa.insert(pa.begin() + 1, m); } }
    if (r.range(0, 2) == 0) pa.push_back(pa[r.range(0, (int64_t)pa.size() - 1)]);
    c.in = {PathsY{pa}}; c.flag = r.range(0, 1);
  }
}

struct PoolGen {                                            // points drawn from a pool of coordinates (TLC-enumerated, GenC16.tla)
  Rng& r; std::vector<Dy> pool;
  Dy coord() { return pool[r.next() % pool.size()]; }
  PtY pt() { PtY q; q.x = coord(); q.y = coord(); return q; }
  PathY path(int nv) { PathY pa; for (int i = 0; i < nv; ++i) pa.push_back(pt()); return pa; }
};

static Dy dy_from(const JV& v) { Dy d; d.n = (int64_t)v[0].i(); d.e = (int)v[1].i(); return d; }
static PathsY pathsy_from(const JV& v) { PathsY ps; for (auto& pj : v.a) { PathY pa; for (auto& q : pj.a) { PtY t; t.x.n = q[0].i(); t.x.e = (int)q[1].i(); t.y.n = q[2].i(); t.y.e = (int)q[3].i(); pa.push_back(t); } ps.push_back(pa); } return ps; }

// vh c16 --fam rand|gen|cases --seed S --n N [--in file] [--ops a,b] [--skip k --stride s] --out file
static int cmd_c16(const Args& a) {
  Rng r((uint64_t)argi(a, "seed", 1));
  std::string famsel = args(a, "fam", "rand");
  long long n = argi(a, "n", 100);
  std::ofstream os(args(a, "out", "/dev/stdout"));
  Stats st; long long id = 0;
  std::vector<std::string> ops; { std::stringstream ss(args(a, "ops", "")); std::string t; while (std::getline(ss, t, ',')) if (!t.empty()) ops.push_back(t); }
  if (ops.empty()) for (int i = 0; i < NOPS; ++i) ops.push_back(OPS[i]);
  if (famsel == "rand") {
    static const int rbs[] = {3, 4, 5, 6, 8, 10, 12, 16, 20, 28, 36, 44, 48};
    for (long long i = 0; i < n; ++i) {
      CaseIn c; c.op = ops[r.next() % ops.size()]; c.p = (int)r.range(-8, 8); const char fam = fam_of(c.op);
      int rb = rbs[r.range(0, 12)];
      if (c.op == "inflate") rb = std::min(rb, 36);
      if (fam == 'T' && c.p < 0) rb = std::min(rb, 22);      // n = u * 10^-p must stay below 2^52
      CoordGen g{r, fam, c.p, rb, fam == 'T' && c.p < 0};
      fill_case(c, r, g, rb);
      run_case(os, ++id, c, st);
    }
  } else if (famsel == "gen") {     // pools of rounding-critical coordinates enumerated by TLC (GenC16.tla)
    std::ifstream in(args(a, "in", "")); std::string line; long long cnt = 0, skip = argi(a, "skip", 0), stride = argi(a, "stride", 1);
    while (std::getline(in, line)) {
      if (line.empty()) continue; if ((cnt++ % stride) != skip) continue;
      JV v = jparse(line); const char fam = v["fam"].s[0]; int p = (int)v["p"].i();
      PoolGen g{r, {}}; for (auto& q : v["cs"].a) g.pool.push_back(dy_from(q));
      for (long long i = 0; i < n; ++i) for (auto& op : ops) { if (fam_of(op) != fam) continue; CaseIn c; c.op = op; c.p = p; fill_case(c, r, g, 4);
        if (op == "inflate") {      // parameters in units of a quarter of the scaled lattice, from the pool's own exponent
          Dy u = g.pool[0]; for (auto& q : g.pool) if (q.n != 0 && std::llabs(q.n) < std::llabs(u.n == 0 ? INT64_MAX : u.n)) u = q;
          int64_t unit = std::llabs(u.n); int64_t j = r.range(-9, 9); if (p < 0 && (j % 4 == 2 || j % 4 == -2)) j += 1; c.delta.n = j * unit; c.delta.e = u.e; if (r.range(0, 1) && c.delta.n) { c.at.n = std::llabs(c.delta.n); c.at.e = u.e + (int)r.range(1, 3); } else { c.at.n = 0; c.at.e = 0; } }
        run_case(os, ++id, c, st); }
    }
  } else if (famsel == "cases") {   // explicit cases (replay)
    std::ifstream in(args(a, "in", "")); std::string line;
    while (std::getline(in, line)) {
      if (line.empty()) continue; JV v = jparse(line); CaseIn c; c.op = v["op"].s; c.p = (int)v["p"].i();
      for (auto& gj : v["in"].a) c.in.push_back(pathsy_from(gj));
      const JV& ip = v["ip"]; c.ct = ip["ct"].i(); c.fr = ip["fr"].i(); c.pc = ip["pc"].i(); c.rs = ip["rs"].i(); c.jt = ip["jt"].i(); c.et = ip["et"].i(); c.flag = ip["flag"].i();
      const JV& dp = v["dp"]; c.delta = dy_from(dp["delta"]); c.at = dy_from(dp["at"]); c.ml = dy_from(dp["ml"]);
      run_case(os, ++id, c, st);
    }
  }
  fprintf(stderr, "calls=%lld libcalls=%lld\n", st.calls, st.libcalls);
  return 0;
}
static Reg reg_c16("c16", cmd_c16);
