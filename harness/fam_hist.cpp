// Family "hist" (C12): replays TLC-enumerated histories of spec/Clipper2.tla into real objects.
// At every Execute the harness builds a FRESH object from the abstract state TLC attached to that
// step (the sequence of add calls since the last Clear + options) and records whether the two results
// are bit-identical.  The verdict is taken by HistTrace.tla, which re-runs the abstract machine over
// the logged calls and checks that the fresh object was fed exactly the specification's state.
#include "boolcommon.hpp"
#include "clipper2/clipper.offset.h"
#include "clipper2/clipper.rectclip.h"
#include <memory>
#include <type_traits>

namespace {
struct TreeFlat { Paths64 nodes; std::vector<long long> par; bool operator==(const TreeFlat& o) const { return nodes == o.nodes && par == o.par; } };
struct Res { bool ok = false; Paths64 closed, open; TreeFlat tree; bool operator==(const Res& o) const { return ok == o.ok && closed == o.closed && open == o.open && tree == o.tree; } };

Path64 rpoly(Rng& r, int R, int nv, int ox = 0) { Path64 p; for (int i = 0; i < nv; ++i) p.emplace_back(ox + r.range(0, R), r.range(0, R)); return p; }

// ------------------------------------------------------------------ Clipper64 / ClipperD
struct C64World {
  Paths64 set[6];            // 1,2 subject; 3 open; 4 clip; 5 = reusable (subject part), 0 = reusable clip part
  std::vector<std::pair<int, int>> ctfr;
  ReuseableDataContainer64 reuse;
  bool asD; int prec = 2;
  C64World(Rng& r, int K, bool rectil, bool d, bool many = false) : asD(d) {
    // "many": dozens of thin triangles standing in pairs on shared bottom vertices: more than 16 local minima, several at the same point
    auto fan = [&](int pairs, int64_t x0, int64_t ybot) { Paths64 ps; for (int i = 0; i < pairs; ++i) { int64_t bx = x0 + 14 * i; int64_t h = 20 + 3 * (int64_t)r.range(0, 6);
        ps.push_back(Path64{{bx, ybot}, {bx - 6, ybot - h}, {bx - 2, ybot - h}}); ps.push_back(Path64{{bx, ybot}, {bx + 2, ybot - h - 1}, {bx + 6, ybot - h - 1}}); } return ps; };
    auto mk = [&](int n) { if (many) return fan(6 + n * 4, (int64_t)r.range(0, 9), 60 + (int64_t)r.range(0, 2) * 7); Paths64 ps; for (int i = 0; i < n; ++i) ps.push_back(rectil ? rect_walk(r, 12, (int)r.range(2, 4), false) : rpoly(r, 40, (int)r.range(3, 6))); if (rectil) for (auto& p : ps) for (auto& q : p) { q.x *= 3; q.y *= 3; } return ps; };
    set[1] = mk((int)r.range(1, 2)); set[2] = mk(1); set[4] = mk((int)r.range(1, 2)); set[5] = mk(1); set[0] = mk(1);
    for (int i = 0; i < 2; ++i) set[3].push_back(rpoly(r, 40, (int)r.range(2, 4)));
    for (int i = 0; i < K; ++i) ctfr.push_back({(int)r.range(1, 4), (int)r.range(0, 3)});
    reuse.AddPaths(set[5], PathType::Subject, false); reuse.AddPaths(set[0], PathType::Clip, false);
  }
  PathsD toD(const Paths64& ps) const { PathsD r; for (auto& p : ps) { PathD q; for (auto& v : p) q.emplace_back(v.x * 0.25, v.y * 0.25); r.push_back(q); } return r; }
  template <class C> void add(C& c, int op, int arg) {
    if constexpr (std::is_same<C, Clipper64>::value) {
      if (op == 1) c.AddSubject(set[arg]); else if (op == 2) c.AddOpenSubject(set[arg]); else if (op == 3) c.AddClip(set[arg]); else if (op == 4) c.AddReuseableData(reuse);
    } else {
      if (op == 1) c.AddSubject(toD(set[arg])); else if (op == 2) c.AddOpenSubject(toD(set[arg])); else if (op == 3) c.AddClip(toD(set[arg]));
      else if (op == 4) { c.AddSubject(toD(set[5])); c.AddClip(toD(set[0])); }   // ClipperD has no reusable data: same paths added directly
    }
  }
  static Paths64 bits(const PathsD& ps) { Paths64 r; for (auto& p : ps) { Path64 q; for (auto& v : p) { int64_t a, b; memcpy(&a, &v.x, 8); memcpy(&b, &v.y, 8); q.emplace_back(a, b); } r.push_back(q); } return r; }
  PolyTree64 shared_tree;   // deliberately reused by every tree execution of every object: Execute must clear it
  Res exec(Clipper64& c, int op, int arg) { Res r; auto cf = ctfr[arg - 1];
    if (op == 7) r.ok = c.Execute((ClipType)cf.first, (FillRule)cf.second, r.closed, r.open);
    else { PolyTree64& t = shared_tree; r.ok = c.Execute((ClipType)cf.first, (FillRule)cf.second, t, r.open); flatten_tree(t, 0, r.tree.nodes, r.tree.par); }
    return r; }
  static void flatD(const PolyPathD& pp, int parent, PathsD& nodes, std::vector<long long>& par) { for (auto it = pp.begin(); it != pp.end(); ++it) { nodes.push_back((*it)->Polygon()); par.push_back(parent); int me = (int)nodes.size(); flatD(**it, me, nodes, par); } }
  Res exec(ClipperD& c, int op, int arg) { Res r; auto cf = ctfr[arg - 1]; PathsD cl, opn;
    if (op == 7) r.ok = c.Execute((ClipType)cf.first, (FillRule)cf.second, cl, opn);
    else { PolyTreeD t; r.ok = c.Execute((ClipType)cf.first, (FillRule)cf.second, t, opn); PathsD n; flatD(t, 0, n, r.tree.par); r.tree.nodes = bits(n); }
    r.closed = bits(cl); r.open = bits(opn); return r; }
};

template <class C> C* mk(const C64World& w);
template <> Clipper64* mk<Clipper64>(const C64World&) { return new Clipper64(); }
template <> ClipperD* mk<ClipperD>(const C64World& w) { return new ClipperD(w.prec); }

template <class C> void run_c64(C64World& w, const JV& hist, std::ostream& os, const char* kind, Rng& r, long long& nexec) {
  std::unique_ptr<C> obj(mk<C>(w));
  Clipper64 other;                                       // a second clipper sharing the reusable container
  other.AddReuseableData(w.reuse);
  std::vector<std::string> steps, obs, fresh;
  for (size_t i = 0; i < hist.size(); ++i) {
    const JV& st = hist[i]; int op = (int)st[0].i(), arg = (int)st[1].i();
    steps.push_back(jints({op, arg}));
    if (op >= 1 && op <= 4) w.add(*obj, op, arg);
    else if (op == 5) obj->PreserveCollinear(arg != 0);
    else if (op == 6) obj->ReverseSolution(arg != 0);
    else if (op == 9) obj->Clear();
    else {
      Res got = w.exec(*obj, op, arg); ++nexec;
      std::unique_ptr<C> f(mk<C>(w)); std::vector<std::string> fa;
      for (auto& ad : st[2].a) { w.add(*f, (int)ad[0].i(), (int)ad[1].i()); fa.push_back(jints({ad[0].i(), ad[1].i()})); }
      f->PreserveCollinear(st[3].i() != 0); f->ReverseSolution(st[4].i() != 0);
      Res want = w.exec(*f, op, arg); ++nexec;
      obs.push_back(jints({(long long)i + 1, got == want, got.ok, (long long)(got.closed.size() + got.open.size() + got.tree.nodes.size())}));
      fresh.push_back("[" + jarr(fa.begin(), fa.end(), [](const std::string& s) { return s; }) + "," + jnum(st[3].i()) + "," + jnum(st[4].i()) + "]");
    }
    if (r.range(0, 2) == 0) { Paths64 tmp; other.Execute(ClipType::Union, FillRule::NonZero, tmp); }   // the sharer runs in between
  }
  auto id = [](const std::string& s) { return s; };
  os << Ev("Hist").ks("kind", kind).kv("steps", jarr(steps.begin(), steps.end(), id)).kv("obs", jarr(obs.begin(), obs.end(), id)).kv("fresh", jarr(fresh.begin(), fresh.end(), id)).str() << "\n";
}

// ------------------------------------------------------------------ ClipperOffset
struct OffGroup { Paths64 paths; JoinType jt; EndType et; bool units_by_path; };
struct OffWorld {
  std::vector<OffGroup> groups; std::vector<double> deltas; const double ats[3] = {0.0, 2.0, 0.1};   // arc tolerance choices (0 = library default)
  std::map<Path64, int, bool (*)(const Path64&, const Path64&)> ring_ids{path_less};
  int ring_id(const Path64& p) { Path64 c = canon_path(p); auto it = ring_ids.find(c); if (it != ring_ids.end()) return it->second; int id = (int)ring_ids.size() + 1 + id_bias; ring_ids[c] = id; if (ring_os) (*ring_os) << Ev("Ring").kn("id", id).kv("p", jpath(c)).str() << "\n"; return id; }
  std::ostream* ring_os = nullptr; int id_bias = 0;   // rings first seen inside a forked chunk get ids that no other chunk uses   // every distinct ring is logged once, so the spec can decide class predicates on raw coordinates
  std::vector<long long> ids(const Paths64& ps) { std::vector<long long> v; for (auto& p : ps) v.push_back(ring_id(p)); std::sort(v.begin(), v.end()); return v; }
  bool mixed = false;   // mixed world: positive and negative polygon groups and open groups on one object (histories judged against a fresh object only)
  OffWorld(Rng& r, int G, int K, bool negative, bool mixed_ = false) : mixed(mixed_) {
    // groups far apart (x offsets 4000 apart; deltas <= 30): they cannot interact
    auto place = [&](Path64 p, int g, int slot) { for (auto& q : p) { q.x += 4000 * g + 600 * slot; } return p; };
    auto simple = [&](int g, int slot) { Path64 p = {{0, 0}, {r.range(80, 160), r.range(-10, 10)}, {r.range(90, 170), r.range(90, 160)}, {r.range(-10, 20), r.range(80, 150)}}; if (negative || (mixed && g % 4 == 2)) std::reverse(p.begin(), p.end()); return place(p, g, slot); };
    auto line = [&](int n, int g, int slot) { Path64 p; int64_t x = 0, y = 0; for (int i = 0; i < n; ++i) { p.emplace_back(x, y); x += r.range(40, 90); y += r.range(-60, 60); } return place(p, g, slot); };
    std::vector<JoinType> jts = {JoinType::Square, JoinType::Bevel, JoinType::Round, JoinType::Miter};
    for (int g = 1; g <= G; ++g) {
      OffGroup og; og.jt = jts[r.range(0, 3)]; og.units_by_path = true;
      static const int mixcase[4] = {7, 1, 1, 3};   // g % 4: 0 polygon with hole (positive), 1 positive polygons, 2 negative polygons, 3 open (butt)
      switch (mixed ? mixcase[g % 4] : negative ? (g % 2 ? 1 : 5) : g % 8) {
        case 1: og.et = EndType::Polygon; og.paths = {simple(g, 0), simple(g, 1)}; break;
        case 2: og.et = EndType::Joined; og.paths = {line(2, g, 0), line(4, g, 1), line(3, g, 2)}; break;      // 2-point path first (S2)
        case 3: og.et = EndType::Butt; og.paths = {line(3, g, 0), line(2, g, 1)}; break;
        case 4: og.et = EndType::Round; og.paths = {line(1, g, 0), line(4, g, 1)}; break;
        case 5: og.et = EndType::Polygon; og.paths = {Path64{}}; break;                                        // polygon group without any vertex (S5)
        case 6: og.et = EndType::Square; og.paths = {line(3, g, 0), line(1, g, 1)}; break;
        case 7: { og.et = EndType::Polygon; og.units_by_path = false; Path64 outer = {{0, 0}, {300, 0}, {300, 300}, {0, 300}}, hole = {{100, 100}, {100, 200}, {200, 200}, {200, 100}}; og.paths = {place(outer, g, 0), place(hole, g, 0)}; break; }
        default: og.et = EndType::Joined; og.paths = {line(3, g, 0), line(2, g, 1), line(5, g, 2)}; break;
      }
      groups.push_back(og);
    }
    for (int k = 0; k < K; ++k) deltas.push_back((k % 2 == 0 ? 1 : -1) * (double)r.range(5, 25));
  }
  Res exec(ClipperOffset& co, int op, int d) { Res r; r.ok = true; if (op == 2) co.Execute(deltas[d - 1], r.closed); else { PolyTree64 t; co.Execute(deltas[d - 1], t); flatten_tree(t, 0, r.tree.nodes, r.tree.par); r.closed = r.tree.nodes; } return r; }
};

void run_off(OffWorld& w, const JV& hist, std::ostream& os, long long& nexec) {
  ClipperOffset co; std::vector<std::string> steps, obs, fresh;
  for (size_t i = 0; i < hist.size(); ++i) {
    const JV& st = hist[i]; int op = (int)st[0].i(), arg = (int)st[1].i();
    steps.push_back(jints({op, arg}));
    if (op == 1) { auto& g = w.groups[arg - 1]; co.AddPaths(g.paths, g.jt, g.et); }
    else if (op == 4) co.Clear();
    else if (op == 5) co.ReverseSolution(arg != 0);
    else if (op == 6) co.ArcTolerance(w.ats[arg]);
    else {
      Res got = w.exec(co, op, arg); ++nexec;
      ClipperOffset f; std::vector<std::string> fa;
      for (auto& ad : st[2].a) { auto& g = w.groups[ad[1].i() - 1]; f.AddPaths(g.paths, g.jt, g.et); fa.push_back(jints({ad[0].i(), ad[1].i()})); }
      f.ReverseSolution(st[4].i() != 0); f.ArcTolerance(w.ats[st[3].i()]);
      Res want = w.exec(f, op, arg); ++nexec;
      obs.push_back("[" + jnum((long long)i + 1) + "," + jnum(got == want) + ",1," + jnum((long long)got.closed.size()) + "," + jints(w.ids(got.closed)) + "]");
      fresh.push_back("[" + jarr(fa.begin(), fa.end(), [](const std::string& s) { return s; }) + "," + jnum(st[3].i()) + "," + jnum(st[4].i()) + "]");
    }
  }
  auto id = [](const std::string& s) { return s; };
  os << Ev("Hist").ks("kind", w.mixed ? "offm" : "off").kv("steps", jarr(steps.begin(), steps.end(), id)).kv("obs", jarr(obs.begin(), obs.end(), id)).kv("fresh", jarr(fresh.begin(), fresh.end(), id)).str() << "\n";
}

// histories are replayed in forked chunks; a chunk whose child dies is replayed history by history so that the Crash event names the history
template <class F> void run_chunked(std::istream& in, std::ostream& os, long long skip, long long stride, long long& nh, const std::string& kind, F one) {
  std::vector<std::string> chunk; std::string line; long long cnt = 0, chunk_no = 0;
  auto flush = [&]() {
    if (chunk.empty()) return;
    ++chunk_no;
    std::ostringstream tmp;
    bool ok = guarded(tmp, "\"case\":{\"chunk\":" + jnum((long long)chunk.size()) + "}", 600, [&](std::ostream& o) { for (auto& l : chunk) one(l, o, chunk_no); });
    if (ok) os << tmp.str();
    else {   // the child died somewhere in the chunk: replay history by history so that the Crash event names the history
      long long sub = 0;
      for (auto& l : chunk) { ++sub; guarded(os, "\"kind\":" + jstr(kind) + ",\"case\":{\"steps\":" + l + "}", 120, [&](std::ostream& o) { one(l, o, chunk_no * 1000 + sub); }); }
    }
    chunk.clear();
  };
  while (std::getline(in, line)) { if (line.empty() || (cnt++ % stride) != skip) continue; ++nh; chunk.push_back(line); if (chunk.size() >= 400) flush(); }
  flush();
}

// vh hist --kind c64|cd|off|rc --in histories.ndjson --seed S --K k --G g --out file
int cmd_hist(const Args& a) {
  Rng r((uint64_t)argi(a, "seed", 1)); std::string kind = args(a, "kind", "c64");
  int K = (int)argi(a, "K", 2), G = (int)argi(a, "G", 5);
  std::ifstream in(args(a, "in", "")); std::ofstream os(args(a, "out", "/dev/stdout")); std::string line;
  long long nexec = 0, nh = 0, skip = argi(a, "skip", 0), stride = argi(a, "stride", 1), cnt = 0;
  if (kind == "c64" || kind == "cd") {
    C64World w(r, K, argi(a, "rectil", 0) != 0, kind == "cd", argi(a, "many", 0) != 0);
    os << Ev("World").ks("kind", kind).kv("s1", jpaths(w.set[1])).kv("s2", jpaths(w.set[2])).kv("s3", jpaths(w.set[3])).kv("s4", jpaths(w.set[4])).kv("s5", jpaths(w.set[5])).kv("s0", jpaths(w.set[0])).str() << "\n";
    run_chunked(in, os, skip, stride, nh, kind, [&](const std::string& l, std::ostream& o, long long) { JV h = jparse(l); if (kind == "c64") run_c64<Clipper64>(w, h, o, "c64", r, nexec); else run_c64<ClipperD>(w, h, o, "cd", r, nexec); });
  } else if (kind == "off") {
    bool neg = argi(a, "negative", 0) != 0; const bool mixed = argi(a, "mixed", 0) != 0; OffWorld w(r, G, K, neg, mixed); w.ring_os = &os;
    // preamble: every unit (path, or whole group when it has holes) offset ALONE with its group's join/end type
    if (!mixed) for (int at = 0; at < 3; ++at) for (int rs = 0; rs < 2; ++rs) for (int d = 1; d <= K; ++d) for (int g = 1; g <= G; ++g) {
      auto& og = w.groups[g - 1]; std::vector<long long> all;
      std::vector<Paths64> units; if (og.units_by_path) for (auto& p : og.paths) units.push_back({p}); else units.push_back(og.paths);
      for (auto& u : units) { ClipperOffset co; co.ReverseSolution(rs); co.ArcTolerance(w.ats[at]); co.AddPaths(u, og.jt, og.et); Paths64 sol; co.Execute(w.deltas[d - 1], sol); ++nexec; for (long long x : w.ids(sol)) all.push_back(x); }
      std::sort(all.begin(), all.end());
      os << Ev("OffUnit").kn("g", g).kn("d", d).kn("rs", rs).kn("at", at).kn("et", (int)og.et).kn("jt", (int)og.jt).kn("npaths", (long long)og.paths.size()).kv("ids", jints(all)).str() << "\n";
    }
    run_chunked(in, os, skip, stride, nh, kind, [&](const std::string& l, std::ostream& o, long long cno) { w.ring_os = &o; w.id_bias = (int)(cno % 2000) * 1000000; JV h = jparse(l); run_off(w, h, o, nexec); });
  } else if (kind == "rc") {
    Rect64 rect(20, 20, 80, 80); std::vector<Paths64> sets;
    for (int g = 0; g < G; ++g) { Paths64 ps; int n = (int)r.range(1, 3);
      if (g == 0) ps = {{{60, 130}, {130, 60}, {120, 125}}};                                  // entirely outside, but its bounding box overlaps the rectangle (passes beyond a corner)
      else if (g == 1) ps = {{{50, 0}, {100, 0}, {100, 100}, {0, 100}}, {{90, 110}, {110, 90}, {105, 108}}};   // crosses the rectangle; then an outside path again
      else for (int i = 0; i < n; ++i) ps.push_back(rpoly(r, 100, (int)r.range(3, 7)));
      sets.push_back(ps); }
    run_chunked(in, os, skip, stride, nh, kind, [&](const std::string& l, std::ostream& o, long long) { JV hist = jparse(l);
      RectClip64 rc(rect); RectClipLines64 rl(rect); std::vector<std::string> steps, obs, fresh;
      for (size_t i = 0; i < hist.size(); ++i) { int op = (int)hist[i][0].i(), arg = (int)hist[i][1].i(); steps.push_back(jints({op, arg}));
        Paths64 got = rc.Execute(sets[arg - 1]); RectClip64 f(rect); Paths64 want = f.Execute(sets[arg - 1]);
        // a fresh object per PATH as well: results must not depend on the other paths of the same call
        Paths64 perpath; for (auto& p : sets[arg - 1]) { RectClip64 f1(rect); Paths64 r1 = f1.Execute(Paths64{p}); perpath.insert(perpath.end(), r1.begin(), r1.end()); }
        Paths64 gl = rl.Execute(sets[arg - 1]); RectClipLines64 fl(rect); Paths64 wl = fl.Execute(sets[arg - 1]); nexec += 4;
        obs.push_back(jints({(long long)i + 1, got == want && gl == wl && got == perpath, 1, (long long)got.size()})); fresh.push_back("[[],0,0]"); }
      auto id = [](const std::string& s) { return s; };
      o << Ev("Hist").ks("kind", "rc").kv("steps", jarr(steps.begin(), steps.end(), id)).kv("obs", jarr(obs.begin(), obs.end(), id)).kv("fresh", jarr(fresh.begin(), fresh.end(), id)).str() << "\n"; });
  }
  fprintf(stderr, "histories=%lld execs=%lld\n", nh, nexec);
  return 0;
}
Reg reg_hist("hist", cmd_hist);
}  // namespace
