// Family "off" (C06 polygons, C07 open paths): offsetting calls with the measured cover of the result at
// sample points given in quarter units.  OffsetTrace.tla classifies every sample point and judges.
#include "boolcommon.hpp"
#include "clipper2/clipper.verif.h"
#include <cmath>
namespace {
// hook H5: what ClipperOffset appends per vertex, written to a side file (--jout) for OffsetJoinTrace.tla
std::string g_jout; std::ostringstream* g_js = nullptr; int g_jn = 0;
void join_cb(const long long* v, const long long* pts, int npts) {
  if (!g_js || ++g_jn > 80) return;
  std::vector<Point64> P; for (int i = 0; i < npts; ++i) P.emplace_back((int64_t)pts[2 * i], (int64_t)pts[2 * i + 1]);
  (*g_js) << Ev("Join").kv("pk", jints({v[0], v[1]})).kv("pj", jints({v[2], v[3]})).kv("nk", jints({v[4], v[5]})).kv("nj", jints({v[6], v[7]}))
              .kn("d", v[8]).kn("jt", v[9]).kn("et", v[10]).kn("ml", v[11]).kn("at", v[12]).kn("spr", v[13]).kn("cap", v[14]).kv("pts", jpath(P)).str() << "\n";
}
const double PI_ = 3.14159265358979323846;
Path64 star(Rng& r, int cx, int cy, int nv, int rmin, int rmax) {
  std::vector<double> ang; for (int i = 0; i < nv; ++i) ang.push_back((i + 0.15 + 0.7 * (r.range(0, 1000) / 1000.0)) * 2 * PI_ / nv);
  Path64 p; for (double a : ang) { double rad = (double)r.range(rmin, rmax); p.emplace_back((int64_t)std::llround(cx + rad * std::cos(a)), (int64_t)std::llround(cy + rad * std::sin(a))); }
  return p;
}
bool turn_ok(const Point64& a, const Point64& b, const Point64& c) {
  if (a == b || b == c) return false;
  int64_t dt = (b.x - a.x) * (c.x - b.x) + (b.y - a.y) * (c.y - b.y), cr = (b.x - a.x) * (c.y - b.y) - (b.y - a.y) * (c.x - b.x);
  return dt >= 0 || std::llabs(cr) * 1000 >= 177 * std::llabs(dt);
}
bool turn_ok_path(const Path64& p, bool closed) { size_t n = p.size(); if (closed) { if (n < 3) return false; for (size_t i = 0; i < n; ++i) if (!turn_ok(p[(i + n - 1) % n], p[i], p[(i + 1) % n])) return false; return true; }
  for (size_t i = 0; i + 1 < n; ++i) if (p[i] == p[i + 1]) return false; for (size_t i = 1; i + 1 < n; ++i) if (!turn_ok(p[i - 1], p[i], p[i + 1])) return false; return true; }

struct Params { int jt, et; double delta, ml, at; int rs; };
Paths64 do_offset(const Paths64& in, const Params& p) {
  ClipperOffset co(p.ml, p.at, false, p.rs != 0); co.AddPaths(in, (JoinType)p.jt, (EndType)p.et); Paths64 sol; co.Execute(p.delta, sol); return sol;
}
void emit(std::ostream& os, const Paths64& in, const Params& p, long long pseed, int npts, long long& ncalls, int sc = 4) {
  Rng pr((uint64_t)pseed);
  std::string what = "\"case\":{\"paths\":" + jpaths(in) + ",\"jt\":" + jnum(p.jt) + ",\"et\":" + jnum(p.et) + ",\"d4\":" + jnum(std::llround(p.delta * sc)) + ",\"ml100\":" + jnum(std::llround(p.ml * 100)) + ",\"at4\":" + jnum(std::llround(p.at * sc)) + ",\"sc\":" + jnum(sc) + ",\"rs\":" + jnum(p.rs) + ",\"pseed\":" + jnum(pseed) + "}";
  ++ncalls;
  guarded(os, what, 60, [&](std::ostream& os) {
    std::ostringstream js; if (!g_jout.empty() && sc == 4) { g_js = &js; g_jn = 0; Clipper2Lib::verif::offset_fn = join_cb; js << "{\"e\":\"JCase\"," << what << "}\n"; }
    Paths64 sol = do_offset(in, p);
    if (g_js) { Clipper2Lib::verif::offset_fn = nullptr; g_js = nullptr; std::ofstream jf(g_jout, std::ios::app); jf << js.str(); }
    int eqneg = -1;
    if (p.et != 0) { Params q = p; q.delta = -p.delta; eqneg = do_offset(in, q) == sol ? 1 : 0; }
    int64_t lx = 1 << 30, ly = 1 << 30, hx = -(1 << 30), hy = -(1 << 30);
    for (auto& path : in) for (auto& v : path) { lx = std::min(lx, v.x); hx = std::max(hx, v.x); ly = std::min(ly, v.y); hy = std::max(hy, v.y); }
    int64_t mg = (int64_t)std::ceil(std::fabs(p.delta) * std::max(1.5, p.ml)) + 6;
    std::vector<Point64> pts; std::set<std::pair<int64_t, int64_t>> seen;
    // half of the points near the input boundary (within the reach of the offset), the rest uniform; quarter-unit coordinates
    int guard = 0;
    while ((int)pts.size() < npts && guard++ < 100000) {
      Point64 c;
      if (pts.size() % 2 == 0 && !in.empty()) { const Path64& path = in[pr.range(0, (int64_t)in.size() - 1)]; if (path.empty()) continue; const Point64& a = path[pr.range(0, (int64_t)path.size() - 1)]; const Point64& b = path[pr.range(0, (int64_t)path.size() - 1)];
        int64_t t = pr.range(0, 8); c = Point64((int64_t)((a.x * (8 - t) + b.x * t) * sc / 8 + pr.range(-mg * sc, mg * sc)), (int64_t)((a.y * (8 - t) + b.y * t) * sc / 8 + pr.range(-mg * sc, mg * sc))); }
      else c = Point64((int64_t)pr.range((lx - mg) * sc, (hx + mg) * sc), (int64_t)pr.range((ly - mg) * sc, (hy + mg) * sc));
      if (seen.insert({c.x, c.y}).second) pts.push_back(c);
    }
    i128 a2 = 0; for (auto& s : sol) a2 += area2_of(s);
    Ev e("Off"); e.kv("paths", jpaths(in)).kn("jt", p.jt).kn("et", p.et).kn("d4", std::llround(p.delta * sc)).kn("ml100", std::llround(p.ml * 100)).kn("at4", std::llround(p.at * sc)).kn("sc", sc).kn("rs", p.rs).kn("pseed", pseed)
      .kv("pts", jpath(pts)).kv("cover", jints(cover_at(sol, pts, sc, emb_table()[0]))).kn("n", (long long)sol.size()).kn("eqneg", eqneg).kn("area2s", a2 > 0 ? 1 : a2 < 0 ? -1 : 0);
    os << e.str() << "\n";
  });
}

// vh off --kind poly|open --seed S --n N --npts 200 [--in file] --out file
int cmd_off(const Args& a) {
  Rng r((uint64_t)argi(a, "seed", 1)); std::string kind = args(a, "kind", "poly"); long long n = argi(a, "n", 10); int npts = (int)argi(a, "npts", 200);
  std::ofstream os(args(a, "out", "/dev/stdout")); long long ncalls = 0; std::string inf = args(a, "in", "");
  g_jout = args(a, "jout", ""); if (!g_jout.empty()) std::ofstream(g_jout, std::ios::trunc);
  static const double deltas[] = {0.25, 1, 3, 7, 15, 25}; static const double mls[] = {1, 2, 2, 5}; static const double ats[] = {0, 0, 0.25, 2};
  if (!inf.empty()) {   // replay: one line = the "case" object of a Crash / failing event
    std::ifstream in(inf); std::string line;
    while (std::getline(in, line)) { JV v = jparse(line); int sc = v.has("sc") ? (int)v["sc"].i() : 4; Params p{(int)v["jt"].i(), (int)v["et"].i(), v["d4"].i() / (double)sc, v["ml100"].i() / 100.0, v["at4"].i() / (double)sc, (int)v["rs"].i()}; Paths64 in2 = paths_from(v["paths"]); emit(os, in2, p, v["pseed"].i(), npts, ncalls, sc); }
    return 0;
  }
  for (long long b = 0; b < n; ++b) {
    Paths64 in;
    if (kind == "poly" && b % 4 == 3) {
      // finely tessellated curves (turn per vertex 1.5 - 4 degrees): a disc, or a plate with a round hole; deltas around and beyond the radius
      int rr = (int)r.range(1800, 2500), N = (int)r.pick(std::vector<int>{180, 240, 300}); bool plate = r.coin(); const int64_t cc = 12000;
      Path64 disc; for (int i = 0; i < N; ++i) { double a2 = 2 * PI_ * i / N; disc.emplace_back((int64_t)std::llround(cc + rr * std::cos(a2)), (int64_t)std::llround(cc + rr * std::sin(a2))); }
      if (plate) { in.push_back(Path64{{cc - 2 * rr, cc - 2 * rr}, {cc + 2 * rr, cc - 2 * rr}, {cc + 2 * rr, cc + 2 * rr}, {cc - 2 * rr, cc + 2 * rr}}); std::reverse(disc.begin(), disc.end()); }
      in.push_back(disc);
      if (r.coin()) for (auto& p : in) std::reverse(p.begin(), p.end());
      for (int j = 0; j < 4; ++j) {
        double mag = (j % 2 == 0 ? 1.5 : 0.4) * rr; double sgn = (j < 2) == plate ? 1.0 : -1.0;       // j<2: the direction in which the round feature collapses
        static const double mls2[] = {1, 2, 2, 1.5};
        Params p{(int)r.range(0, 3), 0, sgn * std::floor(mag), mls2[r.range(0, 3)], ats[r.range(0, 3)], 0};
        emit(os, in, p, (long long)((argi(a, "seed", 1) % 100000) * 10000 + (b % 100) * 100 + 50 + j), npts, ncalls, 1);
      }
    } else if (kind == "poly") {
      Path64 outer = star(r, 40, 40, (int)r.range(4, 9), 14, 36); if (!turn_ok_path(outer, true)) { continue; }
      in.push_back(outer);
      int holes = (int)r.range(0, 2) == 0 ? 1 : 0;
      if (holes) { Path64 h = star(r, 40, 40, (int)r.range(3, 6), 3, 6); std::reverse(h.begin(), h.end()); if (turn_ok_path(h, true)) in.push_back(h); }
      if (r.coin()) for (auto& p : in) std::reverse(p.begin(), p.end());
      for (int j = 0; j < (int)argi(a, "nparam", 12); ++j) {
        Params p{(int)r.range(0, 3), 0, deltas[r.range(0, 5)] * (r.coin() ? 1 : -1), mls[r.range(0, 3)], ats[r.range(0, 3)], (int)(r.range(0, 3) == 0)};
        if (j == 0) p.delta = -45;                                  // shrink beyond the inradius
        emit(os, in, p, (long long)((argi(a, "seed", 1) % 100000) * 10000 + (b % 100) * 100 + j), npts, ncalls);
      }
    } else {
      int np = (int)r.range(1, 3);
      for (int k = 0; k < np; ++k) { Path64 p; int nv = (int)r.range(1, 5); int tries = 0;
        bool ringlike = nv >= 4 && r.range(0, 3) == 0;    // a ring given as an OPEN path: last vertex = first vertex
        do { p.clear(); for (int i = 0; i < nv; ++i) p.emplace_back((int64_t)(300 * k + r.range(0, 64)), (int64_t)r.range(0, 64)); if (ringlike) p.back() = p.front(); } while (!turn_ok_path(p, false) && ++tries < 200);
        if (tries < 200) in.push_back(p); }
      if (in.empty()) continue;
      for (int j = 0; j < (int)argi(a, "nparam", 12); ++j) {
        Params p{(int)r.range(0, 3), (int)r.range(1, 4), deltas[r.range(1, 5)] * (r.coin() ? 1 : -1), mls[r.range(0, 3)], ats[r.range(0, 3)], 0};
        if (p.et == 1) { bool ok = true; for (auto& q : in) if (q.size() >= 3 && !turn_ok_path(q, true)) ok = false; if (!ok) p.et = 4; }
        emit(os, in, p, (long long)((argi(a, "seed", 1) % 100000) * 10000 + (b % 100) * 100 + j), npts, ncalls);
      }
    }
  }
  fprintf(stderr, "calls=%lld\n", ncalls);
  return 0;
}
Reg reg_off("off", cmd_off);
}
