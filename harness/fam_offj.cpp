// Family "offj": records what ClipperOffset appends per vertex (hook H5) for small polygons and open paths;
// OffsetJoinTrace.tla derives the expected construct from the geometry.
#include "common.hpp"
#include "clipper2/clipper.offset.h"
#include "clipper2/clipper.verif.h"
namespace {
thread_local std::ostream* g_os = nullptr;
void off_cb(const long long* v, const long long* pts, int npts) {
  std::vector<Point64> P; for (int i = 0; i < npts; ++i) P.emplace_back((int64_t)pts[2 * i], (int64_t)pts[2 * i + 1]);
  (*g_os) << Ev("Join").kv("pk", jints({v[0], v[1]})).kv("pj", jints({v[2], v[3]})).kv("nk", jints({v[4], v[5]})).kv("nj", jints({v[6], v[7]}))
              .kn("d", v[8]).kn("jt", v[9]).kn("et", v[10]).kn("ml", v[11]).kn("at", v[12]).kn("spr", v[13]).kn("cap", v[14]).kv("pts", jpath(P)).str() << "\n";
}
int cmd_offj(const Args& a) {
  Rng r((uint64_t)argi(a, "seed", 1)); long long n = argi(a, "n", 100);
  std::ofstream os(args(a, "out", "/dev/stdout")); g_os = &os; Clipper2Lib::verif::offset_fn = off_cb;
  static const double deltas[] = {1, 2.5, 4, 7, 12, 20}; static const double mls[] = {1, 2, 2, 5};
  for (long long b = 0; b < n; ++b) {
    Path64 p; int nv = (int)r.range(3, 8); for (int i = 0; i < nv; ++i) p.emplace_back((int64_t)r.range(0, 100), (int64_t)r.range(0, 100));
    int jt = (int)r.range(0, 3), et = (int)r.range(0, 4); double d = deltas[r.range(0, 5)] * (r.coin() ? 1 : -1);
    double ml = mls[r.range(0, 3)]; static const double ats[] = {0, 0, 0.25, 1, 2}; double at = ats[r.range(0, 4)];
    os << "{\"e\":\"JCase\",\"case\":{\"paths\":" << jpaths(Paths64{p}) << ",\"jt\":" << jt << ",\"et\":" << et << ",\"d4\":" << std::llround(d * 4) << ",\"ml100\":" << std::llround(ml * 100) << ",\"at4\":" << std::llround(at * 4) << ",\"sc\":4,\"rs\":0,\"pseed\":" << b << "}}\n";
    ClipperOffset co(ml, at); co.AddPath(p, (JoinType)jt, (EndType)et); Paths64 sol; co.Execute(d, sol);
  }
  Clipper2Lib::verif::offset_fn = nullptr; return 0;
}
Reg reg_offj("offj", cmd_offj);
}
