// Family "c17": the C export layer (clipper.export.h) - for C17Trace.tla.
// The harness only drives the library and RECORDS:
//   * every exported array verbatim (the A = arr[0] stated elements, each as the raw 64 bits split in 3 words),
//     its null-ness, and under ASan the real allocation size (so "allocation = A elements" is checkable);
//   * the result of the corresponding native C++ call as nested vertex lists of raw cells;
//   * which native call (argument tuple) produced which result.
// What an exported array SHOULD contain (the layout grammar, the forwarding rule, which native run is the
// reference of which exported call) is decided by TLC (ExportLayout.tla, C17Forward.tla, C17Trace.tla).
// Arrays are read with exactly their stated length and freed with DisposeArray64/D, so under the asan variants
// any access outside the stated lengths traps; a trap inside a monitored call is recorded as a Crash event.
#include "common.hpp"
#include "clipper2/clipper.export.h"
#include <csignal>
#include <unistd.h>

#if defined(__SANITIZE_ADDRESS__)
#define C17_ASAN 1
#elif defined(__has_feature)
#if __has_feature(address_sanitizer)
#define C17_ASAN 1
#endif
#endif
#ifdef C17_ASAN
#include <sanitizer/allocator_interface.h>
#include <sanitizer/common_interface_defs.h>
#else
#define C17_ASAN 0
#endif
#ifdef USINGZ
static const int ZB = 1;
#else
static const int ZB = 0;
#endif
static const int DIM = 2 + ZB;
static const long long CAP = 200000;      // longest array the harness is prepared to dump

namespace {

FILE* g_f = nullptr;
char g_stage[512] = "";
void emit(const std::string& s) { fputs(s.c_str(), g_f); fputc('\n', g_f); }
void on_death() {
  if (g_f && g_stage[0]) { fputs(g_stage, g_f); fputc('\n', g_f); fflush(g_f); }
  _exit(99);
}
void on_signal(int) { on_death(); }
void install_crash_recorder() {
#if C17_ASAN
  __sanitizer_set_death_callback(on_death);
#endif
  signal(SIGSEGV, on_signal); signal(SIGABRT, on_signal); signal(SIGFPE, on_signal); signal(SIGBUS, on_signal);
}
void stage(const char* ph, const std::string& fn, long long gid, const std::vector<long long>& args) {
  std::string a = jints(args);
  snprintf(g_stage, sizeof g_stage, "{\"e\":\"Crash\",\"ph\":\"%s\",\"fn\":\"%s\",\"g\":%lld,\"args\":%s}", ph, fn.c_str(), gid, a.c_str());
}
// outside a monitored call the recorder still names the group, so that the driver can resume behind it
void stage_idle(long long gid) { stage("harness", "-", gid, std::vector<long long>()); }

// ---------------------------------------------------------------- cells
std::string cellbits(uint64_t u) {
  char b[80]; snprintf(b, sizeof b, "[%llu,%llu,%llu]", (unsigned long long)(u >> 42), (unsigned long long)((u >> 21) & 0x1FFFFF), (unsigned long long)(u & 0x1FFFFF));
  return b;
}
template <class T> std::string cell(T v) { static_assert(sizeof(T) == 8, "64-bit cells"); uint64_t u; memcpy(&u, &v, 8); return cellbits(u); }
template <class T> std::string jcvert(const Point<T>& p) {
  std::string r = "[" + cell<T>(p.x) + "," + cell<T>(p.y);
#ifdef USINGZ
  r += "," + cell<int64_t>((int64_t)p.z);
#endif
  return r + "]";
}
template <class T> std::string jcpath(const Path<T>& p) { return jarr(p.begin(), p.end(), jcvert<T>); }
template <class T> std::string jcpaths(const Paths<T>& ps) { return jarr(ps.begin(), ps.end(), jcpath<T>); }
template <class T, class PP> std::string jcnode(const PP* pp) {
  std::string r = "{\"poly\":" + jcpath<T>(pp->Polygon()) + ",\"kids\":[";
  for (size_t i = 0; i < pp->Count(); ++i) { if (i) r += ','; r += jcnode<T, PP>(pp->Child(i)); }
  return r + "]}";
}
template <class T, class PP> std::string jctree(const PP& root) {
  std::string r = "[";
  for (size_t i = 0; i < root.Count(); ++i) { if (i) r += ','; r += jcnode<T, PP>(root.Child(i)); }
  return r + "]";
}

// an exported array, verbatim: reads arr[0] (the stated length A) and then exactly A elements
template <class T> std::string xarr(const T* a) {
  if (!a) return "{\"nul\":1,\"bad\":0,\"alloc\":-1,\"cells\":[]}";
  long long alloc = -1;
#if C17_ASAN
  alloc = (long long)__sanitizer_get_allocated_size(a);
  alloc = (alloc % 8 == 0) ? alloc / 8 : -2;
#endif
  T first = a[0];
  long long A = 0; int bad = 0;
  if (!(first >= (T)2 && first <= (T)CAP)) bad = 1; else { A = (long long)first; if ((T)A != first) bad = 1; }
  if (!bad && alloc >= 0 && A > alloc) bad = 2;       // stated length exceeds the allocation: do not read beyond it
  std::string r = "{\"nul\":0,\"bad\":" + jnum(bad) + ",\"alloc\":" + jnum(alloc) + ",\"cells\":[";
  if (bad) r += cell<T>(first);
  else for (long long i = 0; i < A; ++i) { if (i) r += ','; r += cell<T>(a[i]); }
  return r + "]}";
}
template <class T> std::string xraw(const T* a, long long n) {   // an input array whose length the harness knows (CPath has no length field)
  std::string r = "{\"nul\":0,\"bad\":0,\"alloc\":-1,\"cells\":[";
  for (long long i = 0; i < n; ++i) { if (i) r += ','; r += cell<T>(a[i]); }
  return r + "]}";
}
void dispose(int64_t*& p) { if (p) DisposeArray64(p); p = nullptr; }
void dispose(double*& p) { if (p) DisposeArrayD(p); p = nullptr; }

// ---------------------------------------------------------------- inputs (quarter units: int64 uses q, double uses q/4)
template <class T> T coord(long long q);
template <> int64_t coord<int64_t>(long long q) { return (int64_t)q; }
template <> double coord<double>(long long q) { return (double)q / 4.0; }
template <class T> Point<T> mkpt(const JV& v) {
#ifdef USINGZ
  return Point<T>(coord<T>(v[0].i()), coord<T>(v[1].i()), (z_type)(v.size() > 2 ? v[2].i() : 0));
#else
  return Point<T>(coord<T>(v[0].i()), coord<T>(v[1].i()));
#endif
}
template <class T> Path<T> mkpath(const JV& v) { Path<T> p; for (auto& q : v.a) p.push_back(mkpt<T>(q)); return p; }
template <class T> Paths<T> mkpaths(const JV& v) { Paths<T> ps; for (auto& q : v.a) ps.push_back(mkpath<T>(q)); return ps; }
// a single CPath (N, 0, vertices) - the library has no constructor for it; TLC certifies the logged cells
template <class T> T* mkcpath(const Path<T>& p, long long& len) {
  len = 2 + (long long)p.size() * DIM;
  T* a = new T[len]; T* v = a;
  *v++ = (T)p.size(); *v++ = 0;
  for (auto& pt : p) { *v++ = pt.x; *v++ = pt.y;
#ifdef USINGZ
    { int64_t z = (int64_t)pt.z; T t; memcpy(&t, &z, 8); *v++ = t; }
#endif
  }
  return a;
}

// ---------------------------------------------------------------- table
struct Param { std::string n; std::vector<long long> d; };
struct FnRec { std::string fn, kind, cls; int tree; std::vector<Param> x, n; std::vector<std::vector<long long>> rects; };
std::vector<Param> params_from(const JV& v) { std::vector<Param> r; for (auto& p : v.a) { Param q; q.n = p["n"].s; for (auto& d : p["d"].a) q.d.push_back(d.i()); r.push_back(q); } return r; }
typedef std::map<std::string, long long> AMap;
long long prod(const std::vector<Param>& ps) { long long n = 1; for (auto& p : ps) n *= (long long)p.d.size(); return n; }
std::vector<long long> tuple_at(const std::vector<Param>& ps, long long k) {   // row-major, last parameter fastest
  std::vector<long long> t(ps.size());
  for (size_t i = ps.size(); i-- > 0;) { t[i] = ps[i].d[k % (long long)ps[i].d.size()]; k /= (long long)ps[i].d.size(); }
  return t;
}
AMap amap(const std::vector<Param>& ps, const std::vector<long long>& t) { AMap m; for (size_t i = 0; i < ps.size(); ++i) m[ps[i].n] = t[i]; return m; }
long long A(const AMap& m, const char* k) { auto it = m.find(k); return it == m.end() ? 0 : it->second; }

// ---------------------------------------------------------------- results
struct Dedup { std::map<std::string, int> ix; std::vector<std::string> items; int get(const std::string& s, bool& fresh) { auto it = ix.find(s); if (it != ix.end()) { fresh = false; return it->second; } int k = (int)items.size() + 1; ix[s] = k; items.push_back(s); fresh = true; return k; } };
template <class T> Rect<T> mkrect(const std::vector<long long>& r) { Rect<T> q; q.left = coord<T>(r[0]); q.top = coord<T>(r[1]); q.right = coord<T>(r[2]); q.bottom = coord<T>(r[3]); return q; }
template <class T> CRect<T> mkcrect(const std::vector<long long>& r) { CRect<T> q; q.left = coord<T>(r[0]); q.top = coord<T>(r[1]); q.right = coord<T>(r[2]); q.bottom = coord<T>(r[3]); return q; }

template <class T> struct Inp { Paths<T> a, b, c; };

// ---- the corresponding native C++ calls (argument names as in C17Forward.tla)
std::string native_bool64(const Inp<int64_t>& in, const AMap& m, int tree) {
  Clipper64 c; c.PreserveCollinear(A(m, "pc") != 0); c.ReverseSolution(A(m, "rs") != 0);
  const Paths64& S = A(m, "roles") ? in.c : in.a; const Paths64& C = A(m, "roles") ? in.a : in.c;
  c.AddSubject(S); c.AddOpenSubject(in.b); c.AddClip(C);
  Paths64 open; bool ok; std::string a;
  if (tree) { PolyTree64 t; ok = c.Execute(ClipType(A(m, "ct")), FillRule(A(m, "fr")), t, open); a = jctree<int64_t, PolyPath64>(t); }
  else { Paths64 sol; ok = c.Execute(ClipType(A(m, "ct")), FillRule(A(m, "fr")), sol, open); a = jcpaths<int64_t>(sol); }
  return "\"ok\":" + jnum(ok) + ",\"t\":" + jnum(tree) + ",\"a\":" + a + ",\"b\":" + jcpaths<int64_t>(open);
}
std::string native_boolD(const Inp<double>& in, const AMap& m, int tree) {
  ClipperD c((int)A(m, "prec")); c.PreserveCollinear(A(m, "pc") != 0); c.ReverseSolution(A(m, "rs") != 0);
  const PathsD& S = A(m, "roles") ? in.c : in.a; const PathsD& C = A(m, "roles") ? in.a : in.c;
  c.AddSubject(S); c.AddOpenSubject(in.b); c.AddClip(C);
  PathsD open; bool ok; std::string a;
  if (tree) { PolyTreeD t; ok = c.Execute(ClipType(A(m, "ct")), FillRule(A(m, "fr")), t, open); a = jctree<double, PolyPathD>(t); }
  else { PathsD sol; ok = c.Execute(ClipType(A(m, "ct")), FillRule(A(m, "fr")), sol, open); a = jcpaths<double>(sol); }
  return "\"ok\":" + jnum(ok) + ",\"t\":" + jnum(tree) + ",\"a\":" + a + ",\"b\":" + jcpaths<double>(open);
}
// delta = 0: the documented C++ InflatePaths returns its input unchanged ("if (!delta) return paths;")
Paths64 native_infl64_raw(const Paths64& ps, const AMap& m, bool single) {
  if (A(m, "delta") == 0) return single ? Paths64{ps.empty() ? Path64() : ps[0]} : ps;
  ClipperOffset co(A(m, "ml") / 4.0, A(m, "at") / 4.0, A(m, "pc") != 0, A(m, "rs") != 0);
  if (single) co.AddPath(ps.empty() ? Path64() : ps[0], JoinType(A(m, "jt")), EndType(A(m, "et")));
  else co.AddPaths(ps, JoinType(A(m, "jt")), EndType(A(m, "et")));
  Paths64 sol; co.Execute(A(m, "delta") / 4.0, sol); return sol;
}
// the recipe of the documented InflatePaths(PathsD, delta, jt, et, miter_limit, precision, arc_tolerance) with the two
// ClipperOffset options added (cross-checked against the literal function below whenever pc = rs = atu = 0)
PathsD native_inflD_raw(const PathsD& ps, const AMap& m, bool single) {
  if (A(m, "delta") == 0) return single ? PathsD{ps.empty() ? PathD() : ps[0]} : ps;
  int ec = 0; const double scale = std::pow(10, (int)A(m, "prec"));
  const double at = A(m, "at") / 4.0;
  ClipperOffset co(A(m, "ml") / 4.0, A(m, "atu") ? at : at * scale, A(m, "pc") != 0, A(m, "rs") != 0);
  if (single) co.AddPath(ScalePath<int64_t, double>(ps.empty() ? PathD() : ps[0], scale, ec), JoinType(A(m, "jt")), EndType(A(m, "et")));
  else co.AddPaths(ScalePaths<int64_t, double>(ps, scale, ec), JoinType(A(m, "jt")), EndType(A(m, "et")));
  Paths64 sol; co.Execute(A(m, "delta") / 4.0 * scale, sol);
  return ScalePaths<double, int64_t>(sol, 1 / scale, ec);
}
template <class T> std::string wrap_paths(const Paths<T>& ps) { return "\"ok\":1,\"t\":0,\"a\":" + jcpaths<T>(ps) + ",\"b\":[]"; }

struct Group {
  const FnRec* F; const JV* in; long long gid;
  long long litn = 0, litbad = 0;
};

template <class T> std::string native_call(Group& g, const Inp<T>& in, const AMap& m);
template <> std::string native_call<int64_t>(Group& g, const Inp<int64_t>& in, const AMap& m) {
  const FnRec& F = *g.F;
  if (F.cls == "bool") return native_bool64(in, m, F.tree);
  if (F.cls == "infl" || F.cls == "infl1") {
    Paths64 r = native_infl64_raw(in.a, m, F.cls == "infl1");
    if (F.cls == "infl" && !A(m, "pc") && !A(m, "rs")) {   // the literal C++ API function
      ++g.litn; if (InflatePaths(in.a, A(m, "delta") / 4.0, JoinType(A(m, "jt")), EndType(A(m, "et")), A(m, "ml") / 4.0, A(m, "at") / 4.0) != r) ++g.litbad;
    }
    return wrap_paths<int64_t>(r);
  }
  if (F.cls == "rect") {
    Rect64 r = mkrect<int64_t>(F.rects[A(m, "rect") - 1]);
    return wrap_paths<int64_t>(A(m, "lines") ? RectClipLines(r, in.a) : RectClip(r, in.a));
  }
  // mink: a[0] = pattern, b[0] = path
  const Path64& pat = A(m, "sw") ? in.b[0] : in.a[0]; const Path64& pth = A(m, "sw") ? in.a[0] : in.b[0];
  return wrap_paths<int64_t>(A(m, "diff") ? MinkowskiDiff(pat, pth, A(m, "closed") != 0) : MinkowskiSum(pat, pth, A(m, "closed") != 0));
}
template <> std::string native_call<double>(Group& g, const Inp<double>& in, const AMap& m) {
  const FnRec& F = *g.F;
  if (F.cls == "bool") return native_boolD(in, m, F.tree);
  if (F.cls == "infl" || F.cls == "infl1") {
    PathsD r = native_inflD_raw(in.a, m, F.cls == "infl1");
    if (F.cls == "infl" && !A(m, "pc") && !A(m, "rs") && !A(m, "atu")) {
      ++g.litn; if (InflatePaths(in.a, A(m, "delta") / 4.0, JoinType(A(m, "jt")), EndType(A(m, "et")), A(m, "ml") / 4.0, (int)A(m, "prec"), A(m, "at") / 4.0) != r) ++g.litbad;
    }
    return wrap_paths<double>(r);
  }
  RectD r = mkrect<double>(F.rects[A(m, "rect") - 1]);
  return wrap_paths<double>(A(m, "lines") ? RectClipLines(r, in.a, (int)A(m, "prec")) : RectClip(r, in.a, (int)A(m, "prec")));
}

// ---- the exported calls
template <class T> struct XIn { T* a = nullptr; T* b = nullptr; T* c = nullptr; long long la = 0, lb = 0; };
std::string xres(int ret, const std::string& a, const std::string& b) { return "\"ret\":" + jnum(ret) + ",\"a\":" + a + ",\"b\":" + b; }
static const char* XNUL = "{\"nul\":1,\"bad\":0,\"alloc\":-1,\"cells\":[]}";

std::string export_call(const FnRec& F, XIn<int64_t>& x, const AMap& m) {
  const std::string& fn = F.fn;
  if (F.cls == "bool") {
    int64_t* sol = nullptr; int64_t* open = nullptr; int ret;
    if (F.tree) ret = BooleanOp_PolyTree64((uint8_t)A(m, "ct"), (uint8_t)A(m, "fr"), x.a, x.b, x.c, sol, open, A(m, "pc") != 0, A(m, "rs") != 0);
    else ret = BooleanOp64((uint8_t)A(m, "ct"), (uint8_t)A(m, "fr"), x.a, x.b, x.c, sol, open, A(m, "pc") != 0, A(m, "rs") != 0);
    std::string r = xres(ret, xarr(sol), xarr(open)); dispose(sol); dispose(open); return r;
  }
  int64_t* r = nullptr;
  if (fn == "InflatePaths64") r = InflatePaths64(x.a, A(m, "delta") / 4.0, (uint8_t)A(m, "jt"), (uint8_t)A(m, "et"), A(m, "ml") / 4.0, A(m, "at") / 4.0, A(m, "rs") != 0);
  else if (fn == "InflatePath64") r = InflatePath64(x.a, A(m, "delta") / 4.0, (uint8_t)A(m, "jt"), (uint8_t)A(m, "et"), A(m, "ml") / 4.0, A(m, "at") / 4.0, A(m, "rs") != 0);
  else if (fn == "RectClip64") r = RectClip64(mkcrect<int64_t>(F.rects[A(m, "rect") - 1]), x.a);
  else if (fn == "RectClipLines64") r = RectClipLines64(mkcrect<int64_t>(F.rects[A(m, "rect") - 1]), x.a);
  else if (fn == "MinkowskiSum64") { CPath64 pa = x.a, pb = x.b; r = MinkowskiSum64(pa, pb, A(m, "closed") != 0); }
  else if (fn == "MinkowskiDiff64") { CPath64 pa = x.a, pb = x.b; r = MinkowskiDiff64(pa, pb, A(m, "closed") != 0); }
  else { fprintf(stderr, "c17: unknown function %s\n", fn.c_str()); exit(3); }
  std::string s = xres(0, xarr(r), XNUL); dispose(r); return s;
}
std::string export_call(const FnRec& F, XIn<double>& x, const AMap& m) {
  const std::string& fn = F.fn;
  if (F.cls == "bool") {
    double* sol = nullptr; double* open = nullptr; int ret;
    if (F.tree) ret = BooleanOp_PolyTreeD((uint8_t)A(m, "ct"), (uint8_t)A(m, "fr"), x.a, x.b, x.c, sol, open, (int)A(m, "prec"), A(m, "pc") != 0, A(m, "rs") != 0);
    else ret = BooleanOpD((uint8_t)A(m, "ct"), (uint8_t)A(m, "fr"), x.a, x.b, x.c, sol, open, (int)A(m, "prec"), A(m, "pc") != 0, A(m, "rs") != 0);
    std::string r = xres(ret, xarr(sol), xarr(open)); dispose(sol); dispose(open); return r;
  }
  double* r = nullptr;
  if (fn == "InflatePathsD") r = InflatePathsD(x.a, A(m, "delta") / 4.0, (uint8_t)A(m, "jt"), (uint8_t)A(m, "et"), (int)A(m, "prec"), A(m, "ml") / 4.0, A(m, "at") / 4.0, A(m, "rs") != 0);
  else if (fn == "InflatePathD") r = InflatePathD(x.a, A(m, "delta") / 4.0, (uint8_t)A(m, "jt"), (uint8_t)A(m, "et"), (int)A(m, "prec"), A(m, "ml") / 4.0, A(m, "at") / 4.0, A(m, "rs") != 0);
  else if (fn == "RectClipD") r = RectClipD(mkcrect<double>(F.rects[A(m, "rect") - 1]), x.a, (int)A(m, "prec"));
  else if (fn == "RectClipLinesD") r = RectClipLinesD(mkcrect<double>(F.rects[A(m, "rect") - 1]), x.a, (int)A(m, "prec"));
  else { fprintf(stderr, "c17: unknown function %s\n", fn.c_str()); exit(3); }
  std::string s = xres(0, xarr(r), XNUL); dispose(r); return s;
}

template <class T> void run_group(Group& g, long long& ncalls) {
  const FnRec& F = *g.F; const JV& rec = *g.in;
  Inp<T> in; in.a = mkpaths<T>(rec["a"]); in.b = mkpaths<T>(rec["b"]); in.c = mkpaths<T>(rec["c"]);
  const bool single = F.cls == "infl1" || F.cls == "mink";
  XIn<T> x;
  stage("export", "CreateCPathsFromPathsT", g.gid, std::vector<long long>());
  if (single) { x.a = mkcpath<T>(in.a.empty() ? Path<T>() : in.a[0], x.la); if (F.cls == "mink") x.b = mkcpath<T>(in.b.empty() ? Path<T>() : in.b[0], x.lb); }
  else { x.a = CreateCPathsFromPathsT<T>(in.a); if (F.cls == "bool") { x.b = CreateCPathsFromPathsT<T>(in.b); x.c = CreateCPathsFromPathsT<T>(in.c); } }
  Ev ce("Case");
  ce.kn("g", g.gid).ks("fn", F.fn).kn("id", rec["id"].i()).kn("single", single);
  ce.kv("na", jcpaths<T>(in.a)).kv("nb", jcpaths<T>(in.b)).kv("nc", jcpaths<T>(in.c));
  ce.kv("xa", single ? xraw<T>(x.a, x.la) : xarr<T>(x.a));
  ce.kv("xb", x.b ? (single ? xraw<T>(x.b, x.lb) : xarr<T>(x.b)) : std::string(XNUL));
  ce.kv("xc", x.c ? xarr<T>(x.c) : std::string(XNUL));
  emit(ce.str()); fflush(g_f);
  stage_idle(g.gid);
  // native product
  Dedup nd; std::vector<long long> nk; const long long NN = prod(F.n);
  for (long long k = 0; k < NN; ++k) {
    std::vector<long long> t = tuple_at(F.n, k); AMap m = amap(F.n, t);
    stage("native", F.fn, g.gid, t);
    std::string r = native_call<T>(g, in, m);
    bool fresh; int ix = nd.get(r, fresh); nk.push_back(ix);
    if (fresh) emit("{\"e\":\"NOut\",\"k\":" + jnum(ix) + "," + r + "}");
  }
  // exported product
  Dedup xd; std::vector<long long> xj; const long long NX = prod(F.x);
  for (long long k = 0; k < NX; ++k) {
    std::vector<long long> t = tuple_at(F.x, k); AMap m = amap(F.x, t);
    stage("export", F.fn, g.gid, t);
    std::string r = export_call(F, x, m); ++ncalls;
    bool fresh; int ix = xd.get(r, fresh); xj.push_back(ix);
    if (fresh) emit("{\"e\":\"XOut\",\"j\":" + jnum(ix) + "," + r + "}");
  }
  stage_idle(g.gid);
  if (single) { delete[] x.a; delete[] x.b; } else { dispose(x.a); dispose(x.b); dispose(x.c); }
  emit(Ev("Runs").kn("g", g.gid).ks("fn", F.fn).kv("nk", jints(nk)).kv("xj", jints(xj)).kn("litn", g.litn).kn("litbad", g.litbad).str());
}

std::vector<JV> read_ndjson(const std::string& path) {
  std::vector<JV> r; std::ifstream f(path); std::string line;
  if (!f) { fprintf(stderr, "c17: cannot read %s\n", path.c_str()); exit(3); }
  while (std::getline(f, line)) if (!line.empty()) r.push_back(jparse(line));
  return r;
}
void header() {
  emit(Ev("Hdr").kn("z", ZB).kn("asan", C17_ASAN).str());
  // self-test of the cell model: (n, raw cell of int64 n, raw cell of double n)
  std::vector<long long> ns;
  for (long long n = -40; n <= 1100; ++n) ns.push_back(n);
  for (int e = 10; e <= 20; ++e) { ns.push_back((1LL << e) - 1); ns.push_back(1LL << e); ns.push_back((1LL << e) + 1); ns.push_back(-(1LL << e) + 3); }
  ns.push_back((1LL << 21) - 1); ns.push_back(199999); ns.push_back(123457); ns.push_back(-99999);
  std::string s = "[";
  for (size_t i = 0; i < ns.size(); ++i) { if (i) s += ','; s += "[" + jnum(ns[i]) + "," + cell<int64_t>((int64_t)ns[i]) + "," + cell<double>((double)ns[i]) + "]"; }
  emit(Ev("Cells").kv("x", s + "]").str());
}

// vh c17 --table tab.ndjson --inputs a.ndjson[,b.ndjson] --shard k --nshards n [--from g0] [--only g] --out file
int cmd_c17(const Args& a) {
  std::vector<JV> tab = read_ndjson(args(a, "table", ""));
  std::vector<JV> inputs; { std::stringstream ss(args(a, "inputs", "")); std::string t; while (std::getline(ss, t, ',')) if (!t.empty()) { auto v = read_ndjson(t); inputs.insert(inputs.end(), v.begin(), v.end()); } }
  std::vector<FnRec> fns;
  for (auto& t : tab) { FnRec F; F.fn = t["fn"].s; F.kind = t["kind"].s; F.cls = t["cls"].s; F.tree = (int)t["tree"].i(); F.x = params_from(t["x"]); F.n = params_from(t["n"]);
    for (auto& r : t["rects"].a) { std::vector<long long> q; for (auto& v : r.a) q.push_back(v.i()); F.rects.push_back(q); } fns.push_back(F); }
  long long shard = argi(a, "shard", 0), nshards = argi(a, "nshards", 1), from = argi(a, "from", 0), only = argi(a, "only", -1);
  g_f = fopen(args(a, "out", "/dev/stdout").c_str(), "w");
  if (!g_f) return 3;
  install_crash_recorder();
  header();
  long long gid = 0, ncalls = 0, ngroups = 0;
  for (auto& rec : inputs) for (auto& F : fns) {
    if (F.cls != rec["cls"].s) continue;
    long long g0 = gid++;
    if (only >= 0 ? g0 != only : (g0 % nshards != shard || g0 < from)) continue;
    Group g; g.F = &F; g.in = &rec; g.gid = g0; ++ngroups;
    if (F.kind == "64") run_group<int64_t>(g, ncalls); else run_group<double>(g, ncalls);
  }
  fclose(g_f);
  fprintf(stderr, "c17: %lld groups, %lld exported calls\n", ngroups, ncalls);
  fflush(stderr); _exit(0);   // no teardown after the trace is complete (a heap damaged by the library must not turn into a harness failure here)
}

// ---------------------------------------------------------------- layout family
static long long g_cur = 0;
template <class T> void lay_paths(const JV& rec) {
  Paths<T> ps; for (auto& p : rec["ps"].a) { Path<T> q; for (auto& v : p.a) {
#ifdef USINGZ
    q.push_back(Point<T>((T)v[0].i(), (T)v[1].i(), (z_type)v[2].i()));
#else
    q.push_back(Point<T>((T)v[0].i(), (T)v[1].i()));
#endif
  } ps.push_back(q); }
  const char* kind = sizeof(T) == 8 && std::is_integral<T>::value ? "64" : "D";
  std::vector<long long> none;
  {
    stage("export", "CreateCPathsFromPathsT", g_cur, none);
    T* arr = CreateCPathsFromPathsT<T>(ps);
    std::string sa = xarr<T>(arr);
    stage("export", "ConvertCPathsToPathsT", g_cur, none);
    Paths<T> back = ConvertCPathsToPathsT<T>(arr);
    emit(Ev("Lay").ks("kind", kind).ks("via", "T").kn("id", rec["id"].i()).kv("ps", jcpaths<T>(ps)).kv("arr", sa).kv("back", jcpaths<T>(back)).str());
    dispose(arr);
  }
}
void lay_d_extra(const JV& rec) {
  Paths64 p64; PathsD pd;
  for (auto& p : rec["ps"].a) { Path64 q; PathD d; for (auto& v : p.a) {
#ifdef USINGZ
    q.push_back(Point64((int64_t)v[0].i(), (int64_t)v[1].i(), (z_type)v[2].i())); d.push_back(PointD((double)v[0].i(), (double)v[1].i(), (z_type)v[2].i()));
#else
    q.push_back(Point64((int64_t)v[0].i(), (int64_t)v[1].i())); d.push_back(PointD((double)v[0].i(), (double)v[1].i()));
#endif
  } p64.push_back(q); pd.push_back(d); }
  std::vector<long long> none;
  {
    stage("export", "CreateCPathsDFromPathsD", g_cur, none);
    double* arr = CreateCPathsDFromPathsD(pd); std::string sa = xarr<double>(arr);
    PathsD back = ConvertCPathsToPathsT<double>(arr);
    emit(Ev("Lay").ks("kind", "D").ks("via", "DD").kn("id", rec["id"].i()).kv("ps", jcpaths<double>(pd)).kv("arr", sa).kv("back", jcpaths<double>(back)).str());
    dispose(arr);
  }
  {
    stage("export", "CreateCPathsDFromPaths64", g_cur, none);
    double* arr = CreateCPathsDFromPaths64(p64, 1.0); std::string sa = xarr<double>(arr);
    stage("export", "ConvertCPathsDToPaths64", g_cur, none);
    Paths64 back = ConvertCPathsDToPaths64(arr, 1.0);
    emit(Ev("Lay").ks("kind", "D").ks("via", "D64").kn("id", rec["id"].i()).kv("ps", jcpaths<int64_t>(p64)).kv("arr", sa).kv("back", jcpaths<int64_t>(back)).str());
    dispose(arr);
  }
}
// Convert* on arrays written by TLC (ExportLayout!EncPathsAll / EncPath): the harness copies the integers verbatim
template <class T> void cvt(const JV& rec) {
  const JV& ai = rec[ZB ? "arr3" : "arr2"];
  const char* kind = std::is_integral<T>::value ? "64" : "D";
  std::vector<long long> none;
  long long n = (long long)ai.size();
  T* arr = new T[n]; for (long long i = 0; i < n; ++i) arr[i] = (T)ai[(size_t)i].i();
  stage("export", "ConvertCPathsToPathsT", g_cur, none);
  Paths<T> back = ConvertCPathsToPathsT<T>(arr);
  emit(Ev("Cvt").ks("kind", kind).ks("via", "T").kn("id", rec["id"].i()).kv("arr", xraw<T>(arr, n)).kv("back", jcpaths<T>(back)).str());
  if constexpr (!std::is_integral<T>::value) {
    stage("export", "ConvertCPathsDToPaths64", g_cur, none);
    Paths64 b64 = ConvertCPathsDToPaths64((double*)(void*)arr, 1.0);
    emit(Ev("Cvt").ks("kind", kind).ks("via", "D64").kn("id", rec["id"].i()).kv("arr", xraw<T>(arr, n)).kv("back", jcpaths<int64_t>(b64)).str());
  }
  delete[] arr;
  const JV& singles = rec[ZB ? "one3" : "one2"];
  for (auto& s : singles.a) {
    long long m = (long long)s.size();
    T* a1 = new T[m]; for (long long i = 0; i < m; ++i) a1[i] = (T)s[(size_t)i].i();
    stage("export", "ConvertCPathToPathT", g_cur, none);
    Paths<T> one; one.push_back(ConvertCPathToPathT<T>(a1));
    emit(Ev("Cvt").ks("kind", kind).ks("via", "P").kn("id", rec["id"].i()).kv("arr", xraw<T>(a1, m)).kv("back", jcpaths<T>(one)).str());
    if constexpr (!std::is_integral<T>::value) {
      stage("export", "ConvertCPathDToPath64WithScale", g_cur, none);
      Paths64 o64; o64.push_back(ConvertCPathDToPath64WithScale((double*)(void*)a1, 1.0));
      emit(Ev("Cvt").ks("kind", kind).ks("via", "PD64").kn("id", rec["id"].i()).kv("arr", xraw<T>(a1, m)).kv("back", jcpaths<int64_t>(o64)).str());
    }
    delete[] a1;
  }
}
template <class T> Path<T> poly_from(const JV& v) { Path<T> q; for (auto& p : v.a) {
#ifdef USINGZ
  q.push_back(Point<T>((T)p[0].i(), (T)p[1].i(), (z_type)p[2].i()));
#else
  q.push_back(Point<T>((T)p[0].i(), (T)p[1].i()));
#endif
} return q; }
void build64(PolyPath64* parent, const JV& kids) { for (auto& k : kids.a) { PolyPath64* c = parent->AddChild(poly_from<int64_t>(k["poly"])); build64(c, k["kids"]); } }
void buildD(PolyPathD* parent, const JV& kids) { for (auto& k : kids.a) { PolyPathD* c = parent->AddChild(poly_from<double>(k["poly"])); buildD(c, k["kids"]); } }
void lay_tree(const JV& rec) {
  std::vector<long long> none;
  { PolyTree64 t; build64(&t, rec["t"]);
    stage("export", "CreateCPolyTree64", g_cur, none);
    int64_t* arr = CreateCPolyTree64(t);
    emit(Ev("LayT").ks("kind", "64").kn("id", rec["id"].i()).kv("t", jctree<int64_t, PolyPath64>(t)).kv("arr", xarr<int64_t>(arr)).str()); dispose(arr); }
  { PolyTreeD t; buildD(&t, rec["t"]);
    stage("export", "CreateCPolyTreeD", g_cur, none);
    double* arr = CreateCPolyTreeD(t);
    emit(Ev("LayT").ks("kind", "D").kn("id", rec["id"].i()).kv("t", jctree<double, PolyPathD>(t)).kv("arr", xarr<double>(arr)).str()); dispose(arr); }
}
// vh c17lay --in lay.ndjson --shard k --nshards n [--from i0] [--only id | --onlyidx i] --out file
int cmd_c17lay(const Args& a) {
  std::vector<JV> recs = read_ndjson(args(a, "in", ""));
  long long shard = argi(a, "shard", 0), nshards = argi(a, "nshards", 1), only = argi(a, "only", -1), onlyidx = argi(a, "onlyidx", -1), from = argi(a, "from", 0);
  g_f = fopen(args(a, "out", "/dev/stdout").c_str(), "w");
  if (!g_f) return 3;
  install_crash_recorder();
  header();
  long long n = 0, i = 0;
  for (auto& rec : recs) {
    long long i0 = i++;
    if (onlyidx >= 0 ? i0 != onlyidx : only >= 0 ? rec["id"].i() != only : (i0 % nshards != shard || i0 < from)) continue;
    ++n; g_cur = i0; stage_idle(i0);
    if (rec.has("ps")) { lay_paths<int64_t>(rec); lay_paths<double>(rec); lay_d_extra(rec); cvt<int64_t>(rec); cvt<double>(rec); }
    else lay_tree(rec);
    stage_idle(i0);
  }
  fclose(g_f);
  fprintf(stderr, "c17lay: %lld records\n", n);
  fflush(stderr); _exit(0);
}
}  // namespace
static Reg r_c17("c17", cmd_c17);
static Reg r_c17lay("c17lay", cmd_c17lay);
