// Family "repr" (C13): a base general-position input and re-representations / transformations of it.
// The harness applies generator lists natively and logs them; ReprTrace.tla recomputes the transformed
// input from the base input with its own ApplyG and checks the relation between the solutions.
#include "boolcommon.hpp"

namespace {
struct Gen { std::string kind; std::vector<long long> a; std::vector<long long> p1, p2; };
std::string gjson(const Gen& g) {
  std::string s = "[" + jstr(g.kind);
  if (g.kind == "perm") s += "," + jints(g.p1) + "," + jints(g.p2);
  else for (long long v : g.a) s += "," + jnum(v);
  return s + "]";
}
Point64 map_pt(const Gen& g, Point64 p) {
  if (g.kind == "tr") return Point64((int64_t)(p.x + g.a[0]), (int64_t)(p.y + g.a[1]));
  if (g.kind == "tp") return Point64(p.y, p.x);
  if (g.kind == "mx") return Point64((int64_t)(g.a[0] - p.x), p.y);
  if (g.kind == "sc") return Point64((int64_t)(g.a[0] * p.x), (int64_t)(g.a[0] * p.y));
  return p;
}
void apply(const Gen& g, Paths64& S, Paths64& C) {
  if (g.kind == "perm") { Paths64 s2, c2; for (long long i : g.p1) s2.push_back(S[i - 1]); for (long long i : g.p2) c2.push_back(C[i - 1]); S = s2; C = c2; }
  else if (g.kind == "rot") { Path64& p = (g.a[0] == 1 ? S : C)[g.a[1] - 1]; std::rotate(p.begin(), p.begin() + (g.a[2] - 1), p.end()); }
  else if (g.kind == "dup") { Path64& p = (g.a[0] == 1 ? S : C)[g.a[1] - 1]; p.insert(p.begin() + g.a[2], p[g.a[2] - 1]); }
  else if (g.kind == "close") { Path64& p = (g.a[0] == 1 ? S : C)[g.a[1] - 1]; p.push_back(p[0]); }
  else if (g.kind == "swap") std::swap(S, C);
  else if (g.kind == "rev") { for (auto* ps : {&S, &C}) for (auto& p : *ps) std::reverse(p.begin(), p.end()); }
  else for (auto* ps : {&S, &C}) for (auto& p : *ps) for (auto& q : p) q = map_pt(g, q);
}
Gen rand_gen(Rng& r, const Paths64& S, const Paths64& C, int R, int kind, bool& scaled) {
  Gen g; static const char* names[] = {"perm", "rot", "dup", "close", "swap", "rev", "tr", "tp", "mx", "sc"};
  if (kind == 9 && scaled) kind = 6;
  g.kind = names[kind];
  auto pickpath = [&](long long& who, long long& idx) { who = (C.empty() || (!S.empty() && r.coin())) ? 1 : 2; const Paths64& ps = who == 1 ? S : C; idx = r.range(1, (long long)ps.size()); return ps[idx - 1].size(); };
  if (g.kind == "perm") { for (size_t i = 0; i < S.size(); ++i) g.p1.push_back(i + 1); for (size_t i = 0; i < C.size(); ++i) g.p2.push_back(i + 1);
    for (size_t i = g.p1.size(); i > 1; --i) std::swap(g.p1[i - 1], g.p1[r.range(0, i - 1)]); for (size_t i = g.p2.size(); i > 1; --i) std::swap(g.p2[i - 1], g.p2[r.range(0, i - 1)]);
    if (g.p1.size() == 2) std::swap(g.p1[0], g.p1[1]); }
  else if (g.kind == "rot") { long long w, i; size_t n = pickpath(w, i); g.a = {w, i, r.range(2, (long long)n)}; }
  else if (g.kind == "dup") { long long w, i; size_t n = pickpath(w, i); g.a = {w, i, r.range(1, (long long)n)}; }
  else if (g.kind == "close") { long long w, i; pickpath(w, i); g.a = {w, i}; }
  else if (g.kind == "tr") g.a = {r.range(-20, 20), r.range(-20, 20)};
  else if (g.kind == "mx") g.a = {(long long)R};
  else if (g.kind == "sc") { g.a = {r.range(2, 3)}; scaled = true; }
  return g;
}

void emit_case(std::ostream& os, long long id, const Paths64& S0, const Paths64& C0, const std::vector<Point64>& pts, bool nogp, long long& nexec, int embid = 0) {
  const Emb& emb = emb_table()[embid]; Paths64 S = emb_paths(emb, S0), C = emb_paths(emb, C0);
  Ev ce("Case"); ce.kn("id", id).ks("fam", "repr").kn("emb", embid).kn("ps", 1).kv("subj", jpaths(S0)).kv("clip", jpaths(C0)).kv("pts", jpath(pts));
  if (nogp) ce.kn("nogp", 1);
  os << ce.str() << "\n";
  OutReg reg; reg.emb = &emb; reg.pts = &pts; reg.ps = 1; reg.os = &os;
  std::vector<std::string> xs; Paths64 none;
  for (int ct = 1; ct <= 4; ++ct) for (int fr = 0; fr <= 3; ++fr) for (int pc = 0; pc <= 1; ++pc) for (int rs = 0; rs <= 1; ++rs) {
    ExecRes p = run_exec(S, none, C, ct, fr, pc, rs, nullptr); ++nexec;
    xs.push_back(jints({ct, fr, pc, rs, 0, p.ok, reg.get(p.closed)}));
  }
  os << Ev("Execs").kv("x", jarr(xs.begin(), xs.end(), [](const std::string& t) { return t; })).str() << "\n";
}

// vh repr --seed S --n N --R 32 --ncomp 6 --npts 120 --out file
int cmd_repr(const Args& a) {
  Rng r((uint64_t)argi(a, "seed", 1)); long long n = argi(a, "n", 10); int R = (int)argi(a, "R", 32), npts = (int)argi(a, "npts", 120), ncomp = (int)argi(a, "ncomp", 6);
  std::ofstream os(args(a, "out", "/dev/stdout")); long long nexec = 0, id = 0, nrel = 0;
  for (long long b = 0; b < n; ++b) {
    Paths64 S, C; if (!gen_gps(r, R, 2, 6, S, C)) continue;
    if (b % 5 == 3) S.clear(); else if (b % 5 == 4) C.clear();      // an empty operand is in general position too (swap / algebra with the empty set)
    Paths64 all = S; all.insert(all.end(), C.begin(), C.end());
    Rng pr(hash_paths(all) ^ r.s); std::vector<Point64> pts; std::set<std::pair<int64_t, int64_t>> seen;
    for (auto& p : all) for (auto& q : p) if ((int)pts.size() < npts / 2) { Point64 c((int64_t)(q.x + pr.range(-6, 6)), (int64_t)(q.y + pr.range(-6, 6))); if (seen.insert({c.x, c.y}).second) pts.push_back(c); }
    while ((int)pts.size() < npts) { Point64 c((int64_t)pr.range(-4, R + 4), (int64_t)pr.range(-4, R + 4)); if (seen.insert({c.x, c.y}).second) pts.push_back(c); }
    std::string what = "\"case\":{\"subj\":" + jpaths(S) + ",\"clip\":" + jpaths(C) + ",\"emb\":0}";
    long long id0 = id; id += 1 + 2 + 10 + ncomp;
    guarded(os, what, 300, [&, id0](std::ostream& os) { long long id = id0;
    emit_case(os, ++id, S, C, pts, false, nexec);
    os << Ev("Base").str() << "\n" << Ev("Alg").str() << "\n";
    std::vector<std::vector<Gen>> lists;
    for (int k = 0; k < 10; ++k) { bool sc = false; lists.push_back({rand_gen(r, S, C, R, k, sc)}); }           // every generator alone
    for (int k = 0; k < ncomp; ++k) {                                                                          // compositions of length 2-4
      std::vector<Gen> gs; Paths64 s2 = S, c2 = C; bool sc = false; int len = (int)r.range(2, 4);
      for (int j = 0; j < len; ++j) { Gen g = rand_gen(r, s2, c2, R, (int)r.range(0, 9), sc); apply(g, s2, c2); gs.push_back(g); }
      lists.push_back(gs);
    }
    for (int embid : {2, 6}) {   // the whole input under a big affine embedding (coordinates up to 2^40, differences up to 2^36)
      emit_case(os, ++id, S, C, pts, true, nexec, embid);
      os << Ev("Rel").kv("gs", "[[\"emb\"," + jnum(embid) + "]]").str() << "\n"; ++nrel;
    }
    for (auto& gs : lists) {
      Paths64 s2 = S, c2 = C; std::vector<Point64> p2 = pts;
      for (auto& g : gs) { apply(g, s2, c2); for (auto& q : p2) q = map_pt(g, q); }
      emit_case(os, ++id, s2, c2, p2, true, nexec);
      os << Ev("Rel").kv("gs", jarr(gs.begin(), gs.end(), gjson)).str() << "\n"; ++nrel;
    }
    });
  }
  fprintf(stderr, "cases=%lld execs=%lld rels=%lld\n", id, nexec, nrel);
  return 0;
}
Reg reg_repr("repr", cmd_repr);
}  // namespace
