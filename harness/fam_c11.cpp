// Family "c11": error reporting (C11).  Two subcommands:
//   c11rows  replays the rows enumerated by spec/GenC11.tla against the real entry points and records,
//            per row, WHAT HAPPENED (exception seen, error code, return value, result size, null / untouched
//            results).  What should have happened is decided by spec/C11Trace.tla from C11ErrTable.
//   c11exec  part (a) through the C export path: degenerate / huge inputs x every clip type x fill rule via
//            BooleanOp64, BooleanOp_PolyTree64 (and BooleanOpD for small magnitudes); records return value and sizes.
// The same source is compiled with and without -fno-exceptions; "exc" in the log is what THIS binary was built as.
#include "common.hpp"
#include "clipper2/clipper.export.h"
#include <cmath>
#include <csignal>
#include <unistd.h>

#if (defined(__cpp_exceptions) && __cpp_exceptions) || (defined(__EXCEPTIONS) && __EXCEPTIONS)
#define C11_EXC 1
#else
#define C11_EXC 0
#endif

namespace {

struct Obs { long long th = 0, err = -1, ret = 0, n = 0, nul = 0, unt = 0, ok = 1; };

#if C11_EXC
long long exc_kind(const Clipper2Exception& e) {
  const char* w = e.what();
  if (!strcmp(w, precision_error)) return 1;
  if (!strcmp(w, scale_error)) return 2;
  if (!strcmp(w, non_pair_error)) return 4;
  if (!strcmp(w, undefined_error)) return 32;
  if (!strcmp(w, range_error)) return 64;
  return 98;
}
#endif

// run f (which fills o); in the exception build record the exception that reached us
template <class F> void guarded(Obs& o, F f) {
#if C11_EXC
  try { f(); }
  catch (const Clipper2Exception& e) { o.th = exc_kind(e); }
  catch (const std::bad_alloc&) { throw; }
  catch (const std::exception&) { o.th = 99; }
  catch (...) { o.th = 99; }
#else
  f();
#endif
}

double p10(long long x) { return std::pow(10.0, (double)x); }
int64_t ip10(long long x) { int64_t r = 1; for (long long i = 0; i < x; ++i) r *= 10; return r; }

// ---- the fixture of spec/C11Abs.tla, parametrised by the point type
struct Fix { long long b, m, x, sg, ax, pos, sh; };
template <class T> T unit(const Fix& f);
template <> double unit<double>(const Fix& f) { return p10(f.b); }
template <> int64_t unit<int64_t>(const Fix& f) { return ip10(f.b); }
template <class T> T probe_mag(const Fix& f);
template <> double probe_mag<double>(const Fix& f) { return (double)f.sg * (double)f.m * p10(f.x); }
template <> int64_t probe_mag<int64_t>(const Fix& f) { return (int64_t)f.sg * (int64_t)f.m * ip10(f.x); }

template <class T> Path<T> square(T U, T dx, T dy) { return Path<T>{Point<T>(dx, dy), Point<T>(dx + 10 * U, dy), Point<T>(dx + 10 * U, dy + 10 * U), Point<T>(dx, dy + 10 * U)}; }
template <class T> Path<T> probe_path(const Fix& f) {
  T U = unit<T>(f);
  if (f.sh != 0) {   // degenerate shapes: the bounding box has no area.  P = probe coordinate (20U when there is no probe)
    T P = f.m == 0 ? 20 * U : probe_mag<T>(f);
    auto pt = [&](T along, T across) { return f.ax == 0 ? Point<T>(along, across) : Point<T>(across, along); };
    if (f.sh == 1) return Path<T>{pt(0, 5 * U), pt(P, 5 * U)};                       // axis-parallel 2-point segment
    if (f.sh == 2) return Path<T>{pt(0, 5 * U), pt(10 * U, 5 * U), pt(P, 5 * U)};    // flat 3-point path
    return Path<T>{pt(P, 5 * U)};                                                    // a single point
  }
  Path<T> p = square<T>(U, 0, 0);
  if (f.m == 0) return p;
  T M = probe_mag<T>(f);
  if (f.ax == 0) { Point<T> v(M, 5 * U); if (f.sg > 0) p.insert(p.begin() + 2, v); else p.push_back(v); }
  else { Point<T> v(5 * U, M); if (f.sg > 0) p.insert(p.begin() + 3, v); else p.insert(p.begin() + 1, v); }
  return p;
}
template <class T> Paths<T> probe_paths(const Fix& f) {
  T U = unit<T>(f); Paths<T> ps;
  if (f.pos == 1) ps.push_back(square<T>(U, 20 * U, 20 * U));
  if (f.pos == 2) ps.push_back(f.ax == 0 ? Path<T>{Point<T>(20 * U, 5 * U), Point<T>(30 * U, 5 * U)} : Path<T>{Point<T>(5 * U, 20 * U), Point<T>(5 * U, 30 * U)});   // a second collinear segment
  ps.push_back(probe_path<T>(f));
  return ps;
}

// ---- C array marshalling (layout documented at the top of clipper.export.h; non-Z build)
template <class T> std::vector<T> to_cpaths(const Paths<T>& ps) {
  size_t len = 2; for (auto& p : ps) len += 2 + 2 * p.size();
  std::vector<T> v; v.reserve(len); v.push_back((T)len); v.push_back((T)ps.size());
  for (auto& p : ps) { v.push_back((T)p.size()); v.push_back(0); for (auto& q : p) { v.push_back(q.x); v.push_back(q.y); } }
  return v;
}
template <class T> std::vector<T> to_cpath(const Path<T>& p) {
  std::vector<T> v; v.push_back((T)p.size()); v.push_back(0); for (auto& q : p) { v.push_back(q.x); v.push_back(q.y); }
  return v;
}
int64_t SENT64[2]; double SENTD[2];   // sentinels: the solution arguments must still point here after a rejected call

template <class T> long long ccount(T* arr) { return arr ? (long long)arr[1] : 0; }

// one row -> observation
Obs run_row(const JV& r) {
  const std::string ep = r["ep"].s;
  const int p = (int)r["p"].i(); const long long q = r["q"].i(), zs = r["zs"].i(), cnt = r["cnt"].i();
  const long long ct = r["ct"].i(), fr = r["fr"].i();
  Fix f{r["b"].i(), r["m"].i(), r["x"].i(), r["sg"].i(), r["ax"].i(), r["pos"].i(), r["sh"].i()};
  Obs o;
  const double U = unit<double>(f);
  auto partnerD = [&]() { return PathsD{square<double>(U, 5 * U, 5 * U)}; };
  const RectD rect(-2 * U, -2 * U, 12 * U, 5 * U);

  // ---------------- ClipperD object
  if (ep == "D_AddSubject" || ep == "D_AddOpenSubject" || ep == "D_AddClip" || ep == "D_TreeSubject") {
    PathsD ps = probe_paths<double>(f), s0{square<double>(U, 0, 0)};
    guarded(o, [&]() {
      ClipperD c(p);
      o.err = c.ErrorCode();
      guarded(o, [&]() {
        if (ep == "D_AddSubject" || ep == "D_TreeSubject") { c.AddSubject(ps); c.AddClip(partnerD()); }
        else if (ep == "D_AddOpenSubject") { c.AddSubject(s0); c.AddOpenSubject(ps); c.AddClip(partnerD()); }
        else { c.AddSubject(s0); c.AddClip(ps); }
      });
      if (o.th) { o.err = c.ErrorCode(); return; }
      if (ep == "D_TreeSubject") { PolyTreeD t; PathsD op; o.ok = c.Execute(ClipType::Union, FillRule::NonZero, t, op); o.n = (long long)t.Count(); }
      else { PathsD cl, op; o.ok = c.Execute(ClipType::Union, FillRule::NonZero, cl, op); o.n = (long long)cl.size(); }
      o.err = c.ErrorCode();      // read AFTER Execute: this is what a caller without exceptions can look at
    });
    if (o.th) o.err = -1;
    return o;
  }
  // ---------------- free functions taking PathsD / PathD + precision
  if (ep == "BooleanOpD") { guarded(o, [&]() { o.n = (long long)BooleanOp(ClipType::Union, FillRule::NonZero, probe_paths<double>(f), partnerD(), p).size(); }); return o; }
  if (ep == "BooleanOpTreeD") { guarded(o, [&]() { PolyTreeD t; BooleanOp(ClipType::Union, FillRule::NonZero, probe_paths<double>(f), partnerD(), t, p); o.n = (long long)t.Count(); }); return o; }
  if (ep == "IntersectD") { guarded(o, [&]() { o.n = (long long)Intersect(probe_paths<double>(f), partnerD(), FillRule::NonZero, p).size(); }); return o; }
  if (ep == "UnionD") { guarded(o, [&]() { o.n = (long long)Union(probe_paths<double>(f), partnerD(), FillRule::NonZero, p).size(); }); return o; }
  if (ep == "DifferenceD") { guarded(o, [&]() { o.n = (long long)Difference(probe_paths<double>(f), partnerD(), FillRule::NonZero, p).size(); }); return o; }
  if (ep == "XorD") { guarded(o, [&]() { o.n = (long long)Xor(probe_paths<double>(f), partnerD(), FillRule::NonZero, p).size(); }); return o; }
  if (ep == "Union1D") { guarded(o, [&]() { o.n = (long long)Union(probe_paths<double>(f), FillRule::NonZero, p).size(); }); return o; }
  if (ep == "InflatePathsD") { guarded(o, [&]() { o.n = (long long)InflatePaths(probe_paths<double>(f), U, JoinType::Miter, EndType::Polygon, 2.0, p).size(); }); return o; }
  if (ep == "InflateOpenD") { guarded(o, [&]() { o.n = (long long)InflatePaths(probe_paths<double>(f), U, JoinType::Round, EndType::Round, 2.0, p).size(); }); return o; }
  if (ep == "TrimCollinearOpenD") { guarded(o, [&]() { o.n = (long long)TrimCollinear(probe_path<double>(f), p, true).size(); }); return o; }
  if (ep == "RectClipD") { guarded(o, [&]() { o.n = (long long)RectClip(rect, probe_paths<double>(f), p).size(); }); return o; }
  if (ep == "RectClipPathD") { guarded(o, [&]() { o.n = (long long)RectClip(rect, probe_path<double>(f), p).size(); }); return o; }
  if (ep == "RectClipLinesD") { guarded(o, [&]() { o.n = (long long)RectClipLines(rect, probe_paths<double>(f), p).size(); }); return o; }
  if (ep == "RectClipLinesPathD") { guarded(o, [&]() { o.n = (long long)RectClipLines(rect, probe_path<double>(f), p).size(); }); return o; }
  if (ep == "TrimCollinearD") { guarded(o, [&]() { o.n = (long long)TrimCollinear(probe_path<double>(f), p).size(); }); return o; }
  if (ep == "MinkowskiSumD") { guarded(o, [&]() { o.n = (long long)MinkowskiSum(square<double>(U, 0, 0), probe_path<double>(f), true, p).size(); }); return o; }
  if (ep == "MinkowskiDiffD") { guarded(o, [&]() { o.n = (long long)MinkowskiDiff(square<double>(U, 0, 0), probe_path<double>(f), true, p).size(); }); return o; }
  // ---------------- ScalePath / ScalePaths with explicit scale(s) and error code
  if (ep.rfind("SP", 0) == 0) {
    const double s = p10(q), sx = (zs & 1) ? 0.0 : s, sy = (zs & 2) ? 0.0 : s, s1 = zs ? 0.0 : s;
    int ec = 0;
    guarded(o, [&]() {
      if (ep == "SP2_I_D") o.n = (long long)ScalePath<int64_t, double>(probe_path<double>(f), sx, sy, ec).size();
      else if (ep == "SP1_I_D") o.n = (long long)ScalePath<int64_t, double>(probe_path<double>(f), s1, ec).size();
      else if (ep == "SPS2_I_D") o.n = (long long)ScalePaths<int64_t, double>(probe_paths<double>(f), sx, sy, ec).size();
      else if (ep == "SPS1_I_D") o.n = (long long)ScalePaths<int64_t, double>(probe_paths<double>(f), s1, ec).size();
      else if (ep == "SP2_I_I") o.n = (long long)ScalePath<int64_t, int64_t>(probe_path<int64_t>(f), sx, sy, ec).size();
      else if (ep == "SP1_I_I") o.n = (long long)ScalePath<int64_t, int64_t>(probe_path<int64_t>(f), s1, ec).size();
      else if (ep == "SPS2_I_I") o.n = (long long)ScalePaths<int64_t, int64_t>(probe_paths<int64_t>(f), sx, sy, ec).size();
      else if (ep == "SPS1_I_I") o.n = (long long)ScalePaths<int64_t, int64_t>(probe_paths<int64_t>(f), s1, ec).size();
      else if (ep == "SP2_D_I") o.n = (long long)ScalePath<double, int64_t>(probe_path<int64_t>(f), sx, sy, ec).size();
      else if (ep == "SP1_D_I") o.n = (long long)ScalePath<double, int64_t>(probe_path<int64_t>(f), s1, ec).size();
      else if (ep == "SPS2_D_I") o.n = (long long)ScalePaths<double, int64_t>(probe_paths<int64_t>(f), sx, sy, ec).size();
      else if (ep == "SPS1_D_I") o.n = (long long)ScalePaths<double, int64_t>(probe_paths<int64_t>(f), s1, ec).size();
      else { fprintf(stderr, "unknown entry point %s\n", ep.c_str()); exit(3); }
    });
    o.err = ec;
    return o;
  }
  // ---------------- MakePath / MakePathD
  if (ep == "MakePath_int") { std::vector<int> v; for (int i = 1; i <= cnt; ++i) v.push_back(i); guarded(o, [&]() { o.n = (long long)MakePath(v).size(); }); return o; }
  if (ep == "MakePath_i64") { std::vector<int64_t> v; for (int i = 1; i <= cnt; ++i) v.push_back(i); guarded(o, [&]() { o.n = (long long)MakePath(v).size(); }); return o; }
  if (ep == "MakePathD_dbl") { std::vector<double> v; for (int i = 1; i <= cnt; ++i) v.push_back(i + 0.5); guarded(o, [&]() { o.n = (long long)MakePathD(v).size(); }); return o; }
  if (ep == "MakePathD_int") { std::vector<int> v; for (int i = 1; i <= cnt; ++i) v.push_back(i); guarded(o, [&]() { o.n = (long long)MakePathD(v).size(); }); return o; }
  // ---------------- extern "C" functions
  if (ep == "X_BooleanOp64" || ep == "X_BooleanOp_PolyTree64") {
    const int64_t UI = unit<int64_t>(f);
    std::vector<int64_t> s = to_cpaths<int64_t>(Paths64{square<int64_t>(UI, 0, 0)}), c = to_cpaths<int64_t>(Paths64{square<int64_t>(UI, 5 * UI, 5 * UI)});
    int64_t* sol = SENT64; int64_t* solo = SENT64;
    guarded(o, [&]() {
      o.ret = ep == "X_BooleanOp64" ? BooleanOp64((uint8_t)ct, (uint8_t)fr, s.data(), nullptr, c.data(), sol, solo)
                                    : BooleanOp_PolyTree64((uint8_t)ct, (uint8_t)fr, s.data(), nullptr, c.data(), sol, solo);
    });
    o.unt = (sol == SENT64 && solo == SENT64);
    if (sol != SENT64) { o.n += ccount(sol); DisposeArray64(sol); }
    if (solo != SENT64) { o.n += ccount(solo); DisposeArray64(solo); }
    return o;
  }
  if (ep == "X_BooleanOpD" || ep == "X_BooleanOp_PolyTreeD") {
    std::vector<double> s = to_cpaths<double>(PathsD{square<double>(U, 0, 0)}), c = to_cpaths<double>(partnerD());
    double* sol = SENTD; double* solo = SENTD;
    guarded(o, [&]() {
      o.ret = ep == "X_BooleanOpD" ? BooleanOpD((uint8_t)ct, (uint8_t)fr, s.data(), nullptr, c.data(), sol, solo, p)
                                   : BooleanOp_PolyTreeD((uint8_t)ct, (uint8_t)fr, s.data(), nullptr, c.data(), sol, solo, p);
    });
    o.unt = (sol == SENTD && solo == SENTD);
    if (sol != SENTD) { o.n += ccount(sol); DisposeArrayD(sol); }
    if (solo != SENTD) { o.n += ccount(solo); DisposeArrayD(solo); }
    return o;
  }
  if (ep == "X_InflatePathsD" || ep == "X_InflatePathD" || ep == "X_RectClipD" || ep == "X_RectClipLinesD") {
    std::vector<double> ps = to_cpaths<double>(PathsD{square<double>(U, 0, 0)}), p1 = to_cpath<double>(square<double>(U, 0, 0));
    CRectD cr{-2 * U, -2 * U, 12 * U, 5 * U};
    double* res = nullptr;
    guarded(o, [&]() {
      if (ep == "X_InflatePathsD") res = InflatePathsD(ps.data(), U, 3, 0, p);
      else if (ep == "X_InflatePathD") res = InflatePathD(p1.data(), U, 3, 0, p);
      else if (ep == "X_RectClipD") res = RectClipD(cr, ps.data(), p);
      else res = RectClipLinesD(cr, ps.data(), p);
    });
    o.nul = res == nullptr; o.n = ccount(res);
    if (res) DisposeArrayD(res);
    return o;
  }
  fprintf(stderr, "unknown entry point %s\n", ep.c_str()); exit(3);
}

const char* ROWKEYS[] = {"p", "q", "zs", "cnt", "ct", "fr", "b", "m", "x", "sg", "ax", "pos", "sh"};

// A row whose call kills the process (e.g. an unvalidated enum byte indexing out of bounds) must not take the whole
// replay down: the handler writes the row's pre-formatted line with "crash":1 and exits with code 42; the driver
// restarts the harness after that row (--from).  The handler only uses write/_exit on data prepared before the call.
int g_fd = -1; char g_pending[1024]; size_t g_pending_len = 0;
void on_fatal(int) { if (g_fd >= 0 && g_pending_len) { ssize_t w = write(g_fd, g_pending, g_pending_len); (void)w; } _exit(42); }
void install_fatal() {      // on an alternate stack, so that a stack overflow (runaway recursion) is caught as well
  static char altstack[1 << 16];
  stack_t ss; ss.ss_sp = altstack; ss.ss_size = sizeof altstack; ss.ss_flags = 0; sigaltstack(&ss, nullptr);
  struct sigaction sa; memset(&sa, 0, sizeof sa); sa.sa_handler = on_fatal; sa.sa_flags = SA_ONSTACK; sigemptyset(&sa.sa_mask);
  for (int sig : {SIGSEGV, SIGBUS, SIGFPE, SIGILL, SIGABRT}) sigaction(sig, &sa, nullptr);
}

// vh c11rows --in rows.ndjson --out trace.ndjson [--from id (append to --out, no Hdr)] [--only id]
int cmd_rows(const Args& a) {
  std::ifstream in(args(a, "in", "")); if (!in) { fprintf(stderr, "cannot open --in\n"); return 2; }
  long long from = argi(a, "from", 0), only = argi(a, "only", 0);
  FILE* os = fopen(args(a, "out", "/dev/stdout").c_str(), from ? "a" : "w"); if (!os) return 2;
  g_fd = fileno(os);
  install_fatal();
  if (!from) fprintf(os, "%s\n", Ev("Hdr").kn("exc", C11_EXC).str().c_str());
  std::string line; long long id = 0, done = 0;
  while (std::getline(in, line)) {
    if (line.empty()) continue;
    ++id;
    if (only ? id != only : id < from) continue;
    JV r = jparse(line);
    Ev e("Row"); e.kn("id", only ? 1 : id).ks("ep", r["ep"].s);
    for (const char* k : ROWKEYS) e.kn(k, r[k].i());
    e.kn("exc", C11_EXC);
    { Ev c = e; c.kn("th", 0).kn("err", -1).kn("ret", 0).kn("n", 0).kn("nul", 0).kn("unt", 0).kn("ok", 1).kn("crash", 1);
      std::string t = c.str() + "\n"; g_pending_len = std::min(t.size(), sizeof g_pending); memcpy(g_pending, t.data(), g_pending_len); }
    fflush(os);
    Obs o = run_row(r);
    g_pending_len = 0;
    e.kn("th", o.th).kn("err", o.err).kn("ret", o.ret).kn("n", o.n).kn("nul", o.nul).kn("unt", o.unt).kn("ok", o.ok).kn("crash", 0);
    fprintf(os, "%s\n", e.str().c_str()); ++done;
  }
  fprintf(os, "%s\n", Ev("End").kn("rows", done).str().c_str());
  fclose(os);
  fprintf(stderr, "rows=%lld exc=%d\n", done, C11_EXC);
  return 0;
}
Reg reg_rows("c11rows", cmd_rows);

// ------------------------------------------------------------------------------------------------
// part (a): Execute succeeds / NoClip is empty, through the C export path
int bitlen(uint64_t v) { int n = 0; while (v) { ++n; v >>= 1; } return n; }

Path64 degen_path(Rng& r, int g) {
  Path64 p; int nv = (int)r.range(0, 8);
  for (int k = 0; k < nv; ++k) {
    Point64 q(r.range(0, g), r.range(0, g)); p.push_back(q);
    if (r.range(0, 4) == 0) p.push_back(q);                                  // duplicate
    if (r.range(0, 6) == 0 && p.size() > 1) p.push_back(p[p.size() - 2]);     // spike
  }
  if (r.range(0, 5) == 0 && !p.empty()) p.push_back(p[0]);
  return p;
}

// magnitude classes: x -> mul * x + (tx, ty); all results stay strictly inside +-2^62
struct MagC { int64_t mul, tx, ty; };
MagC mag_class(Rng& r, int cls, int g) {
  const int64_t L = (1LL << 62) - 1;
  switch (cls) {
    case 0: return {1, 0, 0};
    case 1: return {1, (1LL << 30) + r.range(-1000, 1000), -(1LL << 30)};
    case 2: return {r.range(1, 1 << 20), (1LL << 52), -(1LL << 52)};
    case 3: return {(1LL << 40) / g, -(1LL << 61), (1LL << 61) - (1LL << 44)};
    case 4: return {1, L - g, -L};                                   // hugging +-(2^62 - 1)
    case 5: return {(2 * L) / g, -L, -L};                            // spanning the whole range [-L, L]
    default: return {r.range(1, 1LL << 50), r.range(-(1LL << 60), 1LL << 60), r.range(-(1LL << 60), 1LL << 60)};
  }
}

// vh c11exec --seed S --n N --out file [--only id] [--from id (append, no Hdr)]
// a call that kills the process is logged as <<entry, ct, fr, -99, 0, 0>> (exit code 42), see on_fatal
int cmd_exec(const Args& a) {
  const uint64_t seed = (uint64_t)argi(a, "seed", 1); long long n = argi(a, "n", 100), only = argi(a, "only", 0);
  long long from = argi(a, "from", 0);
  FILE* os = fopen(args(a, "out", "/dev/stdout").c_str(), from ? "a" : "w"); if (!os) return 2;
  g_fd = fileno(os);
  install_fatal();
  if (!from) fprintf(os, "%s\n", Ev("Hdr").kn("exc", C11_EXC).str().c_str());
  long long calls = 0;
  for (long long id = 1; id <= n; ++id) {
    if (only ? id != only : id < from) continue;
    auto pend = [&](int entry, int ct, int fr) { g_pending_len = (size_t)snprintf(g_pending, sizeof g_pending, "{\"e\":\"CExecs\",\"id\":%lld,\"x\":[[%d,%d,%d,-99,0,0]]}\n", id, entry, ct, fr); };
    Rng r(seed * 1000003ULL + (uint64_t)id);                      // per-case stream: a replay of one case regenerates it
    int g = (int)r.range(1, 9); int cls = (int)(id % 7);
    Paths64 S, O, C;
    int ns = (int)r.range(0, 3), no = (int)r.range(0, 2), nc = (int)r.range(0, 3);
    for (int k = 0; k < ns; ++k) S.push_back(degen_path(r, g));
    for (int k = 0; k < no; ++k) O.push_back(degen_path(r, g));
    for (int k = 0; k < nc; ++k) C.push_back(r.range(0, 4) == 0 && !S.empty() ? S[0] : degen_path(r, g));
    MagC mc = mag_class(r, cls, g);
    uint64_t maxabs = 0; long long nv = 0;
    for (auto* ps : {&S, &O, &C}) for (auto& p : *ps) for (auto& q : p) {
      q.x = mc.mul * q.x + mc.tx; q.y = mc.mul * q.y + mc.ty; ++nv;
      maxabs = std::max(maxabs, (uint64_t)std::llabs(q.x)); maxabs = std::max(maxabs, (uint64_t)std::llabs(q.y));
    }
    { Ev ce("CCase"); ce.kn("id", id).kn("cls", cls).kn("mb", bitlen(maxabs)).kn("np", (long long)(S.size() + O.size() + C.size())).kn("nv", nv);
      if (argi(a, "dump", 0)) ce.kv("subj", jpaths(S)).kv("open", jpaths(O)).kv("clip", jpaths(C));     // for reports only (not read by TLC)
      fprintf(os, "%s\n", ce.str().c_str()); }
    fflush(os);
    std::vector<int64_t> cs = to_cpaths<int64_t>(S), co = to_cpaths<int64_t>(O), cc = to_cpaths<int64_t>(C);
    const bool small = bitlen(maxabs) <= 20;
    PathsD SD, OD, CD;
    if (small) { auto cv = [](const Paths64& ps) { PathsD r; for (auto& p : ps) { PathD d; for (auto& q : p) d.emplace_back(q.x * 0.25, q.y * 0.25); r.push_back(d); } return r; }; SD = cv(S); OD = cv(O); CD = cv(C); }
    std::vector<double> ds = to_cpaths<double>(SD), dopen = to_cpaths<double>(OD), dc = to_cpaths<double>(CD);
    std::vector<std::string> xs;
    for (int ct = 0; ct <= 4; ++ct) for (int fr = 0; fr <= 3; ++fr) {
      { int64_t* sol = nullptr; int64_t* solo = nullptr; pend(1, ct, fr);
        int ret = BooleanOp64((uint8_t)ct, (uint8_t)fr, cs.data(), co.data(), cc.data(), sol, solo, (id + ct) % 2 == 0, (id + fr) % 3 == 0);
        xs.push_back(jints({1, ct, fr, ret, ccount(sol), ccount(solo)})); if (sol) DisposeArray64(sol); if (solo) DisposeArray64(solo); ++calls; }
      { int64_t* sol = nullptr; int64_t* solo = nullptr; pend(2, ct, fr);
        int ret = BooleanOp_PolyTree64((uint8_t)ct, (uint8_t)fr, cs.data(), co.data(), cc.data(), sol, solo, (id + ct) % 2 == 0, (id + fr) % 3 == 0);
        xs.push_back(jints({2, ct, fr, ret, ccount(sol), ccount(solo)})); if (sol) DisposeArray64(sol); if (solo) DisposeArray64(solo); ++calls; }
      { pend(0, ct, fr); Clipper64 c; c.AddSubject(S); c.AddOpenSubject(O); c.AddClip(C); Paths64 cl, op;
        bool ok = c.Execute(ClipType(ct), FillRule(fr), cl, op);
        xs.push_back(jints({0, ct, fr, ok ? 0 : -1, (long long)cl.size(), (long long)op.size()})); ++calls; }
      if (small) {
        { double* sol = nullptr; double* solo = nullptr; pend(3, ct, fr);
          int ret = BooleanOpD((uint8_t)ct, (uint8_t)fr, ds.data(), dopen.data(), dc.data(), sol, solo, 2);
          xs.push_back(jints({3, ct, fr, ret, ccount(sol), ccount(solo)})); if (sol) DisposeArrayD(sol); if (solo) DisposeArrayD(solo); ++calls; }
        { double* sol = nullptr; double* solo = nullptr; pend(4, ct, fr);
          int ret = BooleanOp_PolyTreeD((uint8_t)ct, (uint8_t)fr, ds.data(), dopen.data(), dc.data(), sol, solo, 2);
          xs.push_back(jints({4, ct, fr, ret, ccount(sol), ccount(solo)})); if (sol) DisposeArrayD(sol); if (solo) DisposeArrayD(solo); ++calls; }
      }
    }
    g_pending_len = 0;
    fprintf(os, "%s\n", Ev("CExecs").kn("id", id).kv("x", jarr(xs.begin(), xs.end(), [](const std::string& t) { return t; })).str().c_str());
  }
  fprintf(os, "%s\n", Ev("End").kn("rows", calls).str().c_str());
  fclose(os);
  fprintf(stderr, "calls=%lld exc=%d\n", calls, C11_EXC);
  return 0;
}
Reg reg_exec("c11exec", cmd_exec);

}  // namespace
