// Family "vatti": records the active-edge-list snapshots of hook H1 (clipper.verif.h ael_fn) for closed
// general-position inputs; VattiTrace.tla derives the expected sweep state from the input geometry.
#include "boolcommon.hpp"
#include "clipper2/clipper.verif.h"
namespace {
thread_local std::ostream* g_os = nullptr; thread_local std::vector<std::string>* g_rows = nullptr; thread_local long long g_y = 0, g_ct = 0, g_fr = 0;
void ael_cb(int n, const long long* v) {
  if (n >= 0) { if (n == 0) { g_rows->clear(); } g_y = v[0]; g_ct = v[12]; g_fr = v[13]; g_rows->push_back(jints(std::vector<long long>(v, v + 12))); return; }
  (*g_os) << Ev("Ael").kn("y", g_y).kn("ct", g_ct).kn("fr", g_fr).kv("a", jarr(g_rows->begin(), g_rows->end(), [](const std::string& s) { return s; })).str() << "\n";
}
int cmd_vatti(const Args& a) {
  Rng r((uint64_t)argi(a, "seed", 1)); long long n = argi(a, "n", 10); int R = (int)argi(a, "R", 48);
  std::ofstream os(args(a, "out", "/dev/stdout")); long long ncase = 0, nexec = 0;
  for (long long b = 0; b < n; ++b) {
    Paths64 S, C; if (!gen_gps(r, R, (int)argi(a, "maxpaths", 2), (int)argi(a, "maxv", 6), S, C)) continue;
    bool horz = false; for (auto* ps : {&S, &C}) for (auto& p : *ps) for (size_t i = 0; i < p.size(); ++i) if (p[i].y == p[(i + 1) % p.size()].y) horz = true;
    if (horz) continue;
    ++ncase;
    std::string what = "\"case\":{\"subj\":" + jpaths(S) + ",\"clip\":" + jpaths(C) + ",\"emb\":0}";
    guarded(os, what, 60, [&](std::ostream& o) {
      o << Ev("VCase").kv("subj", jpaths(S)).kv("clip", jpaths(C)).str() << "\n";
      std::vector<std::string> rows; g_os = &o; g_rows = &rows; Clipper2Lib::verif::ael_fn = ael_cb;
      for (int ct = 1; ct <= 4; ++ct) for (int fr = 0; fr <= 3; ++fr) { Clipper64 c; c.AddSubject(S); c.AddClip(C); Paths64 sol; c.Execute((ClipType)ct, (FillRule)fr, sol); ++nexec; }
      Clipper2Lib::verif::ael_fn = nullptr;
    });
  }
  fprintf(stderr, "cases=%lld execs=%lld\n", ncase, nexec);
  return 0;
}
Reg reg_vatti("vatti", cmd_vatti);
}
