// Family "vatti": records the active-edge-list snapshots of hook H1 (clipper.verif.h ael_fn) for closed
// general-position inputs; VattiTrace.tla derives the expected sweep state from the input geometry.
#include "boolcommon.hpp"
#include "clipper2/clipper.verif.h"
namespace {
thread_local std::ostream* g_os = nullptr; thread_local std::vector<std::string>* g_rows = nullptr; thread_local long long g_y = 0, g_ct = 0, g_fr = 0;
void ael_cb(int n, const long long* v) {
  if (n >= 0) { if (n == 0) { g_rows->clear(); } g_y = v[0]; g_ct = v[12]; g_fr = v[13]; { std::vector<long long> row(v, v + 12); row.push_back(v[14]); row.push_back(v[15]); g_rows->push_back(jints(row)); } return; }
  (*g_os) << Ev("Ael").kn("y", g_y).kn("ct", g_ct).kn("fr", g_fr).kv("a", jarr(g_rows->begin(), g_rows->end(), [](const std::string& s) { return s; })).str() << "\n";
}
// hook H2: every intersection the sweep processes, collected per Execute
thread_local std::vector<std::string>* g_isects = nullptr;
void isect_cb(const long long* v) { if (g_isects) g_isects->push_back(jints(std::vector<long long>(v, v + 12))); }
int cmd_vatti(const Args& a) {
  Rng r((uint64_t)argi(a, "seed", 1)); long long n = argi(a, "n", 10); int R = (int)argi(a, "R", 48);
  std::ofstream os(args(a, "out", "/dev/stdout")); long long ncase = 0, nexec = 0;
  for (long long b = 0; b < n; ++b) {
    Paths64 S, C;
    if (args(a, "fam", "gps") == "walk") { int g = (int)argi(a, "grid", 6); int ns = (int)r.range(1, 2), nc = (int)r.range(0, 2); int mul = (int)argi(a, "mul", 1);
      for (int k = 0; k < ns; ++k) S.push_back(rect_walk(r, g, (int)r.range(2, 5), false)); for (int k = 0; k < nc; ++k) C.push_back(rect_walk(r, g, (int)r.range(2, 5), false));
      for (auto* ps : {&S, &C}) for (auto& p : *ps) for (auto& q : p) { q.x *= mul; q.y *= mul; } }
    else if (!gen_gps(r, R, (int)argi(a, "maxpaths", 2), (int)argi(a, "maxv", 6), S, C)) continue;
    bool horz = false; if (args(a, "fam", "gps") == "walk") goto emitcase; for (auto* ps : {&S, &C}) for (auto& p : *ps) for (size_t i = 0; i < p.size(); ++i) if (p[i].y == p[(i + 1) % p.size()].y) horz = true;
    if (horz) continue;
    emitcase:
    ++ncase;
    std::string what = "\"case\":{\"subj\":" + jpaths(S) + ",\"clip\":" + jpaths(C) + ",\"emb\":0}";
    guarded(os, what, 60, [&](std::ostream& o) {
      o << Ev("VCase").kv("subj", jpaths(S)).kv("clip", jpaths(C)).str() << "\n";
      std::vector<std::string> rows; g_os = &o; g_rows = &rows; Clipper2Lib::verif::ael_fn = ael_cb;
      std::vector<std::string> isects; g_isects = &isects; Clipper2Lib::verif::intersect_fn = isect_cb;
      for (int ct = 1; ct <= 4; ++ct) for (int fr = 0; fr <= 3; ++fr) { Clipper64 c; c.AddSubject(S); c.AddClip(C); Paths64 sol; isects.clear(); c.Execute((ClipType)ct, (FillRule)fr, sol); ++nexec;
        if (ct == 1 || fr == 0) o << Ev("Isects").kn("ct", ct).kn("fr", fr).kv("x", jarr(isects.begin(), isects.end(), [](const std::string& s) { return s; })).str() << "\n"; }
      Clipper2Lib::verif::ael_fn = nullptr; Clipper2Lib::verif::intersect_fn = nullptr; g_isects = nullptr;
    });
  }
  fprintf(stderr, "cases=%lld execs=%lld\n", ncase, nexec);
  return 0;
}
Reg reg_vatti("vatti", cmd_vatti);

// "isects": a wide native sweep (coordinates ~ +-R/2, one Execute per case) recording only the intersections of hook H2:
// VattiTrace!TIsBig states what holds for ANY input (the point lies in the scanbeam being processed); inputs are
// natively filtered for general position so that a divergence can be escalated to the observable checks.
int cmd_isects(const Args& a) {
  Rng r((uint64_t)argi(a, "seed", 1)); long long n = argi(a, "n", 1000); int R = (int)argi(a, "R", 1000); const int64_t off = argi(a, "off", -500);
  std::ofstream os(args(a, "out", "/dev/stdout")); long long ncase = 0, nis = 0;
  for (long long b = 0; b < n; ++b) {
    Paths64 S, C; if (!gen_gps(r, R, 1, (int)argi(a, "maxv", 4), S, C)) continue;
    for (auto* ps : {&S, &C}) for (auto& p : *ps) for (auto& q : p) { q.x += off; q.y += off; }
    ++ncase;
    std::string what = "\"case\":{\"subj\":" + jpaths(S) + ",\"clip\":" + jpaths(C) + ",\"emb\":0}";
    guarded(os, what, 60, [&](std::ostream& o) {
      std::vector<std::string> isects; g_isects = &isects; Clipper2Lib::verif::intersect_fn = isect_cb;
      Clipper64 c; c.AddSubject(S); c.AddClip(C); Paths64 sol; c.Execute((ClipType)(1 + b % 4), (FillRule)((b / 4) % 2), sol);
      Clipper2Lib::verif::intersect_fn = nullptr; g_isects = nullptr;
      if (!isects.empty()) o << Ev("IsBig").kv("subj", jpaths(S)).kv("clip", jpaths(C)).kv("x", jarr(isects.begin(), isects.end(), [](const std::string& s) { return s; })).str() << "\n";
      nis += (long long)isects.size();
    });
  }
  fprintf(stderr, "cases=%lld\n", ncase);
  return 0;
}
Reg reg_isects("isects", cmd_isects);

// "verts": vertex flags assigned by AddPaths_ (hook H3) for random closed and open paths with plateaus, duplicates and closing vertices
thread_local std::vector<std::string>* g_vrows = nullptr; thread_local int g_open = 0;
void vert_cb(int n, const long long* v) {
  if (n >= 0) { if (n == 0) g_vrows->clear(); g_open = (int)v[4]; g_vrows->push_back(jints({v[0], v[1], v[2]})); return; }
  (*g_os) << Ev("Verts").kn("open", g_open).kv("v", jarr(g_vrows->begin(), g_vrows->end(), [](const std::string& s) { return s; })).str() << "\n";
}
int cmd_verts(const Args& a) {
  Rng r((uint64_t)argi(a, "seed", 1)); long long n = argi(a, "n", 100);
  std::ofstream os(args(a, "out", "/dev/stdout")); std::vector<std::string> rows; g_os = &os; g_vrows = &rows; Clipper2Lib::verif::vertex_fn = vert_cb;
  for (long long b = 0; b < n; ++b) {
    int ny = (int)r.range(2, 5);   // few distinct y values: many plateaus
    auto mk = [&]() { Path64 p; int nv = (int)r.range(2, 9); for (int i = 0; i < nv; ++i) { Point64 q((int64_t)r.range(0, 9), (int64_t)r.range(0, ny)); p.push_back(q); if (r.range(0, 5) == 0) p.push_back(q); } if (r.range(0, 4) == 0) p.push_back(p[0]); return p; };
    Clipper64 c; Paths64 S = {mk(), mk()}, O = {mk()}, C = {mk()};
    c.AddSubject(S); c.AddOpenSubject(O); c.AddClip(C);
    ReuseableDataContainer64 rd; rd.AddPaths(C, PathType::Clip, false); rd.AddPaths(O, PathType::Subject, true);
  }
  Clipper2Lib::verif::vertex_fn = nullptr;
  return 0;
}
Reg reg_verts("verts", cmd_verts);
}
