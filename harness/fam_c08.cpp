// Family "c08": RectClip (C08, subcommand `rc`) and RectClipLines (C09, subcommand `rcl`) on family F-RC
// (DESIGN.md 5/C08, 5/C09) for RectClipTrace.tla / RectClipLinesTrace.tla.
//
// Coordinates.  "unit" coordinates: the 5x5 lattice has step 8, so lattice points are {0,8,..,32}^2 and the
// clipping rectangle is one of rc_rects() (unit coordinates).  An embedding (M, tx, ty) maps unit -> real
// coordinates:  real = M * unit + t.  What TLC sees are "working" coordinates:
//   exact  embeddings (M <= 7):  working = real - t   (= M * unit; one working unit = one real unit)
//   coarse embeddings (M >= 2^13): working = unit     (one working unit = M real units)
// so  real = S * working + t  with S = 1 (exact) or S = M (coarse).  Everything written to the trace is a
// recorded input, a raw output (exact embeddings) or an exact integer MEASUREMENT of the library's output
// (winding of the output at mapped sample points, per-vertex distances to the rectangle saturated at 100, area
// signs, native equality relations between two runs of the real code).  No expected value is computed here.
#include "common.hpp"

struct RcEmb { int id; int64_t M, tx, ty; bool coarse; };
static const std::vector<RcEmb>& rc_embs() {
  static std::vector<RcEmb> t = {
    {0, 1, 0, 0, false},
    {1, 1, (1LL << 40) - 32, -(1LL << 40), false},                 // |coordinate| reaches 2^40 exactly
    {2, 3, -(1LL << 40) + 1, (1LL << 40) - 97, false},
    {3, 7, -100, 1000003, false},
    {4, 1LL << 13, (1LL << 39) + 12345, -(1LL << 39) - 54321, true},
    {5, 1LL << 35, 0, -(1LL << 40), true},                         // x in [0, 2^40], y in [-2^40, 0]
  };
  return t;
}
struct URect { int64_t l, t, r, b; };
static const std::vector<URect>& rc_rects() {
  static std::vector<URect> t = {
    {8, 8, 24, 24},     // 0: [1,3]^2 x step - vertices can lie on sides and corners (family F-RC)
    {8, 8, 16, 24},     // 1: aligned, not square
    {11, 10, 21, 23},   // 2: off-lattice - every crossing point is a non-lattice rational (rounding visible)
    {0, 0, 32, 32},     // 3: the lattice hull - everything inside or on the boundary
  };
  return t;
}

struct RcCtx {
  RcEmb emb; URect ur; int64_t mw, S;        // mw: working scale (unit -> working), S: working -> real scale
  Rect64 rreal; int64_t wl, wt, wr, wb;      // real rectangle, working rectangle
  std::vector<Point64> pts;                  // sample points (working)
};
static Point64 to_real(const RcCtx& c, const Point64& w) { return Point64(c.S * w.x + c.emb.tx, c.S * w.y + c.emb.ty); }
static Path64 path_real(const RcCtx& c, const Path64& w) { Path64 r; r.reserve(w.size()); for (auto& q : w) r.push_back(to_real(c, q)); return r; }
static Path64 unit_to_work(const RcCtx& c, const Path64& u) { Path64 r; for (auto& q : u) r.emplace_back(q.x * c.mw, q.y * c.mw); return r; }
// raw output in working coordinates: exact -> subtract t; coarse -> nearest working (= unit) coordinate
// (TLC integers are 32-bit and the JSON reader wraps silently: a coordinate far outside the family - e.g. a garbage vertex - is clamped to
// +-100000 working units; the per-vertex measurements `vm` are taken on the true coordinates, and the trace specs judge such a result by them)
static int64_t clampw(int64_t v) { return v > 100000 ? 100000 : (v < -100000 ? -100000 : v); }
static Point64 to_work(const RcCtx& c, const Point64& v) {
  if (!c.emb.coarse) return Point64(clampw(v.x - c.emb.tx), clampw(v.y - c.emb.ty));
  return Point64(clampw(floordiv(v.x - c.emb.tx + c.S / 2, c.S)), clampw(floordiv(v.y - c.emb.ty + c.S / 2, c.S)));
}
static Paths64 paths_work(const RcCtx& c, const Paths64& ps) { Paths64 r; for (auto& p : ps) { Path64 w; for (auto& q : p) w.push_back(to_work(c, q)); r.push_back(w); } return r; }

static std::vector<int64_t> axis_pts(int64_t lo, int64_t hi, int64_t m) {
  std::set<int64_t> s; const int64_t offs[5] = {1, 2, 4 * m, 5 * m, 7 * m};
  for (int64_t o : offs) { if (lo + o < hi) s.insert(lo + o); if (hi - o > lo) s.insert(hi - o); }
  return std::vector<int64_t>(s.begin(), s.end());
}
static RcCtx make_ctx(int emb, int rect) {
  RcCtx c; c.emb = rc_embs()[emb]; c.ur = rc_rects()[rect];
  c.mw = c.emb.coarse ? 1 : c.emb.M; c.S = c.emb.coarse ? c.emb.M : 1;
  c.wl = c.ur.l * c.mw; c.wt = c.ur.t * c.mw; c.wr = c.ur.r * c.mw; c.wb = c.ur.b * c.mw;
  Point64 a = to_real(c, Point64(c.wl, c.wt)), b = to_real(c, Point64(c.wr, c.wb));
  c.rreal = Rect64(a.x, a.y, b.x, b.y);
  // interior sample points (strictly inside), then exterior ones (>= 2 working units outside); TLC re-classifies them
  auto xs = axis_pts(c.wl, c.wr, c.mw), ys = axis_pts(c.wt, c.wb, c.mw);
  for (int64_t x : xs) for (int64_t y : ys) c.pts.emplace_back(x, y);
  std::vector<int64_t> ex = {c.wl - 2, c.wr + 2}, ey = {c.wt - 2, c.wb + 2};
  std::vector<int64_t> sx = {c.wl - 2, c.wl + 1, (c.wl + c.wr) / 2 + 1, c.wr - 1, c.wr + 2}, sy = {c.wt - 2, c.wt + 1, (c.wt + c.wb) / 2 + 1, c.wb - 1, c.wb + 2};
  std::set<std::pair<int64_t, int64_t>> seen;
  auto add = [&](int64_t x, int64_t y) { if (seen.insert({x, y}).second) c.pts.emplace_back(x, y); };
  for (int64_t x : ex) for (int64_t y : sy) add(x, y);
  for (int64_t y : ey) for (int64_t x : sx) add(x, y);
  add(c.wl - 5 * c.mw, c.wt - 3 * c.mw); add(c.wr + 6 * c.mw, (c.wt + c.wb) / 2); add((c.wl + c.wr) / 2, c.wb + 5 * c.mw); add(c.wl - 7 * c.mw, c.wb + 1);
  return c;
}
static std::string fam_event(const RcCtx& c, const std::string& kind, int rect, bool with_pts) {
  Ev e("Fam"); e.ks("kind", kind).kn("emb", c.emb.id).kn("rid", rect).kn("m", c.mw).kn("coarse", c.emb.coarse ? 1 : 0)
    .kv("rect", jints({c.wl, c.wt, c.wr, c.wb})).kn("step", 8 * c.mw);
  if (with_pts) e.kv("pts", jpath(c.pts));
  return e.str();
}

static long long sat(i128 v) { return v > 100 ? 100 : (v < 0 ? 0 : (long long)v); }
// per-vertex measurements against the REAL rectangle: [is an input vertex, amount outside in x, in y, distance to the nearest side when inside]
static std::string vm_of(const RcCtx& c, const Paths64& out, const std::set<std::pair<int64_t, int64_t>>& inputs, bool with_din) {
  const Rect64& r = c.rreal;
  return jarr(out.begin(), out.end(), [&](const Path64& p) {
    return jarr(p.begin(), p.end(), [&](const Point64& q) {
      i128 ox = std::max<i128>(std::max<i128>((i128)r.left - q.x, (i128)q.x - r.right), 0), oy = std::max<i128>(std::max<i128>((i128)r.top - q.y, (i128)q.y - r.bottom), 0);
      i128 din = std::min<i128>(std::min<i128>((i128)q.x - r.left, (i128)r.right - q.x), std::min<i128>((i128)q.y - r.top, (i128)r.bottom - q.y));
      std::vector<long long> v = {inputs.count({q.x, q.y}) ? 1 : 0, sat(ox), sat(oy)};
      if (with_din) v.push_back(sat(din));
      return jints(v); }); });
}
static std::vector<long long> cover_real(const RcCtx& c, const Paths64& out) {
  std::vector<long long> r; r.reserve(c.pts.size());
  for (auto& w : c.pts) { Point64 p = to_real(c, w); bool on = false; int wd = wind_at(out, PtW{(i128)p.x, (i128)p.y}, 1, on); r.push_back(on ? 99 : wd); }
  return r;
}
static int sgn128(i128 v) { return v > 0 ? 1 : v < 0 ? -1 : 0; }
// |2 * area| divided by (2 * L1-perimeter + 2 * #vertices), saturated at 100: how far the area is above what moving every vertex by one unit could change
static long long area_quot(const Path64& p) {
  i128 a = area2_of(p); if (a < 0) a = -a;
  i128 l1 = 0; size_t n = p.size();
  for (size_t i = 0; i < n; ++i) { const Point64 &A = p[i], &B = p[(i + 1) % n]; i128 dx = (i128)B.x - A.x, dy = (i128)B.y - A.y; l1 += (dx < 0 ? -dx : dx) + (dy < 0 ? -dy : dy); }
  i128 d = 2 * l1 + 2 * (i128)n; if (d == 0) return 0;
  return sat(a / d);
}

// ------------------------------------------------------------------ path families (unit coordinates)
static Path64 decode_idx(long long idx, int nv) { Path64 p; for (int k = 0; k < nv; ++k) { int d = (int)(idx % 25); idx /= 25; p.emplace_back(8 * (d % 5), 8 * (d / 5)); } return p; }
static long long pow25(int nv) { long long r = 1; for (int k = 0; k < nv; ++k) r *= 25; return r; }
static Point64 ring_pt(int pos) {   // the 16 outer lattice points, clockwise on screen (y down) starting at (0,0)
  pos = ((pos % 16) + 16) % 16;
  if (pos < 4) return Point64(8 * pos, 0);
  if (pos < 8) return Point64(32, 8 * (pos - 4));
  if (pos < 12) return Point64(32 - 8 * (pos - 8), 32);
  return Point64(0, 32 - 8 * (pos - 12));
}
static Path64 gen_orbit(Rng& r, int nv) {      // walks round the outer ring (possibly several times), with occasional detours
  Path64 p; int pos = (int)r.range(0, 15); int dir = r.coin() ? 1 : -1; int maxstep = (int)r.range(3, 6);
  for (int k = 0; k < nv; ++k) {
    if (r.range(0, 7) == 0) p.emplace_back(8 * r.range(0, 4), 8 * r.range(0, 4));
    else p.push_back(ring_pt(pos));
    pos += dir * (int)r.range(1, maxstep);
    if (r.range(0, 11) == 0) dir = -dir;
  }
  return p;
}
static Path64 gen_free(Rng& r, int nv) {       // arbitrary integer vertices (not on the lattice), clustered near the rectangle's sides now and then
  Path64 p; const int64_t hot[6] = {8, 24, 11, 21, 10, 23};
  for (int k = 0; k < nv; ++k) {
    int64_t x = r.range(0, 32), y = r.range(0, 32);
    if (r.range(0, 5) == 0) x = hot[r.range(0, 5)] + r.range(-1, 1);
    if (r.range(0, 5) == 0) y = hot[r.range(0, 5)] + r.range(-1, 1);
    p.emplace_back(x, y);
  }
  return p;
}
// "band" family: a thick polyline (band) wrapped round 2-4 consecutive sides of the rectangle, OUTSIDE it: the inner boundary runs on the
// side lines (offset 0) or 1-3 units off them, the outer boundary 1-6 units further out, caps perpendicular to the first / last side,
// optional jog in the outer boundary, optional one-unit slant of outer vertices; 6-12 vertices, both orientations, any start vertex.
// (Simple polygons that run along several sides and return outside the rectangle: class C08-S1 of known_findings.json was found here.)
static URect g_band_rect = {8, 8, 24, 24};
static Path64 gen_band(Rng& r) {
  const URect& u = g_band_rect;
  int k = (int)r.range(2, 4), s0 = (int)r.range(0, 3);
  int64_t a[4], w[4];
  for (int i = 0; i < 4; ++i) { a[i] = r.range(0, 1) ? 0 : r.range(0, 3); w[i] = r.range(1, 6); }
  auto box = [&](const int64_t* off, int64_t* o) { o[0] = u.l - off[0]; o[1] = u.t - off[1]; o[2] = u.r + off[2]; o[3] = u.b + off[3]; };
  int64_t in[4], oo[4], out[4]; for (int i = 0; i < 4; ++i) oo[i] = a[i] + w[i];
  box(a, in); box(oo, out);
  auto corner = [&](const int64_t* bx, int side) {   // corner between `side` and the next one clockwise (Left, Top, Right, Bottom)
    switch (side & 3) { case 0: return Point64(bx[0], bx[1]); case 1: return Point64(bx[2], bx[1]); case 2: return Point64(bx[2], bx[3]); default: return Point64(bx[0], bx[3]); } };
  auto on_side = [&](const int64_t* bx, int side, int64_t pos) {  // point of the (offset) line of `side` at coordinate pos
    switch (side & 3) { case 0: return Point64(bx[0], pos); case 1: return Point64(pos, bx[1]); case 2: return Point64(bx[2], pos); default: return Point64(pos, bx[3]); } };
  auto pick_pos = [&](int side) { bool horz = (side & 1) == 1; int64_t lo = horz ? u.l : u.t, hi = horz ? u.r : u.b;
    switch (r.range(0, 3)) { case 0: return lo; case 1: return hi; case 2: return r.range(lo - 1, hi + 1); default: return r.range(lo, hi); } };
  int sl = (s0 + k - 1) & 3;
  int64_t p0 = pick_pos(s0), pe = pick_pos(sl);
  Path64 inner, outer;
  inner.push_back(on_side(in, s0, p0)); outer.push_back(on_side(out, s0, p0));
  for (int i = 0; i + 1 < k; ++i) { inner.push_back(corner(in, s0 + i)); outer.push_back(corner(out, s0 + i)); }
  inner.push_back(on_side(in, sl, pe)); outer.push_back(on_side(out, sl, pe));
  if (r.range(0, 3) == 0) {      // bulge: the inner boundary only TOUCHES the corners (mid points pushed outward), no edge along a side
    Path64 in2; in2.push_back(inner[0]);
    for (int i = 0; i + 1 < (int)inner.size(); ++i) {
      int side = (s0 + i) & 3; int64_t d = w[side] >= 2 ? r.range(1, std::min<int64_t>(3, w[side] - 1)) : 0;
      Point64 m((inner[i].x + inner[i + 1].x) / 2, (inner[i].y + inner[i + 1].y) / 2);
      if (side == 0) m.x -= d; else if (side == 1) m.y -= d; else if (side == 2) m.x += d; else m.y += d;
      if (d > 0 && !(m == inner[i]) && !(m == inner[i + 1])) in2.push_back(m);
      in2.push_back(inner[i + 1]);
    }
    inner = in2;
  }
  if (r.range(0, 2) == 0) {      // jog in the outer boundary on its first or last side: the cap end moves 1-3 units towards the inner boundary
    bool first = r.coin(); int side = first ? s0 : sl; bool horz = (side & 1) == 1;
    int64_t lo = horz ? u.l : u.t, hi = horz ? u.r : u.b, jp = r.range(lo, hi);
    int64_t off2[4]; for (int i = 0; i < 4; ++i) off2[i] = oo[i]; off2[side] = a[side] + std::max<int64_t>(1, w[side] - r.range(1, 3));
    int64_t b2[4]; box(off2, b2);
    if (first) { outer[0] = on_side(b2, side, p0); outer.insert(outer.begin() + 1, on_side(b2, side, jp)); outer.insert(outer.begin() + 2, on_side(out, side, jp)); }
    else { outer.back() = on_side(b2, side, pe); size_t n = outer.size(); outer.insert(outer.begin() + (n - 1), on_side(out, side, jp)); outer.insert(outer.begin() + n, on_side(b2, side, jp)); }
  }
  if (r.range(0, 3) == 0) for (auto& q : outer) if (r.range(0, 2) == 0) { q.x += r.range(-1, 1); q.y += r.range(-1, 1); }
  Path64 p = inner; for (size_t i = outer.size(); i-- > 0;) p.push_back(outer[i]);
  if (r.coin()) std::reverse(p.begin(), p.end());
  std::rotate(p.begin(), p.begin() + (size_t)r.range(0, (int64_t)p.size() - 1), p.end());
  return p;
}
static Path64 gen_rand(Rng& r, int nv) { Path64 p; for (int k = 0; k < nv; ++k) p.emplace_back(8 * r.range(0, 4), 8 * r.range(0, 4)); return p; }

typedef std::function<void(const Path64&)> PathSink;
// drives `sink` with the unit-coordinate paths of the family named by the arguments
static void gen_family(const Args& a, Rng& r, bool closed, const PathSink& sink) {
  std::string fam = args(a, "fam", "rand"); long long n = argi(a, "n", 100);
  long long skip = argi(a, "skip", 0), stride = argi(a, "stride", 1);
  int nvlo = (int)argi(a, "nvlo", closed ? 5 : 5), nvhi = (int)argi(a, "nvhi", 7);
  if (fam == "in") {
    std::ifstream in(args(a, "in", "")); std::string line; long long cnt = 0;
    while (std::getline(in, line)) { if (line.empty()) continue; long long c = cnt++; if (c < skip || (c - skip) % stride != 0) continue; JV v = jparse(line); sink(path_from(v["P"])); }
  } else if (fam == "all") {          // every nv-vertex sequence of lattice points, by index (exhaustive when the shards cover 0..25^nv-1)
    int nv = (int)argi(a, "nv", 4); long long tot = pow25(nv);
    for (long long i = skip; i < tot; i += stride) sink(decode_idx(i, nv));
  } else if (fam == "samp") {         // uniform sample of the nv-vertex sequences
    int nv = (int)argi(a, "nv", 4); long long tot = pow25(nv);
    for (long long i = 0; i < n; ++i) sink(decode_idx((long long)(r.next() % (uint64_t)tot), nv));
  } else if (fam == "rand") {
    for (long long i = 0; i < n; ++i) sink(gen_rand(r, (int)r.range(nvlo, nvhi)));
  } else if (fam == "free") {
    for (long long i = 0; i < n; ++i) sink(gen_free(r, (int)r.range(nvlo, nvhi)));
  } else if (fam == "band") {
    for (long long i = 0; i < n; ++i) sink(gen_band(r));
  } else if (fam == "orbit") {
    for (long long i = 0; i < n; ++i) sink(gen_orbit(r, (int)r.range(nvlo, std::max(nvhi, nvlo))));
  } else { fprintf(stderr, "unknown --fam %s\n", fam.c_str()); exit(2); }
}

// ------------------------------------------------------------------ C08: RectClip
// vh rc --fam in|all|samp|rand|orbit --emb E --rect R --batch K --seed S [--in f --nv N --n N --skip k --stride s] --out f
static int cmd_rc(const Args& a) {
  Rng r((uint64_t)argi(a, "seed", 1));
  RcCtx c = make_ctx((int)argi(a, "emb", 0), (int)argi(a, "rect", 0)); g_band_rect = c.ur;
  int K = (int)argi(a, "batch", 3);
  std::ofstream os(args(a, "out", "/dev/stdout"));
  os << fam_event(c, "rc", (int)argi(a, "rect", 0), true) << "\n";
  long long id = 0, ncalls = 0;
  std::vector<Path64> pend_real; Paths64 pend_cat; std::set<std::pair<int64_t, int64_t>> pend_inputs;
  auto flush = [&]() {
    if (pend_real.empty()) return;
    Paths64 all(pend_real.begin(), pend_real.end());
    Paths64 out = RectClip(c.rreal, all); ++ncalls;
    Ev e("Batch"); e.kn("k", (long long)pend_real.size()).kn("eqcat", out == pend_cat ? 1 : 0).kn("n", (long long)out.size())
      .kv("cover", jints(cover_real(c, out))).kv("vm", vm_of(c, out, pend_inputs, true));
    if (!c.emb.coarse) e.kv("raw", jpaths(paths_work(c, out)));
    os << e.str() << "\n";
    pend_real.clear(); pend_cat.clear(); pend_inputs.clear();
  };
  gen_family(a, r, true, [&](const Path64& unit) {
    Path64 w = unit_to_work(c, unit), pr = path_real(c, w);
    Paths64 out = RectClip(c.rreal, Paths64{pr}); ++ncalls;
    std::set<std::pair<int64_t, int64_t>> inputs; for (auto& q : pr) inputs.insert({q.x, q.y});
    std::vector<long long> asg, aq; for (auto& p : out) { asg.push_back(sgn128(area2_of(p))); aq.push_back(area_quot(p)); }
    Ev e("Case"); e.kn("id", ++id).kn("b", K > 0 ? 1 : 0).kv("P", jpath(w)).kn("n", (long long)out.size()).kv("cover", jints(cover_real(c, out)))
      .kv("vm", vm_of(c, out, inputs, true)).kv("asg", jints(asg)).kv("aq", jints(aq)).kn("same", out == Paths64{pr} ? 1 : 0);
    if (!c.emb.coarse) e.kv("raw", jpaths(paths_work(c, out)));
    os << e.str() << "\n";
    if (K > 0) {
      pend_real.push_back(pr); pend_cat.insert(pend_cat.end(), out.begin(), out.end()); for (auto& q : pr) pend_inputs.insert({q.x, q.y});
      if ((int)pend_real.size() >= K) flush();
    }
  });
  flush();
  fprintf(stderr, "cases=%lld calls=%lld\n", id, ncalls);
  return 0;
}
static Reg reg_rc("rc", cmd_rc);

// ------------------------------------------------------------------ C09: RectClipLines
// Every polyline is clipped alone (event Case).  Groups of K polylines are then clipped by multi-path calls on ONE RectClipLines64 object,
// with filler paths mixed in (one-vertex paths inside / on / outside the rectangle, empty paths; each filler is also a Case of its own,
// "fill":1, chosen deterministically from the polyline it follows so that a replay of the group reproduces it):
//   Batch last=0 : o.Execute(all paths of the group, in order)                       idx = 1..n (indices into the group's Cases)
//   Batch last=1 : o.Execute({first in-rectangle one-vertex filler, last polyline, first polyline})  - second Execute on the same object
// with the native relation eqcat = (result == concatenation of the separate results in idx order).
struct LEntry { Path64 real; Paths64 sep; bool fill; bool one_in_rect; };
static Path64 make_filler(const RcCtx& c, Rng& fr, bool force_in_rect) {   // unit coordinates
  const URect& u = c.ur; int t = force_in_rect ? (int)fr.range(0, 1) : (int)fr.range(0, 3);
  switch (t) {
    case 0: return Path64{Point64(fr.range(u.l + 1, u.r - 1), fr.range(u.t + 1, u.b - 1))};                       // strictly inside
    case 1: { int k = (int)fr.range(0, 3);                                                                          // on the boundary
      if (k == 0) return Path64{Point64(u.l, u.t)}; if (k == 1) return Path64{Point64(u.r, fr.range(u.t, u.b))};
      if (k == 2) return Path64{Point64(fr.range(u.l, u.r), u.b)}; return Path64{Point64(u.l, fr.range(u.t, u.b))}; }
    case 2: return Path64{Point64(u.l - fr.range(1, 5), u.t - fr.range(0, 4))};                                    // outside
    default: return Path64();                                                                                       // empty
  }
}
static int cmd_rcl(const Args& a) {
  Rng r((uint64_t)argi(a, "seed", 1));
  RcCtx c = make_ctx((int)argi(a, "emb", 0), (int)argi(a, "rect", 0)); g_band_rect = c.ur;
  int K = (int)argi(a, "batch", 3);
  std::ofstream os(args(a, "out", "/dev/stdout"));
  os << fam_event(c, "rcl", (int)argi(a, "rect", 0), false) << "\n";
  long long id = 0, ncalls = 0;
  std::vector<LEntry> pend; int npoly = 0;
  auto in_rect = [&](const Path64& pr) { return pr.size() == 1 && pr[0].x >= c.rreal.left && pr[0].x <= c.rreal.right && pr[0].y >= c.rreal.top && pr[0].y <= c.rreal.bottom; };
  auto run_one = [&](const Path64& w, bool fill) {
    Path64 pr = path_real(c, w);
    Paths64 out = RectClipLines(c.rreal, Paths64{pr}); ++ncalls;
    Paths64 out1 = RectClipLines(c.rreal, pr);   // single-path overload: must be the same thing
    std::set<std::pair<int64_t, int64_t>> inputs; for (auto& q : pr) inputs.insert({q.x, q.y});
    Ev e("Case"); e.kn("id", ++id).kn("b", K > 0 ? 1 : 0).kn("fill", fill ? 1 : 0).kv("L", jpath(w)).kn("n", (long long)out.size())
      .kv("Q", jpaths(paths_work(c, out))).kv("vm", vm_of(c, out, inputs, false)).kn("eq1", out == out1 ? 1 : 0).kn("same", out == Paths64{pr} ? 1 : 0);
    os << e.str() << "\n";
    if (K > 0) pend.push_back({pr, out, fill, fill && in_rect(pr)});
  };
  auto batch_call = [&](RectClipLines64& o, const std::vector<int>& idx, bool last) {
    Paths64 all, cat; std::set<std::pair<int64_t, int64_t>> inputs;
    for (int i : idx) { const LEntry& le = pend[i - 1]; all.push_back(le.real); cat.insert(cat.end(), le.sep.begin(), le.sep.end()); for (auto& q : le.real) inputs.insert({q.x, q.y}); }
    Paths64 out = o.Execute(all); ++ncalls;
    Ev e("Batch"); e.kv("idx", jintsI(idx)).kn("last", last ? 1 : 0).kn("eqcat", out == cat ? 1 : 0).kn("n", (long long)out.size())
      .kv("Q", jpaths(paths_work(c, out))).kv("vm", vm_of(c, out, inputs, false));
    os << e.str() << "\n";
  };
  auto flush = [&]() {
    if (pend.empty()) return;
    RectClipLines64 o(c.rreal);
    std::vector<int> idx; for (int i = 1; i <= (int)pend.size(); ++i) idx.push_back(i);
    // second Execute on the same object: an in-rectangle one-vertex path first, then the last and the first polyline
    std::vector<int> idx2; int firstpoly = 0, lastpoly = 0;
    for (int i = 1; i <= (int)pend.size(); ++i) { if (pend[i - 1].one_in_rect && idx2.empty()) idx2.push_back(i); if (!pend[i - 1].fill) { if (!firstpoly) firstpoly = i; lastpoly = i; } }
    if (lastpoly) idx2.push_back(lastpoly); if (firstpoly && firstpoly != lastpoly) idx2.push_back(firstpoly);
    batch_call(o, idx, idx2.empty());
    if (!idx2.empty()) batch_call(o, idx2, true);
    pend.clear(); npoly = 0;
  };
  gen_family(a, r, false, [&](const Path64& unit) {
    run_one(unit_to_work(c, unit), false);
    if (K > 0) {
      ++npoly;
      Rng fr(hash_paths(Paths64{unit}) ^ 0x5EEDULL);
      bool first = npoly == 1;
      if (first || fr.range(0, 1) == 0) run_one(unit_to_work(c, make_filler(c, fr, first)), true);
      if (npoly >= K) flush();
    }
  });
  flush();
  fprintf(stderr, "cases=%lld calls=%lld\n", id, ncalls);
  return 0;
}
static Reg reg_rcl("rcl", cmd_rcl);

// ------------------------------------------------------------------ conformance of the design model RectClipFSM.tla
// vh rcfsm --in behaviours.ndjson --rect4 l,t,r,b --out f : every line {"P":..,"ring":..} is a terminated behaviour of the TLA+ automaton
// (K-lattice coordinates); P is replayed into the library and the raw result recorded next to the model's ring.
static int cmd_rcfsm(const Args& a) {
  std::vector<long long> r4 = argl(a, "rect4", "12,12,36,36");
  Rect64 rect(r4[0], r4[1], r4[2], r4[3]);
  std::ifstream in(args(a, "in", "")); std::ofstream os(args(a, "out", "/dev/stdout"));
  long long skip = argi(a, "skip", 0), stride = argi(a, "stride", 1), cnt = 0, id = 0;
  os << Ev("FsmFam").kv("rect", jints(r4)).str() << "\n";
  std::string line;
  while (std::getline(in, line)) {
    if (line.empty()) continue; long long c = cnt++; if (c < skip || (c - skip) % stride != 0) continue;
    JV v = jparse(line); Path64 P = path_from(v["P"]), ring = path_from(v["ring"]);
    Paths64 out = RectClip(rect, Paths64{P});
    os << Ev("Fsm").kn("id", ++id).kv("P", jpath(P)).kv("ring", jpath(ring)).kv("raw", jpaths(out)).str() << "\n";
  }
  fprintf(stderr, "behaviours=%lld\n", id);
  return 0;
}
static Reg reg_rcfsm("rcfsm", cmd_rcfsm);
