// Family "c10": replays the TLC-enumerated degeneracy grammar (spec/GenDegen.tla) against every public entry
// point, one call per forked child, under ASan/UBSan/LSan; optionally enumerates single allocation faults
// (the k-th allocation of the call throws std::bad_alloc, k = 1..N, N counted first).  Events: Call, Return |
// Throw, Destroyed (or a Crash written by the parent) - judged by spec/CallTrace.tla.
#include "common.hpp"
#include "clipper2/clipper.export.h"
#include <new>

#if defined(__has_feature)
#if __has_feature(address_sanitizer)
#define VH_ASAN 1
extern "C" int __lsan_do_recoverable_leak_check();
#endif
#endif

namespace vh_alloc { bool active = false; long count = 0, fail_at = 0; bool reached = false; }
static void* vh_new(size_t n) {
  if (vh_alloc::active) { ++vh_alloc::count; if (vh_alloc::fail_at && vh_alloc::count == vh_alloc::fail_at) { vh_alloc::reached = true; throw std::bad_alloc(); } }
  void* p = malloc(n ? n : 1); if (!p) throw std::bad_alloc(); return p;
}
void* operator new(size_t n) { return vh_new(n); }
void* operator new[](size_t n) { return vh_new(n); }
// a failing nothrow allocation returns nullptr (the standard library falls back, e.g. stable_sort without a buffer): it is an
// allocation point for the fault enumeration, but completing normally after it is legitimate, so it does not set `reached`
static void* vh_new_nothrow(size_t n) noexcept {
  if (vh_alloc::active) { ++vh_alloc::count; if (vh_alloc::fail_at && vh_alloc::count == vh_alloc::fail_at) return nullptr; }
  return malloc(n ? n : 1);
}
void* operator new(size_t n, const std::nothrow_t&) noexcept { return vh_new_nothrow(n); }
void* operator new[](size_t n, const std::nothrow_t&) noexcept { return vh_new_nothrow(n); }
void operator delete(void* p) noexcept { free(p); }
void operator delete[](void* p) noexcept { free(p); }
void operator delete(void* p, const std::nothrow_t&) noexcept { free(p); }
void operator delete[](void* p, const std::nothrow_t&) noexcept { free(p); }
void operator delete(void* p, size_t) noexcept { free(p); }
void operator delete[](void* p, size_t) noexcept { free(p); }

namespace {
volatile size_t sink; volatile double dsink;
struct Mag { int64_t t; };
int64_t mag_t(int m) { static const int64_t t[] = {0, (1LL << 29) - 16, (1LL << 40) - 16, (1LL << 52) - 16, (1LL << 61) - 16, (1LL << 62) - 16}; return t[m]; }
Paths64 embed(const JV& ps, int mag, int flip) { Paths64 r; int64_t t = mag_t(mag); for (auto& p : ps.a) { Path64 q; for (auto& v : p.a) q.emplace_back((int64_t)(flip ? -t - v[0].i() : t + v[0].i()), (int64_t)(t + v[1].i())); r.push_back(q); } return r; }
PathsD toD(const Paths64& ps) { PathsD r; for (auto& p : ps) { PathD q; for (auto& v : p) q.emplace_back(v.x / 128.0, v.y / 128.0); r.push_back(q); } return r; }
template <class T> size_t total(const std::vector<std::vector<T>>& ps) { size_t n = ps.size(); for (auto& p : ps) n += p.size(); return n; }

void do_call(const JV& c) {
  std::string ep = c["ep"].s; int mag = (int)c["mag"].i(); const JV& a = c["a"];
  Paths64 S = embed(c["s"], mag, (int)(c["si"].i() % 2)), C = embed(c["c"], mag, (int)(c["si"].i() % 2));
  Path64 s0 = S.empty() ? Path64() : S[0], c0 = C.empty() ? Path64() : C[0];
  int64_t t = mag_t(mag); if (c["si"].i() % 2) t = -t - 10;
  if (ep == "bool64" || ep == "tree64") {
    Clipper64 cl; if (a[2].i()) cl.AddOpenSubject(S); else cl.AddSubject(S); cl.AddClip(C); Paths64 sol, op;
    if (ep == "bool64") { cl.Execute((ClipType)a[0].i(), (FillRule)a[1].i(), sol, op); sink = total(sol) + total(op); }
    else { PolyTree64 tr; cl.Execute((ClipType)a[0].i(), (FillRule)a[1].i(), tr, op); sink = PolyTreeToPaths64(tr).size(); }
  } else if (ep == "boolD" || ep == "treeD") {
    ClipperD cl(2); if (a[2].i()) cl.AddOpenSubject(toD(S)); else cl.AddSubject(toD(S)); cl.AddClip(toD(C)); PathsD sol, op;
    if (ep == "boolD") { cl.Execute((ClipType)a[0].i(), (FillRule)a[1].i(), sol, op); sink = total(sol); }
    else { PolyTreeD tr; cl.Execute((ClipType)a[0].i(), (FillRule)a[1].i(), tr, op); sink = PolyTreeToPathsD(tr).size(); }
  } else if (ep == "exp_bool64" || ep == "exp_tree64") {
    CPaths64 cs = CreateCPathsFromPathsT(S), cc = CreateCPathsFromPathsT(C), co = nullptr, sol = nullptr, so = nullptr;
    if (ep == "exp_bool64") { sink = BooleanOp64((uint8_t)a[0].i(), (uint8_t)a[1].i(), cs, co, cc, sol, so); }
    else { CPolyTree64 tr = nullptr; sink = BooleanOp_PolyTree64((uint8_t)a[0].i(), (uint8_t)a[1].i(), cs, co, cc, tr, so); sol = tr; }
    if (sol) { sink = (size_t)sol[0]; DisposeArray64(sol); } if (so) DisposeArray64(so); DisposeArray64(cs); DisposeArray64(cc);
  } else if (ep == "exp_boolD") {
    CPathsD cs = CreateCPathsDFromPathsD(toD(S)), cc = CreateCPathsDFromPathsD(toD(C)), co = nullptr, sol = nullptr, so = nullptr;
    sink = BooleanOpD((uint8_t)a[0].i(), (uint8_t)a[1].i(), cs, co, cc, sol, so, 2);
    if (sol) DisposeArrayD(sol); if (so) DisposeArrayD(so); DisposeArrayD(cs); DisposeArrayD(cc);
  } else if (ep == "offset" || ep == "offset_tree" || ep == "offsetD" || ep == "exp_inflate64") {
    static const double ds[] = {0, 3.0, -4.5, 40.0}; double d = ds[a[2].i()];
    if (ep == "offset") { ClipperOffset co; co.AddPaths(S, (JoinType)a[0].i(), (EndType)a[1].i()); Paths64 sol; co.Execute(d, sol); sink = total(sol); }
    else if (ep == "offset_tree") { ClipperOffset co(2.0, 0.25); co.AddPaths(S, (JoinType)a[0].i(), (EndType)a[1].i()); PolyTree64 tr; co.Execute(d, tr); sink = tr.Count(); }
    else if (ep == "offsetD") { sink = total(InflatePaths(toD(S), d, (JoinType)a[0].i(), (EndType)a[1].i(), 2.0, 2, 0.0)); }
    else { CPaths64 cs = CreateCPathsFromPathsT(S); CPaths64 r = InflatePaths64(cs, d, (uint8_t)a[0].i(), (uint8_t)a[1].i(), 2.0, 0.0, false); if (r) DisposeArray64(r); DisposeArray64(cs); }
  } else if (ep == "offseq") {   // Execute into a polytree, destroy the tree, Execute into paths on the same object
    static const double ds[] = {0, 3.0, -4.5, 40.0}; double d = ds[a[2].i()];
    ClipperOffset co; co.AddPaths(S, (JoinType)a[0].i(), (EndType)a[1].i());
    { PolyTree64 tr; co.Execute(d, tr); sink = tr.Count(); }
    Paths64 sol; co.Execute(d, sol); sink = total(sol);
  } else if (ep == "reuse") {    // shared container with open (S) and closed (C) paths, in either order / combined with AddOpenSubject
    ReuseableDataContainer64 rd; Clipper64 cl; int ord = (int)a[2].i();
    if (ord == 0) { rd.AddPaths(S, PathType::Subject, true); rd.AddPaths(C, PathType::Clip, false); }
    else if (ord == 1) { rd.AddPaths(C, PathType::Clip, false); rd.AddPaths(S, PathType::Subject, true); }
    else { cl.AddOpenSubject(S); rd.AddPaths(C, PathType::Clip, false); }
    cl.AddReuseableData(rd); Clipper64 other; other.AddReuseableData(rd);
    Paths64 sol, op; cl.Execute((ClipType)a[0].i(), (FillRule)a[1].i(), sol, op); sink = total(sol) + total(op);
    PolyTree64 tr; other.Execute((ClipType)a[0].i(), (FillRule)a[1].i(), tr, op); sink = tr.Count();
  } else if (ep == "rectclip" || ep == "rectcliplines" || ep == "rectclipD" || ep == "exp_rectclip64" || ep == "exp_rectcliplines64") {
    int rk = (int)a[0].i();   // 4: outer rings and holes of the shapes cross the rectangle's RIGHT side in opposite directions
    Rect64 r = rk == 1 ? Rect64(t + 2, t + 2, t + 7, t + 7) : rk == 2 ? Rect64(t - 100, t - 100, t + 100, t + 100) : rk == 4 ? Rect64(t - 2, t + 0, t + 6, t + 10) : Rect64(t + 5, t + 5, t + 5, t + 5);
    if (ep == "rectclip") sink = total(RectClip(r, S));
    else if (ep == "rectcliplines") sink = total(RectClipLines(r, S));
    else if (ep == "rectclipD") sink = total(RectClip(RectD(r.left / 128.0, r.top / 128.0, r.right / 128.0, r.bottom / 128.0), toD(S), 2));
    else { CPaths64 cs = CreateCPathsFromPathsT(S); CRect64 cr{r.left, r.top, r.right, r.bottom}; CPaths64 res = ep == "exp_rectclip64" ? RectClip64(cr, cs) : RectClipLines64(cr, cs); if (res) DisposeArray64(res); DisposeArray64(cs); }
  } else if (ep == "minksum") sink = total(MinkowskiSum(s0, c0, a[0].i() != 0));
  else if (ep == "minkdiff") sink = total(MinkowskiDiff(s0, c0, a[0].i() != 0));
  else if (ep == "exp_minksum64" || ep == "exp_minkdiff64") {
    CPaths64 cs = CreateCPathsFromPathsT(Paths64{s0}), cc = CreateCPathsFromPathsT(Paths64{c0});
    CPath64 ps = cs + 2, pc = cc + 2;   // a CPath64 is the [N, 0, coords...] record inside the CPaths array
    CPaths64 r = nullptr;
    if (!s0.empty() && !c0.empty()) r = ep == "exp_minksum64" ? MinkowskiSum64(ps, pc, a[0].i() != 0) : MinkowskiDiff64(ps, pc, a[0].i() != 0);
    if (r) DisposeArray64(r); DisposeArray64(cs); DisposeArray64(cc);
  } else if (ep == "trim") { sink = TrimCollinear(s0, a[0].i() % 2 != 0).size(); }
  else if (ep == "simplify") { static const double eps[] = {0, 0.5, 2, 1e9}; sink = SimplifyPath(s0, eps[a[0].i()], true).size() + SimplifyPaths(S, eps[a[0].i()], false).size(); }
  else if (ep == "rdp") { static const double eps[] = {0, 0.5, 2, 1e9}; sink = RamerDouglasPeucker(s0, eps[a[0].i()]).size() + RamerDouglasPeucker(S, eps[a[0].i()]).size(); }
  else if (ep == "strip") { Path64 p = s0; StripDuplicates(p, a[0].i() % 2 != 0); sink = p.size() + StripNearEqual(s0, 2.0, a[0].i() % 2 != 0).size(); }
  else if (ep == "pip") { sink = (size_t)PointInPolygon(Point64(t + 3, t + 3), s0) + (size_t)PointInPolygon(s0.empty() ? Point64(0, 0) : s0[0], s0); }
  // (misc: not Rect::Width() - the bounds of a point-less path set are the inverted extreme rectangle by design)
  else if (ep == "misc") { dsink = Area(S) + Length(s0, true) + [&]{ Rect64 bb = GetBounds(S); return (double)bb.left + (double)bb.right + (double)bb.top + (double)bb.bottom; }(); sink = Ellipse(Rect64(t, t, t + 20 * (a[0].i() + 0), t + 10)).size() + TranslatePath(s0, (int64_t)5, (int64_t)-5).size() + (size_t)IsPositive(s0); }
}

// runs one call in a child; fault = 0 none, > 0 fail the k-th allocation, < 0 count allocations (writes a Count event)
bool one_call(std::ostream& os, const std::string& line, long long id, long fault) {
  std::string what = "\"id\":" + jnum(id) + ",\"fault\":" + jnum(fault) + ",\"case\":" + line;
  auto body = [&](std::ostream& o) {
    JV c = jparse(line);
    if (fault >= 0) o << Ev("Call").kn("id", id).kn("fault", fault).ks("ep", c["ep"].s).kn("si", c["si"].i()).kn("ci", c["ci"].i()).kn("mag", c["mag"].i()).kv("a", jarr(c["a"].a.begin(), c["a"].a.end(), [](const JV& v) { return jnum(v.i()); })).str() << "\n";
    std::string thrown;
    vh_alloc::count = 0; vh_alloc::fail_at = fault > 0 ? fault : 0; vh_alloc::reached = false;
    try { vh_alloc::active = true; do_call(c); vh_alloc::active = false; }
    catch (const std::bad_alloc&) { vh_alloc::active = false; thrown = "bad_alloc"; }
    catch (const std::exception& e) { vh_alloc::active = false; thrown = std::string("exception:") + e.what(); }
    catch (...) { vh_alloc::active = false; thrown = "unknown"; }
    if (fault < 0) { o << Ev("Count").kn("id", id).kn("n", vh_alloc::count).str() << "\n"; return; }
    if (thrown.empty()) o << Ev("Return").kn("id", id).kn("reached", vh_alloc::reached).str() << "\n"; else o << Ev("Throw").kn("id", id).ks("what", thrown).str() << "\n";
    long long leak = 0;
#ifdef VH_ASAN
    leak = __lsan_do_recoverable_leak_check();
#endif
    o << Ev("Destroyed").kn("id", id).kn("leak", leak).str() << "\n";
  };
  // watchdog 30 s (unchanged tree: < 0.1 s per call); a call killed by the watchdog is re-run once with 300 s before it counts,
  // so that a heavily loaded machine cannot turn into a verdict
  std::ostringstream first; bool ok = guarded(first, what, 30, body);
  if (!ok && first.str().find("\"sig\":14") != std::string::npos) { std::ostringstream second; ok = guarded(second, what, 300, body); os << second.str(); }
  else os << first.str();
  return ok;
}

// vh c10 --in calls.ndjson --skip k --stride n [--faults 1 --maxfault 400] --out file
int cmd_c10(const Args& a) {
  std::ifstream in(args(a, "in", "")); std::ofstream os(args(a, "out", "/dev/stdout")); std::string line;
  long long skip = argi(a, "skip", 0), stride = argi(a, "stride", 1), cnt = 0, id = 0, ncalls = 0, nfault = 0; bool faults = argi(a, "faults", 0) != 0; long maxfault = argi(a, "maxfault", 400);
  while (std::getline(in, line)) {
    if (line.empty() || (cnt++ % stride) != skip) continue;
    if (!faults) { one_call(os, line, ++id, 0); ++ncalls; continue; }
    std::ostringstream cs; one_call(cs, line, ++id, -1);
    std::string c = cs.str(); size_t p = c.find("\"n\":"); if (p == std::string::npos) { os << c; continue; }   // the counting run itself crashed: reported as Crash
    long n = atol(c.c_str() + p + 4); ++ncalls;
    long only = argi(a, "onlyfault", 0);
    for (long k = 1; k <= std::min(n, maxfault); ++k) { if (only > 0 && k != only) continue; one_call(os, line, ++id, k); ++nfault; }
  }
  fprintf(stderr, "calls=%lld faultruns=%lld\n", ncalls, nfault);
  return 0;
}
Reg reg_c10("c10", cmd_c10);
}  // namespace
