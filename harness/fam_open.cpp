// Family "open" (C05): closed general-position subject/clip + open polylines, all clip types x fill rules,
// paths and tree execution.  Records the closed solution with and without the open subjects and the raw
// open solution; OpenTrace.tla judges.
#include "boolcommon.hpp"
namespace {
struct OReg { std::vector<Paths64> outs; std::ostream* os;
  int get(const Paths64& sol) { for (size_t k = 0; k < outs.size(); ++k) if (outs[k] == sol) return (int)k + 1; outs.push_back(sol); (*os) << Ev("OOut").kn("k", (long long)outs.size()).kv("paths", jpaths(sol)).str() << "\n"; return (int)outs.size(); } };

int cmd_open(const Args& a) {
  Rng r((uint64_t)argi(a, "seed", 1)); long long n = argi(a, "n", 10); int R = (int)argi(a, "R", 48), npts = (int)argi(a, "npts", 80);
  std::ofstream os(args(a, "out", "/dev/stdout")); long long nexec = 0, id = 0;
  std::string inf = args(a, "in", ""); std::ifstream in(inf); std::string line;
  for (long long b = 0; b < n || !inf.empty(); ++b) {
    Paths64 S, C, O;
    if (!inf.empty()) { if (!std::getline(in, line)) break; JV v = jparse(line); S = paths_from(v["subj"]); C = paths_from(v["clip"]); O = paths_from(v["open"]); }
    else {
      if (!gen_gps(r, R, 2, 6, S, C)) continue;
      if (r.range(0, 5) == 0) C.clear();
      int no = (int)r.range(1, 3);
      for (int i = 0; i < no; ++i) { Path64 p; int nv = (int)r.range(2, 5); for (int k = 0; k < nv; ++k) { Point64 q((int64_t)r.range(-4, R + 4), (int64_t)r.range(-4, R + 4)); if (p.empty() || !(p.back() == q)) p.push_back(q); } if (p.size() >= 2) O.push_back(p); }
      if (O.empty()) continue;
    }
    Paths64 all = S; all.insert(all.end(), C.begin(), C.end());
    Rng pr(hash_paths(all) ^ r.s); std::vector<Point64> pts; std::set<std::pair<int64_t, int64_t>> seen;
    while ((int)pts.size() < npts) { Point64 c((int64_t)pr.range(-4, R + 4), (int64_t)pr.range(-4, R + 4)); if (seen.insert({c.x, c.y}).second) pts.push_back(c); }
    ++id;
    std::string what = "\"case\":{\"subj\":" + jpaths(S) + ",\"clip\":" + jpaths(C) + ",\"open\":" + jpaths(O) + ",\"emb\":0}";
    guarded(os, what, 120, [&](std::ostream& os) {
    os << Ev("Case").kn("id", id).ks("fam", "open").kn("emb", 0).kn("ps", 1).kv("subj", jpaths(S)).kv("clip", jpaths(C)).kv("open", jpaths(O)).kv("pts", jpath(pts)).str() << "\n";
    OutReg reg; reg.emb = &emb_table()[0]; reg.pts = &pts; reg.ps = 1; reg.os = &os;
    OReg oreg; oreg.os = &os; Paths64 none;
    for (int ct = 0; ct <= 4; ++ct) for (int fr = 0; fr <= 3; ++fr) for (int pc = 0; pc <= 1; ++pc) for (int tree = 0; tree <= 1; ++tree) {
      if (ct == 0 && (fr || pc)) continue;
      // the tree execution is the SECOND Execute on the clipper that already executed into paths (no Clear in between)
      ExecRes w; PolyTree64 t;
      if (!tree) w = run_exec(S, O, C, ct, fr, pc, 0, nullptr);
      else { Clipper64 c; c.PreserveCollinear(pc != 0); if (!S.empty()) c.AddSubject(S); c.AddOpenSubject(O); if (!C.empty()) c.AddClip(C);
             Paths64 tmpc, tmpo; c.Execute((ClipType)ct, (FillRule)fr, tmpc, tmpo); w.ok = c.Execute((ClipType)ct, (FillRule)fr, t, w.open); w.closed = PolyTreeToPaths64(t); ++nexec; }
      ExecRes wo = run_exec(S, none, C, ct, fr, pc, 0, nullptr); nexec += 2;
      int k = reg.get(w.closed), k0 = reg.get(wo.closed), ko = oreg.get(w.open);
      os << Ev("OExec").kn("ct", ct).kn("fr", fr).kn("pc", pc).kn("rs", 0).kn("tree", tree).kn("ok", w.ok).kn("k", k).kn("k0", k0).kn("ko", ko).str() << "\n";
      if (!tree && ct != 0) {   // the closed-only overload Execute(ct, fr, closed) on a clipper that also holds open subjects
        Clipper64 c; c.PreserveCollinear(pc != 0); if (!S.empty()) c.AddSubject(S); c.AddOpenSubject(O); if (!C.empty()) c.AddClip(C);
        Paths64 only; bool ok3 = c.Execute((ClipType)ct, (FillRule)fr, only); ++nexec;
        os << Ev("OExec").kn("ct", ct).kn("fr", fr).kn("pc", pc).kn("rs", 0).kn("tree", 2).kn("ok", ok3).kn("k", reg.get(only)).kn("k0", k0).kn("ko", ko).kn("noopen", 1).str() << "\n";
      }
    }
    });
  }
  fprintf(stderr, "cases=%lld execs=%lld\n", id, nexec);
  return 0;
}
Reg reg_open("open", cmd_open);
}
