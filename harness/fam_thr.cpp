// Family "thr" (C14): replays TLC-enumerated schedules (spec/Threads.tla) on real threads under a cooperative
// scheduler that releases exactly one thread per yield point (hooks CLIPPER2_VERIF_YIELD), and free-running
// programs on a ThreadSanitizer build.  Every thread's results are compared bit for bit with the sequential run.
#include "boolcommon.hpp"
#include "clipper2/clipper.offset.h"
#include "clipper2/clipper.rectclip.h"
#include "clipper2/clipper.minkowski.h"
#include "clipper2/clipper.verif.h"
#include <condition_variable>
#include <mutex>
#include <thread>
#include <atomic>
namespace {
struct World {
  Paths64 A, B, C, L; Path64 pat, pth; ReuseableDataContainer64 reuse;
  explicit World(Rng& r) {
    auto poly = [&](int n, int R) { Path64 p; for (int i = 0; i < n; ++i) p.emplace_back((int64_t)r.range(0, R), (int64_t)r.range(0, R)); return p; };
    for (int i = 0; i < 3; ++i) A.push_back(poly((int)r.range(4, 9), 200));
    // a staircase with collinear vertices on its horizontal treads (horizontal trimming must not touch the shared vertices)
    A.push_back(Path64{{10, 10}, {60, 10}, {110, 10}, {110, 60}, {150, 60}, {190, 60}, {190, 190}, {100, 190}, {10, 190}, {10, 100}});
    for (int i = 0; i < 2; ++i) B.push_back(poly((int)r.range(4, 8), 200));
    for (int i = 0; i < 2; ++i) C.push_back(poly((int)r.range(3, 7), 200));
    for (int i = 0; i < 3; ++i) L.push_back(poly((int)r.range(2, 6), 200));
    pat = poly(4, 20); pth = poly(6, 150);
    reuse.AddPaths(A, PathType::Subject, false); reuse.AddPaths(C, PathType::Clip, false);
  }
};
typedef std::vector<Paths64> Out;
Paths64 bitsD(const PathsD& ps) { Paths64 r; for (auto& p : ps) { Path64 q; for (auto& v : p) { int64_t a, b; memcpy(&a, &v.x, 8); memcpy(&b, &v.y, 8); q.emplace_back(a, b); } r.push_back(q); } return r; }
Out run_program(int prog, World& w) {
  Out o;
  switch (prog) {
    case 7: case 8: { ClipperD c(prog == 7 ? 1 : 5); PathsD a, b; for (auto& p : w.A) { PathD q; for (auto& v : p) q.emplace_back(v.x * 0.5, v.y * 0.5); a.push_back(q); } for (auto& p : w.B) { PathD q; for (auto& v : p) q.emplace_back(v.x * 0.5, v.y * 0.5); b.push_back(q); }
              c.AddSubject(a); c.AddClip(b); PolyTreeD t; c.Execute(ClipType::Union, FillRule::NonZero, t); o.push_back(bitsD(PolyTreeToPathsD(t))); PolyTreeD t2; c.Execute(ClipType::Xor, FillRule::EvenOdd, t2); o.push_back(bitsD(PolyTreeToPathsD(t2))); break; }
    case 9: { Clipper64 c; c.PreserveCollinear(false); c.AddReuseableData(w.reuse); Paths64 s; c.Execute(ClipType::Union, FillRule::NonZero, s); o.push_back(s); c.Execute(ClipType::Difference, FillRule::EvenOdd, s); o.push_back(s); break; }
    case 1: { Clipper64 c; c.AddReuseableData(w.reuse); c.AddSubject(w.B); Paths64 s; c.Execute(ClipType::Xor, FillRule::EvenOdd, s); o.push_back(s); PolyTree64 t; Paths64 op; c.Execute(ClipType::Intersection, FillRule::NonZero, t, op); o.push_back(PolyTreeToPaths64(t)); break; }
    case 2: { ClipperOffset co; co.AddPaths(w.A, JoinType::Round, EndType::Polygon); co.AddPaths(w.L, JoinType::Miter, EndType::Square); Paths64 s; co.Execute(7.5, s); o.push_back(s); co.Execute(-3.0, s); o.push_back(s); break; }
    case 3: { RectClip64 rc(Rect64(40, 40, 160, 160)); o.push_back(rc.Execute(w.A)); o.push_back(rc.Execute(w.B)); RectClipLines64 rl(Rect64(40, 40, 160, 160)); o.push_back(rl.Execute(w.L)); break; }
    case 4: { o.push_back(MinkowskiSum(w.pat, w.pth, true)); o.push_back(MinkowskiDiff(w.pat, w.pth, false)); break; }
    case 5: { ClipperD c(3); PathsD a, b; for (auto& p : w.A) { PathD q; for (auto& v : p) q.emplace_back(v.x * 0.125, v.y * 0.125); a.push_back(q); } for (auto& p : w.C) { PathD q; for (auto& v : p) q.emplace_back(v.x * 0.125, v.y * 0.125); b.push_back(q); }
              c.AddSubject(a); c.AddClip(b); PathsD s; c.Execute(ClipType::Difference, FillRule::NonZero, s); o.push_back(bitsD(s)); o.push_back(bitsD(InflatePaths(a, 1.5, JoinType::Square, EndType::Polygon, 2.0, 3))); break; }
    case 6: { Clipper64 c; c.AddReuseableData(w.reuse); c.AddOpenSubject(w.L); Paths64 s, op; c.Execute(ClipType::Intersection, FillRule::Positive, s, op); o.push_back(s); o.push_back(op); o.push_back(Union(w.A, w.B, FillRule::Negative)); break; }
  }
  return o;
}

struct Scheduler {
  std::mutex m; std::condition_variable cv; std::vector<int> sched; size_t pos = 0; std::vector<bool> finished; std::vector<long long> ran;
  void skip() { while (pos < sched.size() && finished[sched[pos] - 1]) ++pos; }
  void wait_turn(int tid) { std::unique_lock<std::mutex> lk(m); cv.wait(lk, [&] { skip(); return pos >= sched.size() || sched[pos] == tid; }); }
  void segment_done(int tid) { { std::lock_guard<std::mutex> lk(m); skip(); if (pos < sched.size() && sched[pos] == tid) { ++pos; ++ran[tid - 1]; } } cv.notify_all(); }
  void finish(int tid) { { std::lock_guard<std::mutex> lk(m); skip(); if (pos < sched.size() && sched[pos] == tid) { ++pos; ++ran[tid - 1]; } finished[tid - 1] = true; } cv.notify_all(); }
};
Scheduler* g_sched = nullptr; thread_local int t_tid = 0;
void yield_cb(int) { if (!g_sched || !t_tid) return; g_sched->segment_done(t_tid); g_sched->wait_turn(t_tid); }

// vh thr --mode sched --in schedules.ndjson --progs 1,2 --nseg 6 --seed S --out file     |   --mode free --threads 8 --iters 20
int cmd_thr(const Args& a) {
  Rng r((uint64_t)argi(a, "seed", 1)); World w(r); std::string mode = args(a, "mode", "sched");
  std::ofstream os(args(a, "out", "/dev/stdout")); std::vector<long long> progs = argl(a, "progs", "1,2");
  std::map<int, Out> seq; for (int p = 1; p <= 9; ++p) seq[p] = run_program(p, w);
  if (mode == "sched") {
    std::ifstream in(args(a, "in", "")); std::string line; int ncrash = 0; long long nsched = 0, skip = argi(a, "skip", 0), stride = argi(a, "stride", 1), cnt = 0; int nseg = (int)argi(a, "nseg", 6);
    while (std::getline(in, line)) {
      if (line.empty() || (cnt++ % stride) != skip) continue; JV s = jparse(line); ++nsched;
      std::string what = "\"case\":{\"sched\":" + line + ",\"progs\":" + jints(progs) + "}";
      if (ncrash >= 3) break;    // the runs keep dying: a few Crash events are enough, do not spend a watchdog period on every schedule
      bool ok = guarded(os, what, 30, [&](std::ostream& o) {
        Rng rp((uint64_t)argi(a, "seed", 1)); World w(rp);   // a FRESH world (same data): the shared container has not been used by anybody yet
        Scheduler sc; for (auto& v : s.a) sc.sched.push_back((int)v.i()); int nt = (int)progs.size(); sc.finished.assign(nt, false); sc.ran.assign(nt, 0); g_sched = &sc;
        std::vector<Out> res(nt); std::vector<std::thread> th;
        for (int t = 1; t <= nt; ++t) th.emplace_back([&, t] { t_tid = t; Clipper2Lib::verif::yield_fn = yield_cb; sc.wait_turn(t); res[t - 1] = run_program((int)progs[t - 1], w); Clipper2Lib::verif::yield_fn = nullptr; sc.finish(t); });
        for (auto& x : th) x.join(); g_sched = nullptr;
        std::vector<long long> eq; for (int t = 0; t < nt; ++t) eq.push_back(res[t] == seq[(int)progs[t]]);
        o << Ev("Sched").kn("nt", nt).kn("nseg", nseg).kv("progs", jints(progs)).kv("sched", line).kv("eq", jints(eq)).kv("ran", jints(sc.ran)).str() << "\n";
      });
      if (!ok) ++ncrash;
    }
    fprintf(stderr, "schedules=%lld\n", nsched);
  } else {
    int nthreads = (int)argi(a, "threads", 8), iters = (int)argi(a, "iters", 20), rounds = (int)argi(a, "rounds", 4);
    for (int rd = 0; rd < rounds; ++rd) {
      // not forked: ThreadSanitizer stops analysing in a child forked from a process that already runs its background thread.
      // A TSan report halts this process with exit code 66; the driver turns that into a Crash event.
      std::ostream& o = os;
      Rng rp((uint64_t)argi(a, "seed", 1)); World w(rp);     // a FRESH world per round (first use of the shared container happens concurrently)
      std::vector<long long> eq(nthreads, 1); std::vector<std::thread> th; std::atomic<int> go{0};
      for (int t = 0; t < nthreads; ++t) th.emplace_back([&, t] { while (!go.load()) std::this_thread::yield(); for (int i = 0; i < iters; ++i) { int p = 1 + (t + i + rd) % 9; if (!(run_program(p, w) == seq[p])) eq[t] = 0; } });
      go.store(1); for (auto& x : th) x.join();
      o << Ev("Free").kn("nthreads", nthreads).kn("iters", iters).kv("eq", jints(eq)).str() << "\n"; o.flush();
    }
  }
  return 0;
}
Reg reg_thr("thr", cmd_thr);
}
