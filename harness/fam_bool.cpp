// Family "bool": closed subject/clip inputs x all configurations, for BoolTrace.tla
// (C01 cover, C02 cells, C03 well-formedness, C04 tree, C11 success).
#include "boolcommon.hpp"
#include "clipper2/clipper.verif.h"

static std::vector<Point64> sample_pts(Rng& r, const Paths64& all, bool rect, int npts, int& ps) {
  int64_t lx = 1 << 30, ly = 1 << 30, hx = -(1 << 30), hy = -(1 << 30);
  for (auto& p : all) for (auto& q : p) { lx = std::min(lx, q.x); hx = std::max(hx, q.x); ly = std::min(ly, q.y); hy = std::max(hy, q.y); }
  std::vector<Point64> pts;
  if (hx < lx) { ps = 1; pts.emplace_back(0, 0); return pts; }
  if (rect && (hx - lx) * (hy - ly) <= 400) {           // every unit cell centre, doubled coordinates
    ps = 2;
    for (int64_t i = lx; i < hx; ++i) for (int64_t j = ly; j < hy; ++j) pts.emplace_back(2 * i + 1, 2 * j + 1);
    // plus a ring of outside cells
    for (int64_t i = lx - 1; i <= hx; ++i) { pts.emplace_back(2 * i + 1, 2 * ly - 1); pts.emplace_back(2 * i + 1, 2 * hy + 1); }
    for (int64_t j = ly; j < hy; ++j) { pts.emplace_back(2 * lx - 1, 2 * j + 1); pts.emplace_back(2 * hx + 1, 2 * j + 1); }
    return pts;
  }
  ps = 1;
  std::set<std::pair<int64_t, int64_t>> seen;
  auto add = [&](int64_t x, int64_t y) { if (seen.insert({x, y}).second) pts.emplace_back(x, y); };
  // near every input vertex (features start there), then uniformly random integer points
  for (auto& p : all) for (auto& q : p) if ((int)pts.size() < npts / 2) add(q.x + r.range(-6, 6), q.y + r.range(-6, 6));
  int guard = 0;
  while ((int)pts.size() < npts && guard++ < 100000) add(r.range(lx - 4, hx + 4), r.range(ly - 4, hy + 4));
  return pts;
}

static void run_case_body(std::ostream& os, uint64_t s0, long long id, const std::string& fam, const Paths64& S, const Paths64& C,
                     const Emb& emb, int npts, const std::string& cfg, bool reunion, long long& nexec);
static void run_case(std::ostream& os, uint64_t s0, long long id, const std::string& fam, const Paths64& S, const Paths64& C,
                     const Emb& emb, int npts, const std::string& cfg, bool reunion, long long& nexec) {
  std::string what = "\"case\":{\"subj\":" + jpaths(S) + ",\"clip\":" + jpaths(C) + ",\"emb\":" + jnum(emb.id) + "}";
  guarded(os, what, 120, [&](std::ostream& o) { run_case_body(o, s0, id, fam, S, C, emb, npts, cfg, reunion, nexec); });
  nexec += ((cfg == "lite" || cfg == "batchlite") ? 16 : 64) * (cfg == "notree" ? 1 : 2);   // executions happen in the child; count nominally
}
static long long g_nsplit = 0; static void split_cb(int tree, long long) { if (tree) ++g_nsplit; }
static bool g_loose = false, g_gpcert = false, g_xtra = false, g_light = false; static std::vector<int> g_cts, g_frs;
// small extra subject triangles, far to the right of the input, one vertex of each placed k units (|k| <= 9) above / below the y of a
// crossing of two embedded input edges: unrelated geometry that puts a scanline right next to an intersection point
static void add_extras(Rng& pr, const Paths64& S, const Paths64& C, const Emb& emb, Paths64& ES, std::vector<std::vector<long long>>& boxes) {
  if (emb.m < 16) return;
  Paths64 all = S; all.insert(all.end(), C.begin(), C.end());
  int64_t bbR = -(1 << 30); for (auto& p : all) for (auto& q : p) bbR = std::max(bbR, q.x);
  auto E = tag_edges(all); std::vector<std::pair<i128, i128>> ys;   // crossing y as num/den at lattice level
  for (size_t i = 0; i < E.size(); ++i) for (size_t j = i + 1; j < E.size(); ++j) if (proper_cross(E[i], E[j])) {
    const Point64 &a = E[i].a, &b = E[i].b, &c = E[j].a, &d = E[j].b;
    i128 den = (i128)(b.x - a.x) * (d.y - c.y) - (i128)(b.y - a.y) * (d.x - c.x), num = (i128)(c.x - a.x) * (d.y - c.y) - (i128)(c.y - a.y) * (d.x - c.x);
    if (den < 0) { den = -den; num = -num; }
    ys.push_back({(i128)a.y * den + (i128)(b.y - a.y) * num, den}); }
  for (int t = 0; t < 3 && !ys.empty(); ++t) {
    auto yc = ys[pr.next() % ys.size()];
    // embedded y of the crossing: m * (num/den) + ty, floored; then k units off
    i128 ye = ((i128)emb.m * yc.first) / yc.second + emb.ty; int64_t yk = (int64_t)ye + pr.range(-9, 9);
    int64_t lx = bbR + 6 + 12 * t; bool up = pr.coin();
    int64_t X0 = emb.m * lx + emb.tx, w = emb.m * 2, h = emb.m * 3;
    Path64 tri = up ? Path64{{X0, yk + h}, {X0 + w, yk}, {X0 + 2 * w, yk + h - emb.m}} : Path64{{X0, yk - h}, {X0 + 2 * w, yk - h + emb.m}, {X0 + w, yk}};
    ES.push_back(tri);
    int64_t yl = floordiv(yk - emb.ty, emb.m);
    boxes.push_back({lx - 1, yl - 5, lx + 5, yl + 6});
  }
}
static void run_case_body(std::ostream& os, uint64_t s0, long long id, const std::string& fam, const Paths64& S, const Paths64& C,
                     const Emb& emb, int npts, const std::string& cfg, bool reunion, long long& nexec) {
  Paths64 all = S; all.insert(all.end(), C.begin(), C.end());
  bool rect = rectilinear(all);
  Rng pr(hash_paths(all) ^ s0);   // per-case stream: a replay of this single case (same --seed) picks the same points
  int ps = 1; std::vector<Point64> pts = sample_pts(pr, all, rect, npts, ps);
  Ev ce("Case"); ce.kn("id", id).ks("fam", fam).kn("emb", emb.id).kn("ps", ps).kv("subj", jpaths(S)).kv("clip", jpaths(C)).kv("pts", jpath(pts));
  if (g_loose) ce.kn("nogp", 1).kn("loose", 1);
  else if (g_gpcert) ce.kn("gpcert", gp_native(all, 3) ? 1 : 0);
  if (g_light || g_loose) ce.kn("light", 1);
  Paths64 ES = emb_paths(emb, S), EC = emb_paths(emb, C), none;
  std::vector<std::vector<long long>> boxes;
  if (g_xtra && !rect) { add_extras(pr, S, C, emb, ES, boxes); if (!boxes.empty()) ce.kv("extra", jarr(boxes.begin(), boxes.end(), [](const std::vector<long long>& b) { return jints(b); })); }
  os << ce.str() << "\n";
  OutReg reg; reg.emb = &emb; reg.pts = &pts; reg.ps = ps; reg.os = &os;
  std::set<int> reunioned;
  std::vector<int> cts = {1, 2, 3, 4}, frs = {0, 1, 2, 3}, pcs = {0, 1}, rss = {0, 1};
  if (cfg == "lite" || cfg == "batchlite") { pcs = {0}; rss = {0}; }
  if (!g_cts.empty()) { cts.assign(g_cts.begin(), g_cts.end()); } if (!g_frs.empty()) { frs.assign(g_frs.begin(), g_frs.end()); }
  bool first = true; const bool batch = cfg == "batch" || cfg == "batchlite"; std::vector<std::string> xs;
  PolyTree64 tree;   // ONE tree object reused for every tree execution of the case (Execute must clear it itself)
  auto exec_ev = [&](int ct, int fr, int pc, int rs, int tree, bool ok, int k) {
    if (batch) xs.push_back(jints({ct, fr, pc, rs, tree, ok, k}));
    else os << Ev("Exec").kn("ct", ct).kn("fr", fr).kn("pc", pc).kn("rs", rs).kn("tree", tree).kn("ok", ok).kn("k", k).str() << "\n";
  };
  // about every second case executes all its configurations into Paths64 on ONE clipper object (the postcondition of an Execute does not
  // depend on how many Executes went before it); the other cases, and all tree executions, use a fresh object per call
  const bool reuse_obj = (hash_paths(all) >> 7) % 2 == 0;   /* a property of the input, so that the replay of a single case behaves the same */ Clipper64 shared; if (reuse_obj) { if (!ES.empty()) shared.AddSubject(ES); if (!EC.empty()) shared.AddClip(EC); }
  for (int ct : cts) for (int fr : frs) for (int pc : pcs) for (int rs : rss) {
    ExecRes p;
    if (reuse_obj) { shared.PreserveCollinear(pc != 0); shared.ReverseSolution(rs != 0); p.ok = shared.Execute((ClipType)ct, (FillRule)fr, p.closed, p.open); }
    else p = run_exec(ES, none, EC, ct, fr, pc, rs, nullptr);
    ++nexec;
    int k = reg.get(p.closed);
    exec_ev(ct, fr, pc, rs, 0, p.ok, k);
    if (cfg != "notree") {
      ExecRes t = run_exec(ES, none, EC, ct, fr, pc, rs, &tree); ++nexec;
      int kt = reg.get(t.closed);
      exec_ev(ct, fr, pc, rs, 1, t.ok, kt);
      Paths64 nodes; std::vector<long long> par; flatten_tree(tree, 0, nodes, par);
      Paths64 lat;
      if (!batch && unemb_paths(emb, nodes, lat) && lat.size() <= 40)
        os << Ev("Tree").kn("ct", ct).kn("fr", fr).kn("pc", pc).kn("rs", rs).kn("ok", t.ok).kn("k", k).kn("openeq", p.open == t.open).kv("nodes", jpaths(lat)).kv("par", jints(par)).str() << "\n";
    }
    if (reunion && emb.m == 1 && !reunioned.count(k * 4 + pc * 2 + rs)) {
      reunioned.insert(k * 4 + pc * 2 + rs);
      Clipper64 c; c.PreserveCollinear(pc); c.ReverseSolution(rs); c.AddSubject(p.closed);
      Paths64 again; c.Execute(ClipType::Union, FillRule::NonZero, again); ++nexec;
      int k2 = reg.get(again);
      os << Ev("ReUnion").kn("k", k).kn("k2", k2).kn("pc", pc).kn("rs", rs).str() << "\n";
    }
    if (first) {   // NoClip once per case (C11)
      first = false;
      ExecRes z = run_exec(ES, none, EC, 0, fr, pc, rs, nullptr); ++nexec;
      exec_ev(0, fr, pc, rs, 0, z.ok, reg.get(z.closed));
      { // NoClip as the FIRST Execute of a clipper fed through a ReuseableDataContainer64
        ReuseableDataContainer64 rd; rd.AddPaths(ES, PathType::Subject, false); rd.AddPaths(EC, PathType::Clip, false);
        Clipper64 c2; c2.AddReuseableData(rd); Paths64 s2; bool ok2 = c2.Execute(ClipType::NoClip, (FillRule)fr, s2); ++nexec;
        exec_ev(0, fr, 1, 0, 0, ok2, reg.get(s2)); }
    }
  }
  if (batch) os << Ev("Execs").kv("x", jarr(xs.begin(), xs.end(), [](const std::string& t) { return t; })).str() << "\n";
}

// vh bool --fam gps|ladder|walk|in --seed S --n N --emb 0,1 --npts 200 --cfg full|lite|notree --reunion 0|1 --in file --out file
static int cmd_bool(const Args& a) {
  Rng r((uint64_t)argi(a, "seed", 1)); const uint64_t s0 = r.s;
  std::string fam = args(a, "fam", "gps"), cfg = args(a, "cfg", "full");
  long long n = argi(a, "n", 10); int npts = (int)argi(a, "npts", 200); bool reunion = argi(a, "reunion", 0) != 0;
  int R = (int)argi(a, "R", 48);
  std::vector<long long> embs = argl(a, "emb", "0");
  std::ofstream os(args(a, "out", "/dev/stdout"));
  long long nexec = 0, ncase = 0;
  const int64_t mul = argi(a, "mul", 1);
  auto emit = [&](Paths64 S, Paths64 C) { if (mul != 1) { for (auto* ps : {&S, &C}) for (auto& p : *ps) for (auto& q : p) { q.x *= mul; q.y *= mul; } } for (long long e : embs) run_case(os, s0, ++ncase, fam, S, C, emb_table()[e], npts, cfg, reunion, nexec); };
  Paths64 S, C;
  g_gpcert = argi(a, "gpcert", 0) != 0; g_xtra = argi(a, "xtra", 0) != 0; g_light = argi(a, "light", 0) != 0;
  for (long long v : argl(a, "cts", "")) g_cts.push_back((int)v); for (long long v : argl(a, "frs", "")) g_frs.push_back((int)v);
  gp_filter_t() = (int)argi(a, "gpt", 3); g_loose = gp_filter_t() == 0;
  // needsplit: keep only inputs for which some tree execution splits a self-intersecting output ring (hook H4 split_fn): the Layer-2
  // hook as a search director for the rare inputs whose contours pinch after rounding
  const bool needsplit = argi(a, "needsplit", 0) != 0;
  auto splits_in_tree = [&](const Paths64& S, const Paths64& C) { g_nsplit = 0; Clipper2Lib::verif::split_fn = split_cb;
    for (int ct = 1; ct <= 4; ++ct) for (int fr = 0; fr <= 1; ++fr) { Clipper64 c; c.AddSubject(S); c.AddClip(C); PolyTree64 t; c.Execute((ClipType)ct, (FillRule)fr, t); }
    Clipper2Lib::verif::split_fn = nullptr; return g_nsplit; };
  if (fam == "gps") { const int64_t off = argi(a, "off", 0);   // off: shift the lattice (negative coordinates: truncation towards zero behaves differently)
    for (long long i = 0; i < n; ++i) if (gen_gps(r, R, (int)argi(a, "maxpaths", 2), (int)argi(a, "maxv", 6), S, C)) { if (off) for (auto* ps : {&S, &C}) for (auto& p : *ps) for (auto& q : p) { q.x += off; q.y += off; } if (needsplit && splits_in_tree(S, C) == 0) continue; emit(S, C); } }
  else if (fam == "ladder") { for (int ws = -3; ws <= 3; ++ws) for (int wc = -3; wc <= 3; ++wc) for (int d = 0; d < 2; ++d) { gen_ladder(ws, wc, d, S, C); emit(S, C); } }
  else if (fam == "walk") {
    int g = (int)argi(a, "grid", 6);
    for (long long i = 0; i < n; ++i) { S.clear(); C.clear(); bool deg = r.range(0, 3) == 0;
      int ns = (int)r.range(1, 2), nc = (int)r.range(0, 2);
      for (int k = 0; k < ns; ++k) S.push_back(rect_walk(r, g, (int)r.range(2, 5), deg));
      for (int k = 0; k < nc; ++k) C.push_back(rect_walk(r, g, (int)r.range(2, 5), deg));
      emit(S, C); }
  } else if (fam == "nest") {   // deep nesting: recursive boxes, alternating orientation, random split between subject and clip
    for (long long i = 0; i < n; ++i) { S.clear(); C.clear(); bool diamond = false;
      std::function<void(int64_t, int64_t, int64_t, int64_t, int)> rec = [&](int64_t x0, int64_t y0, int64_t x1, int64_t y1, int d) {
        if (x1 - x0 < 6 || y1 - y0 < 6 || d > 5) return;
        Path64 p = {{x0, y0}, {x1, y0}, {x1, y1}, {x0, y1}}; if (d % 2) std::reverse(p.begin(), p.end());
        (r.range(0, 3) ? S : C).push_back(p);
        int64_t cx0 = x0 + 3, cx1 = x1 - 3; if (cx1 - cx0 < 6) return;
        int kids = (int)r.range(1, 2); int64_t w = (cx1 - cx0 - 3 * (kids - 1)) / kids;
        for (int k = 0; k < kids; ++k) if (r.range(0, 5)) rec(cx0 + k * (w + 3), y0 + 3, cx0 + k * (w + 3) + w, y1 - 3, d + 1);
      };
      (void)diamond; rec(0, 0, 60, 40, 0); if (S.empty()) { S = C; C.clear(); } emit(S, C); }
  } else if (fam == "rects") {   // k random oriented rectangles (coincident edges, shared corners, cancelling pairs likely), split between subject and clip
    int g = (int)argi(a, "grid", 5), kmin = (int)argi(a, "kmin", 3), kmax = (int)argi(a, "kmax", 6); bool subjonly = argi(a, "subjonly", 0) != 0;
    for (long long i = 0; i < n; ++i) { S.clear(); C.clear(); int k = (int)r.range(kmin, kmax);
      for (int j = 0; j < k; ++j) { int64_t x1 = r.range(0, g - 1), x2 = r.range(x1 + 1, g), y1 = r.range(0, g - 1), y2 = r.range(y1 + 1, g);
        Path64 p = {{x1, y1}, {x2, y1}, {x2, y2}, {x1, y2}}; if (r.coin()) std::reverse(p.begin(), p.end());
        if (r.range(0, 5) == 0 && !S.empty()) { p = S[r.range(0, (int64_t)S.size() - 1)]; if (r.coin()) std::reverse(p.begin(), p.end()); }   // a (possibly reversed) copy
        ((subjonly || r.range(0, 2)) ? S : C).push_back(p); }
      if (S.empty()) std::swap(S, C);
      emit(S, C); }
  } else if (fam == "ringrect") {   // concentric square rings + rectangles whose horizontal edges are collinear with ring edges (horizontal joins merge nested rings)
    for (long long i = 0; i < n; ++i) { S.clear(); C.clear(); int k = (int)r.range(3, 6); int64_t c0 = 40, gap = 4;
      for (int j = 0; j < k; ++j) { int64_t rad = gap * (k - j) + 2 * (int64_t)r.range(0, 1) * 0; Path64 p = {{c0 - rad, c0 - rad}, {c0 + rad, c0 - rad}, {c0 + rad, c0 + rad}, {c0 - rad, c0 + rad}}; if (r.range(0, 3) == 0) std::reverse(p.begin(), p.end()); S.push_back(p); }
      int nr = (int)r.range(1, 2);
      for (int j = 0; j < nr; ++j) { int ring = (int)r.range(0, k - 1); int64_t rad = gap * (k - ring); bool top = r.coin();
        int64_t ya = top ? c0 + rad : c0 - rad, yb = ya + 2 * (r.coin() ? 1 : -1) * (int64_t)r.range(1, 2 * k);
        int64_t xa = c0 - 2 * (int64_t)r.range(0, 2 * k + 2), xb = c0 + 2 * (int64_t)r.range(1, 2 * k + 2);
        Path64 q = {{xa, std::min(ya, yb)}, {xb, std::min(ya, yb)}, {xb, std::max(ya, yb)}, {xa, std::max(ya, yb)}};
        (r.coin() ? S : C).push_back(q); }
      emit(S, C); }
  } else if (fam == "degen") {  // arbitrary / degenerate inputs: only the "all inputs" clauses are judged by the spec
    for (long long i = 0; i < n; ++i) { S.clear(); C.clear();
      auto dp = [&]() { Path64 p; int nv = (int)r.range(0, 7); int g = (int)r.range(2, 9);
        for (int k = 0; k < nv; ++k) { Point64 q(r.range(0, g), r.range(0, g)); p.push_back(q); if (r.range(0, 4) == 0) p.push_back(q); if (r.range(0, 6) == 0 && p.size() > 1) p.push_back(p[p.size() - 2]); }
        if (r.range(0, 5) == 0 && !p.empty()) p.push_back(p[0]);
        return p; };
      int ns = (int)r.range(0, 3), nc = (int)r.range(0, 2);
      for (int k = 0; k < ns; ++k) S.push_back(dp());
      for (int k = 0; k < nc; ++k) C.push_back(r.range(0, 4) == 0 && !S.empty() ? S[0] : dp());
      emit(S, C); }
  } else if (fam == "in") {
    std::ifstream in(args(a, "in", "")); std::string line; long long cnt = 0, skip = argi(a, "skip", 0), stride = argi(a, "stride", 1);
    while (std::getline(in, line)) { if (line.empty()) continue; if ((cnt++ - skip) % stride != 0 || cnt <= skip) continue; if (n > 0 && ncase >= n * (long long)embs.size()) break; JV v = jparse(line); emit(paths_from(v["subj"]), paths_from(v["clip"])); }
  }
  fprintf(stderr, "cases=%lld execs=%lld\n", ncase, nexec);
  return 0;
}
static Reg reg_bool("bool", cmd_bool);
