// Family "c18": geometric predicates and measurements of clipper.core.h, for C18Trace.tla.
// The harness only CALLS the library and RECORDS what it returned; wide integers travel as
// split words ([sign, 12-bit limbs...], C18BigInt wire format) so that TLC computes every
// expected product / sign / crossing / area itself.
//
// Two copies of clipper.core.h live in this translation unit:
//   namespace C18Port     - compiled with __GNUC__ / __clang__ undefined: the PORTABLE 64x64
//                           multiplication branch of ProductsAreEqual / CrossProductSign
//   namespace Clipper2Lib - the normal copy (__int128 branch on this compiler)
// (separate namespaces, so no ODR clash between the two definitions of the inline functions).
#include <algorithm>
#include <climits>
#include <cmath>
#include <cstdint>
#include <cstdio>
#include <cstdlib>
#include <cstring>
#include <fstream>
#include <functional>
#include <iostream>
#include <limits>
#include <map>
#include <numeric>
#include <optional>
#include <set>
#include <sstream>
#include <stdexcept>
#include <string>
#include <type_traits>
#include <vector>
#pragma push_macro("__GNUC__")
#undef __GNUC__
#ifdef __clang__
#pragma push_macro("__clang__")
#undef __clang__
#define C18_HAD_CLANG 1
#endif
#if defined(__GNUC__) || defined(__clang__)
#error "C18: portable branch not selected"
#endif
#define Clipper2Lib C18Port
#include "clipper2/clipper.core.h"
#undef Clipper2Lib
#undef CLIPPER_CORE_H
#ifdef C18_HAD_CLANG
#pragma pop_macro("__clang__")
#endif
#pragma pop_macro("__GNUC__")
#if !defined(__GNUC__) && !defined(__clang__)
#error "C18: compiler macros not restored"
#endif
#include "common.hpp"

typedef unsigned __int128 u128;
#ifdef CLIPPER2_HI_PRECISION
static const int HP = CLIPPER2_HI_PRECISION ? 1 : 0;
#else
static const int HP = 0;
#endif

// ---------------------------------------------------------------- wire format
static std::string wire_mag(int s, u128 m) {
  if (m == 0) return "[0]";
  std::string r = "[" + std::to_string(s);
  while (m) { r += "," + std::to_string((unsigned)(m & 4095)); m >>= 12; }
  return r + "]";
}
static std::string wire_i(i128 v) { return v < 0 ? wire_mag(-1, (u128)(-v)) : wire_mag(1, (u128)v); }
static std::string wire_u64(uint64_t v) { return wire_mag(1, v); }
static i128 unwire(const JV& v) {
  u128 m = 0; for (size_t i = v.a.size(); i-- > 1;) m = (m << 12) | (u128)v.a[i].i();
  return v.a.empty() ? 0 : (v.a[0].i() < 0 ? -(i128)m : (i128)m);
}
static std::string wire_pt(const Point64& p) { return "[" + wire_i(p.x) + "," + wire_i(p.y) + "]"; }
static std::string wire_path(const Path64& p) { return jarr(p.begin(), p.end(), wire_pt); }
static Point64 unwire_pt(const JV& v) { return Point64((int64_t)unwire(v[0]), (int64_t)unwire(v[1])); }
static Path64 unwire_path(const JV& v) { Path64 p; for (auto& q : v.a) p.push_back(unwire_pt(q)); return p; }
static bool fits64(i128 v) { return v >= (i128)INT64_MIN && v <= (i128)INT64_MAX; }

// ---------------------------------------------------------------- calls into the two copies
static C18Port::Point64 pp(const Point64& p) { return C18Port::Point64(p.x, p.y); }
static void call_multiply(int br, uint64_t a, uint64_t b, uint64_t& lo, uint64_t& hi) {
  if (br) { auto r = C18Port::Multiply(a, b); lo = r.lo; hi = r.hi; } else { auto r = Clipper2Lib::Multiply(a, b); lo = r.lo; hi = r.hi; }
}
static bool call_pe(int br, int64_t a, int64_t b, int64_t c, int64_t d) { return br ? C18Port::ProductsAreEqual(a, b, c, d) : Clipper2Lib::ProductsAreEqual(a, b, c, d); }
static int call_cps(int br, const Point64& p1, const Point64& p2, const Point64& p3) { return br ? C18Port::CrossProductSign(pp(p1), pp(p2), pp(p3)) : Clipper2Lib::CrossProductSign(p1, p2, p3); }
static bool call_col(int br, const Point64& p1, const Point64& p2, const Point64& p3) { return br ? C18Port::IsCollinear(pp(p1), pp(p2), pp(p3)) : Clipper2Lib::IsCollinear(p1, p2, p3); }

// ---------------------------------------------------------------- event writers (one library call group each)
static long long g_calls = 0;
static void ev_mul(std::ostream& os, int br, uint64_t a, uint64_t b) {
  uint64_t lo = 0, hi = 0; call_multiply(br, a, b, lo, hi); ++g_calls;
  os << Ev("Mul").kn("br", br).kv("a", wire_u64(a)).kv("b", wire_u64(b)).kv("lo", wire_u64(lo)).kv("hi", wire_u64(hi)).str() << "\n";
}
// v = (a, b, c, d); the three points realise the four differences a = x2 - x1, b = y3 - y2, c = y2 - y1, d = x3 - x2
// around pt2 = (ox, oy) whenever all six coordinates are representable (otherwise around the origin, otherwise no points)
static void ev_pred(std::ostream& os, int br, const int64_t v[4], int64_t ox, int64_t oy) {
  bool pe = call_pe(br, v[0], v[1], v[2], v[3]); ++g_calls;
  Ev e("Pred"); e.kn("br", br).kv("v", "[" + wire_i(v[0]) + "," + wire_i(v[1]) + "," + wire_i(v[2]) + "," + wire_i(v[3]) + "]").kn("pe", pe);
  for (int pass = 0; pass < 2; ++pass) {
    i128 X = pass ? 0 : ox, Y = pass ? 0 : oy;
    i128 c[6] = {X - v[0], Y - v[2], X, Y, X + v[3], Y + v[1]};
    bool ok = true; for (i128 t : c) ok = ok && fits64(t);
    if (!ok) continue;
    Point64 p1((int64_t)c[0], (int64_t)c[1]), p2((int64_t)c[2], (int64_t)c[3]), p3((int64_t)c[4], (int64_t)c[5]);
    int s = call_cps(br, p1, p2, p3); bool col = call_col(br, p1, p2, p3); g_calls += 2;
    e.kv("pts", "[" + wire_pt(p1) + "," + wire_pt(p2) + "," + wire_pt(p3) + "]").kn("cps", s).kn("col", col);
    os << e.str() << "\n"; return;
  }
  e.kv("pts", "[]").kn("cps", 0).kn("col", 0);
  os << e.str() << "\n";
}
static void ev_pred_pts(std::ostream& os, int br, const int64_t v[4], const Point64& p1, const Point64& p2, const Point64& p3) {
  bool pe = call_pe(br, v[0], v[1], v[2], v[3]);
  int s = call_cps(br, p1, p2, p3); bool col = call_col(br, p1, p2, p3); g_calls += 3;
  os << Ev("Pred").kn("br", br).kv("v", "[" + wire_i(v[0]) + "," + wire_i(v[1]) + "," + wire_i(v[2]) + "," + wire_i(v[3]) + "]").kn("pe", pe)
          .kv("pts", "[" + wire_pt(p1) + "," + wire_pt(p2) + "," + wire_pt(p3) + "]").kn("cps", s).kn("col", col).str() << "\n";
}

struct Aff { int64_t m, tx, ty; };
static std::string jaff(const Aff& a) { return "[" + jnum(a.m) + "," + jnum(a.tx) + "," + jnum(a.ty) + "]"; }
// polygon P on the doubled G x G grid, all (2G-1)^2 grid and half-grid points (x-major), under each embedding
static void ev_pip(std::ostream& os, int g, long long idx, const Path64& P, const std::vector<Aff>& embs) {
  int cm = 2 * (g - 1);
  std::vector<std::string> rs;
  for (auto& a : embs) {
    Path64 Q; for (auto& q : P) Q.emplace_back(a.m * q.x + a.tx, a.m * q.y + a.ty);
    std::vector<long long> r; r.reserve((cm + 1) * (cm + 1));
    for (int x = 0; x <= cm; ++x) for (int y = 0; y <= cm; ++y) { r.push_back((long long)PointInPolygon(Point64(a.m * x + a.tx, a.m * y + a.ty), Q)); ++g_calls; }
    rs.push_back(jints(r));
  }
  os << Ev("Pip").kn("g", g).kn("idx", idx).kv("p", jpath(P)).kv("emb", jarr(embs.begin(), embs.end(), jaff))
          .kv("r", jarr(rs.begin(), rs.end(), [](const std::string& s) { return s; })).str() << "\n";
}
static void ev_pipbig(std::ostream& os, const Path64& P, const Path64& Q) {
  std::vector<long long> r; for (auto& q : Q) { r.push_back((long long)PointInPolygon(q, P)); ++g_calls; }
  os << Ev("PipBig").kv("p", jpath(P)).kv("q", jpath(Q)).kv("r", jints(r)).str() << "\n";
}
// lat = "[g, idx]" + embedding (wire) for the lattice family, "[]" otherwise
static void ev_seg(std::ostream& os, const Point64 s[4], const std::string& lat) {
  Point64 ip(0, 0);
  bool ok = GetSegmentIntersectPt(s[0], s[1], s[2], s[3], ip); ++g_calls;
  os << Ev("Seg").kn("hp", HP).kv("s", "[" + wire_pt(s[0]) + "," + wire_pt(s[1]) + "," + wire_pt(s[2]) + "," + wire_pt(s[3]) + "]")
          .kn("ok", ok).kv("ip", wire_pt(ip)).kv("lat", lat).str() << "\n";
}
// a double as odd mantissa * 2^ex (exact); fin = 0 for nan / inf
static std::string jdouble(double v) {
  if (!std::isfinite(v)) return "[0,[0],0]";
  if (v == 0) return "[1,[0],0]";
  int e; double f = std::frexp(std::fabs(v), &e); int64_t m = (int64_t)std::ldexp(f, 53); int ex = e - 53;
  while (!(m & 1)) { m >>= 1; ++ex; }
  return "[1," + wire_i(v < 0 ? -(i128)m : (i128)m) + "," + jnum(ex) + "]";
}
static void ev_area(std::ostream& os, const Paths64& ps, bool single) {
  double a = single ? Area(ps[0]) : Area(ps); ++g_calls;
  os << Ev("Area").kn("single", single).kv("ps", jarr(ps.begin(), ps.end(), wire_path)).kv("a", jdouble(a)).str() << "\n";
}

// ---------------------------------------------------------------- generators
static int64_t rnd_bits(Rng& r, int maxbits) {   // random signed value with a random bit length <= maxbits
  int bits = (int)r.range(0, maxbits); if (bits == 0) return 0;
  uint64_t v = r.next(); if (bits < 64) v &= ((1ULL << bits) - 1); v |= 1ULL << (bits - 1);
  int64_t x = (int64_t)(v & 0x7FFFFFFFFFFFFFFFULL);
  return r.coin() ? x : -x;
}
static int64_t rnd_mag(Rng& r, int mag) { int64_t M = 1LL << mag; return r.range(-M, M); }
static int64_t clampc(i128 v, int mag) { i128 M = (i128)1 << mag; return (int64_t)(v > M ? M : v < -M ? -M : v); }

static void gen_pred_random(std::ostream& os, Rng& r, int br, long long n) {
  for (long long k = 0; k < n; ++k) {
    int64_t v[4]; int mode = (int)(k % 8);
    if (mode == 0) { for (auto& x : v) x = rnd_bits(r, 63); }
    else if (mode <= 3) {                          // a*b = c*d by construction (p q)(r s) = (p r)(q s); mode 2/3 perturbed
      int64_t p = rnd_bits(r, 31), q = rnd_bits(r, 31), s1 = rnd_bits(r, 31), s2 = rnd_bits(r, 31);
      v[0] = p * q; v[1] = s1 * s2; v[2] = p * s1; v[3] = q * s2;
      if (mode == 2) v[r.range(0, 3)] += r.coin() ? 1 : -1;
      if (mode == 3) { int i = (int)r.range(0, 3); if (v[i] != INT64_MIN) v[i] = -v[i]; }
    } else if (mode == 4) {                        // (x+1)(x-1) vs x*x : differ by exactly 1 at 2^124
      int64_t x = rnd_bits(r, 62); if (x == 0) x = 3;
      v[0] = x + 1; v[1] = x - 1; v[2] = x; v[3] = x; if (r.coin()) { std::swap(v[0], v[2]); std::swap(v[1], v[3]); }
    } else if (mode == 5) {                        // same high word, different low word and vice versa
      int64_t a = rnd_bits(r, 62), b = rnd_bits(r, 62);
      v[0] = a; v[1] = b; v[2] = a; v[3] = b + (r.coin() ? 1 : -1); if (r.coin()) { v[2] = b; v[3] = a; }
    } else if (mode == 6) {                        // zero products with mixed signs
      for (auto& x : v) x = rnd_bits(r, 63); v[r.range(0, 3)] = 0; if (r.coin()) v[r.range(0, 3)] = 0;
    } else {                                       // collinear / nearly collinear triples with a common direction
      int64_t u = rnd_bits(r, 30), w = rnd_bits(r, 30), k1 = rnd_bits(r, 31), k2 = rnd_bits(r, 31);
      v[0] = k1 * u; v[2] = k1 * w; v[3] = k2 * u; v[1] = k2 * w; if (r.coin()) v[1] += r.coin() ? 1 : -1;
    }
    ev_pred(os, br, v, rnd_bits(r, 62), rnd_bits(r, 62));
  }
}
static void gen_mul_random(std::ostream& os, Rng& r, int br, long long n) {
  for (long long k = 0; k < n; ++k) {
    auto one = [&]() -> uint64_t { int mode = (int)r.range(0, 5); uint64_t x = r.next();
      if (mode == 0) return x; if (mode == 1) return x >> r.range(0, 63); if (mode == 2) return x | 0xFFFFFFFF00000000ULL; if (mode == 3) return x | 0xFFFFFFFFULL;
      if (mode == 4) return (1ULL << r.range(0, 63)) + (uint64_t)r.range(-2, 2); return ~(x >> r.range(30, 63)); };
    ev_mul(os, br, one(), one());
  }
}
static Path64 decode_poly(int g, int n, long long idx) { Path64 p; for (int i = 0; i < n; ++i) { int d = (int)(idx % (g * g)); idx /= g * g; p.emplace_back(2 * (d % g), 2 * (d / g)); } return p; }
static long long ipow(long long b, int e) { long long r = 1; while (e--) r *= b; return r; }
static std::vector<Aff> pip_embs(int g, long long idx, int nemb) {
  int64_t cm = 2 * (g - 1), L = 1LL << 25;
  std::vector<Aff> all = {{1, 0, 0}, {1, L - cm, -L}, {L / cm, 0, 0}, {(L / cm) / 2, -L, L - cm * ((L / cm) / 2)}, {3, -L, L - 3 * cm}, {(L / cm) | 1, -((L / cm) | 1) * cm / 2 - 1, -((L / cm) | 1) * cm / 2 + 1}};
  std::vector<Aff> r = {all[0]};
  for (int j = 1; j < nemb; ++j) r.push_back(all[1 + (size_t)((idx + j) % (long long)(all.size() - 1))]);
  return r;
}
static void start_ev(std::ostream& os, const char* fam, int g, int n, long long skip, long long stride) {
  os << Ev("Start").ks("fam", fam).kn("g", g).kn("n", n).kn("skip", skip).kn("stride", stride).str() << "\n";
}
static void end_ev(std::ostream& os) { os << Ev("End").str() << "\n"; }

static void gen_pip_lattice(std::ostream& os, int g, int n, long long skip, long long stride, int nemb) {
  long long N = ipow((long long)g * g, n);
  start_ev(os, "pip", g, n, skip, stride);
  for (long long idx = skip; idx < N; idx += stride) ev_pip(os, g, idx, decode_poly(g, n, idx), pip_embs(g, idx, nemb));
  end_ev(os);
}
static void gen_pip_random(std::ostream& os, Rng& r, int g, long long cnt) {
  for (long long k = 0; k < cnt; ++k) {
    int n = (int)r.range(6, 10); Path64 p;
    for (int i = 0; i < n; ++i) {
      if (i > 0 && r.range(0, 9) == 0) p.push_back(p.back());                                   // duplicate vertex
      else if (i > 1 && r.range(0, 9) == 0) p.push_back(p[p.size() - 2]);                       // spike
      else p.emplace_back(2 * r.range(0, g - 1), 2 * r.range(0, g - 1));
    }
    ev_pip(os, g, -1, p, pip_embs(g, (long long)k, 3));
  }
}
static void gen_pipbig(std::ostream& os, Rng& r, long long cnt) {
  const int64_t L = 1LL << 25;
  for (long long k = 0; k < cnt; ++k) {
    int n = (int)r.range(3, 8); Path64 p, q;
    struct Lat { Point64 a; int64_t u, w, kk; }; std::vector<Lat> lat;
    while ((int)p.size() < n) {
      if (!p.empty() && r.coin()) {        // next vertex = last + kk * (u, w): lattice points of this edge are exactly last + j * (u, w)
        int64_t u = r.range(-40, 40), w = r.range(-40, 40), kk = r.range(1, 1 << 19);
        i128 x = (i128)p.back().x + (i128)kk * u, y = (i128)p.back().y + (i128)kk * w;
        if (x < -L || x > L || y < -L || y > L) continue;
        lat.push_back({p.back(), u, w, kk}); p.emplace_back((int64_t)x, (int64_t)y);
      } else p.emplace_back(r.range(-L, L), r.range(-L, L));
    }
    auto addq = [&](i128 x, i128 y) { if (x >= -L && x <= L && y >= -L && y <= L) q.emplace_back((int64_t)x, (int64_t)y); };
    for (auto& v : p) { addq(v.x, v.y); addq(v.x + r.range(-1, 1), v.y); addq(r.range(-L, L), v.y); }
    for (auto& e : lat) for (int j = 0; j < 3; ++j) { int64_t t = r.range(0, e.kk); i128 x = (i128)e.a.x + (i128)t * e.u, y = (i128)e.a.y + (i128)t * e.w; addq(x, y); addq(x + r.range(-1, 1), y + r.range(-1, 1)); }
    for (size_t i = 0; i < p.size(); ++i) {   // points next to the true crossing of the scanline through a random y with each edge
      const Point64 &A = p[i], &B = p[(i + 1) % p.size()]; if (A.y == B.y) continue;
      int64_t y = r.range(std::min(A.y, B.y), std::max(A.y, B.y));
      i128 num = (i128)(B.x - A.x) * (y - A.y), den = B.y - A.y; i128 x = A.x + num / den;
      addq(x - 1, y); addq(x, y); addq(x + 1, y);
    }
    for (int j = 0; j < 6; ++j) addq(r.range(-L, L), r.range(-L, L));
    ev_pipbig(os, p, q);
  }
}
struct AffW { i128 m, tx, ty; };
static void gen_seg_lattice(std::ostream& os, int g, long long skip, long long stride, int nemb) {
  const i128 L = (i128)1 << 40; const int64_t c = g - 1;
  std::vector<AffW> all = {{1, 0, 0}, {(i128)1 << 23, 0, 0}, {((i128)1 << 25) / c, -((i128)1 << 24), 5}, {((i128)1 << 38) / c * 2, -(((i128)1 << 38) / c * 2) * c / 2, 7}, {L / c, 0, 0},
                           {1, L - c, -L}, {((i128)1 << 24) + 1, -L, L - (((i128)1 << 24) + 1) * c}, {(L / c) | 1, -L / 2, -L / 3}};
  long long N = ipow((long long)g * g, 4);
  start_ev(os, "seg", g, 4, skip, stride);
  for (long long idx = skip; idx < N; idx += stride) {
    long long t = idx; Point64 lp[4]; for (auto& p : lp) { int d = (int)(t % (g * g)); t /= g * g; p = Point64(d % g, d / g); }
    for (int j = 0; j < nemb; ++j) {
      const AffW& a = j == 0 ? all[0] : all[1 + (size_t)((idx + j) % (long long)(all.size() - 1))];
      Point64 s[4]; bool ok = true;
      for (int i = 0; i < 4; ++i) { i128 x = a.m * lp[i].x + a.tx, y = a.m * lp[i].y + a.ty; ok = ok && x >= -L && x <= L && y >= -L && y <= L; s[i] = Point64((int64_t)x, (int64_t)y); }
      if (!ok) continue;
      ev_seg(os, s, "[" + jnum(g) + "," + jnum(j == 0 ? idx : -1) + "," + jpath(Path64(lp, lp + 4)) + "," + wire_i(a.m) + "," + wire_i(a.tx) + "," + wire_i(a.ty) + "]");
    }
  }
  end_ev(os);
}
static void gen_seg_random(std::ostream& os, Rng& r, long long cnt) {
  static const int mags[] = {3, 6, 12, 20, 25, 26, 30, 36, 40};
  for (long long k = 0; k < cnt; ++k) {
    int mag = mags[r.range(0, 8)]; int mode = (int)(k % 8);
    Point64 s[4]; for (auto& p : s) p = Point64(rnd_mag(r, mag), rnd_mag(r, mag));
    i128 dx = (i128)s[1].x - s[0].x, dy = (i128)s[1].y - s[0].y;
    if (mode == 1 || mode == 2) {             // nearly parallel, nearly coincident, long overlap
      i128 cx = s[0].x + r.range(-3, 3), cy = s[0].y + r.range(-3, 3);
      s[2] = Point64(clampc(cx, mag), clampc(cy, mag)); s[3] = Point64(clampc(cx + dx + r.range(-2, 2), mag), clampc(cy + dy + r.range(-2, 2), mag));
      if (mode == 2) std::swap(s[2], s[3]);
    } else if (mode == 3) {                   // exactly parallel (same primitive direction, different lengths / offsets)
      int64_t u = rnd_mag(r, mag / 2), w = rnd_mag(r, mag / 2), k1 = rnd_mag(r, mag / 2 - 1), k2 = rnd_mag(r, mag / 2 - 1);
      s[1] = Point64(clampc((i128)s[0].x + (i128)k1 * u, mag), clampc((i128)s[0].y + (i128)k1 * w, mag));
      if (s[1].x - s[0].x == k1 * u && s[1].y - s[0].y == k1 * w) s[3] = Point64(clampc((i128)s[2].x + (i128)k2 * u, mag), clampc((i128)s[2].y + (i128)k2 * w, mag));
    } else if (mode == 4 && mag >= 26) {      // determinant exactly +-1 at large magnitude: (M+1)^2 - M (M+2) = 1
      int64_t M = (1LL << (mag - 2)) + r.range(0, 1000), ox = rnd_mag(r, mag - 2), oy = rnd_mag(r, mag - 2);
      s[0] = Point64(ox, oy); s[1] = Point64(ox + M, oy + M + 1); s[2] = Point64(ox + r.range(-5, 5), oy + r.range(-5, 5)); s[3] = Point64(s[2].x + M + 1, s[2].y + M + 2);
      if (r.coin()) { std::swap(s[0], s[2]); std::swap(s[1], s[3]); }
    } else if (mode == 5) {                   // crossing at a lattice point c0: a = c0 - i (u,w), b = c0 + j (u,w), c = c0 - k (p,q), d = c0 + l (p,q)
      int h = mag / 2; int64_t u = rnd_mag(r, h), w = rnd_mag(r, h), p = rnd_mag(r, h), q = rnd_mag(r, h);
      int64_t i = r.range(0, 1LL << (h - 1)), j = r.range(0, 1LL << (h - 1)), kk = r.range(0, 1LL << (h - 1)), l = r.range(0, 1LL << (h - 1));
      int64_t x0 = rnd_mag(r, mag - 1), y0 = rnd_mag(r, mag - 1);
      s[0] = Point64(clampc((i128)x0 - (i128)i * u, mag), clampc((i128)y0 - (i128)i * w, mag)); s[1] = Point64(clampc((i128)x0 + (i128)j * u, mag), clampc((i128)y0 + (i128)j * w, mag));
      s[2] = Point64(clampc((i128)x0 - (i128)kk * p, mag), clampc((i128)y0 - (i128)kk * q, mag)); s[3] = Point64(clampc((i128)x0 + (i128)l * p, mag), clampc((i128)y0 + (i128)l * q, mag));
    } else if (mode == 6) {                   // degenerate / touching: zero-length segment, shared end point, end point on the other segment
      int sub = (int)r.range(0, 3);
      if (sub == 0) s[1] = s[0]; else if (sub == 1) s[3] = s[2]; else if (sub == 2) s[2] = s[1];
      else s[2] = Point64((int64_t)(s[0].x + dx / 2), (int64_t)(s[0].y + dy / 2));
    } else if (mode == 7) {                   // axis-parallel pairs
      s[1].y = s[0].y; s[3].x = s[2].x; if (r.coin()) { s[3].x = s[2].x + 1; }
    }
    ev_seg(os, s, "[]");
  }
}
static void gen_area_random(std::ostream& os, Rng& r, long long cnt) {
  static const int mags[] = {3, 8, 16, 22, 24, 31, 40, 52, 61};
  for (long long k = 0; k < cnt; ++k) {
    int mag = mags[r.range(0, 8)]; int np = (k % 4 == 3) ? (int)r.range(2, 3) : 1; Paths64 ps;
    for (int j = 0; j < np; ++j) {
      int n = (int)r.range(0, 12); if (n < 3 && r.range(0, 3)) n = (int)r.range(3, 9); Path64 p;
      if (k % 4 == 1 && mag > 8) {            // small polygon far from the origin: heavy cancellation between the terms
        int64_t ox = rnd_mag(r, mag - 1), oy = rnd_mag(r, mag - 1);
        for (int i = 0; i < n; ++i) p.emplace_back(ox + r.range(-100, 100), oy + r.range(-100, 100));
      } else for (int i = 0; i < n; ++i) p.emplace_back(rnd_mag(r, mag), rnd_mag(r, mag));
      if (k % 4 == 2 && n >= 4) std::reverse(p.begin(), p.end());
      ps.push_back(p);
    }
    ev_area(os, ps, np == 1 && r.coin());
  }
}

// re-execute recorded events with their recorded inputs (used to confirm a failure and by --replay)
static void replay_events(std::ostream& os, const std::string& file) {
  std::ifstream in(file); std::string line;
  while (std::getline(in, line)) {
    if (line.empty()) continue;
    JV e = jparse(line); const std::string k = e["e"].s;
    if (k == "Mul") ev_mul(os, (int)e["br"].i(), (uint64_t)unwire(e["a"]), (uint64_t)unwire(e["b"]));
    else if (k == "Pred") {
      int64_t v[4]; for (int i = 0; i < 4; ++i) v[i] = (int64_t)unwire(e["v"][i]);
      if (e["pts"].size() == 3) ev_pred_pts(os, (int)e["br"].i(), v, unwire_pt(e["pts"][0]), unwire_pt(e["pts"][1]), unwire_pt(e["pts"][2]));
      else ev_pred(os, (int)e["br"].i(), v, 0, 0);
    } else if (k == "Pip") {
      std::vector<Aff> embs; for (auto& a : e["emb"].a) embs.push_back({(int64_t)a[0].i(), (int64_t)a[1].i(), (int64_t)a[2].i()});
      ev_pip(os, (int)e["g"].i(), -1, path_from(e["p"]), embs);
    } else if (k == "PipBig") ev_pipbig(os, path_from(e["p"]), path_from(e["q"]));
    else if (k == "Seg") { Point64 s[4]; for (int i = 0; i < 4; ++i) s[i] = unwire_pt(e["s"][i]); ev_seg(os, s, "[]"); }
    else if (k == "Area") { Paths64 ps; for (auto& p : e["ps"].a) ps.push_back(unwire_path(p)); ev_area(os, ps, e["single"].i() != 0); }
  }
}

// vh c18 --fam mul|pred|pip|piprand|pipbig|seg|segrand|area|replay --out file [--in file] [--br 0|1] [--seed S] [--n N]
//        [--g G] [--nv N] [--skip K] [--stride S] [--nemb E]
static int cmd_c18(const Args& a) {
  std::string fam = args(a, "fam", "mul"), out = args(a, "out", ""), inf = args(a, "in", "");
  std::ofstream os(out); if (!os) { fprintf(stderr, "cannot write %s\n", out.c_str()); return 2; }
  Rng r((uint64_t)argi(a, "seed", 1)); int br = (int)argi(a, "br", 0); long long n = argi(a, "n", 0);
  long long skip = argi(a, "skip", 0), stride = argi(a, "stride", 1); int g = (int)argi(a, "g", 4), nv = (int)argi(a, "nv", 3), nemb = (int)argi(a, "nemb", 2);
  if (fam == "mul") {
    if (!inf.empty()) { std::ifstream in(inf); std::string line; while (std::getline(in, line)) { JV e = jparse(line); ev_mul(os, br, (uint64_t)unwire(e["a"]), (uint64_t)unwire(e["b"])); } }
    gen_mul_random(os, r, br, n);
  } else if (fam == "pred") {
    if (!inf.empty()) { std::ifstream in(inf); std::string line; long long i = -1;
      while (std::getline(in, line)) { ++i; if (i < skip || (i - skip) % stride) continue; JV e = jparse(line); int64_t v[4]; for (int j = 0; j < 4; ++j) v[j] = (int64_t)unwire(e["v"][j]);
        ev_pred(os, br, v, rnd_bits(r, 62), rnd_bits(r, 62)); } }
    gen_pred_random(os, r, br, n);
  } else if (fam == "pip") gen_pip_lattice(os, g, nv, skip, stride, nemb);
  else if (fam == "piprand") gen_pip_random(os, r, g, n);
  else if (fam == "pipbig") gen_pipbig(os, r, n);
  else if (fam == "seg") gen_seg_lattice(os, g, skip, stride, nemb);
  else if (fam == "segrand") gen_seg_random(os, r, n);
  else if (fam == "area") gen_area_random(os, r, n);
  else if (fam == "replay") replay_events(os, inf);
  else { fprintf(stderr, "unknown family %s\n", fam.c_str()); return 2; }
  os.flush();
  fprintf(stderr, "calls=%lld hp=%d\n", g_calls, HP);
  return os ? 0 : 2;
}
static Reg r_c18("c18", cmd_c18);
