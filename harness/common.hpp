// Conformance harness for the TLA+ specification of Clipper2 - shared utilities.
// The harness only (a) drives the real library along generated / TLC-enumerated
// behaviours, (b) records what the library returned, and (c) computes exact
// integer MEASUREMENTS of the library's output (winding of the output at sample
// points, canonical forms, bounding boxes).  What the result SHOULD be is never
// decided here: that is the job of the TLA+ trace specifications.
#pragma once
#include <algorithm>
#include <cstdint>
#include <cstdio>
#include <cstdlib>
#include <cstring>
#include <fstream>
#include <functional>
#include <iostream>
#include <map>
#include <set>
#include <sstream>
#include <string>
#include <vector>
#include "clipper2/clipper.h"

using namespace Clipper2Lib;
typedef __int128 i128;

// ---------------------------------------------------------------- rng
struct Rng {
  uint64_t s;
  // the seed is hashed so that streams of nearby seeds start at unrelated positions of the Weyl sequence
  // (a linear seeding made them shifted copies of each other, which re-synchronised after a few rejections)
  explicit Rng(uint64_t seed) { uint64_t z = seed + 0x9E3779B97F4A7C15ULL; z = (z ^ (z >> 30)) * 0xBF58476D1CE4E5B9ULL; z = (z ^ (z >> 27)) * 0x94D049BB133111EBULL; z ^= z >> 31; z = (z ^ (z >> 33)) * 0xFF51AFD7ED558CCDULL; s = z ^ (z >> 29) ^ 0x1234567ULL; }
  uint64_t next() {
    uint64_t z = (s += 0x9E3779B97F4A7C15ULL);
    z = (z ^ (z >> 30)) * 0xBF58476D1CE4E5B9ULL;
    z = (z ^ (z >> 27)) * 0x94D049BB133111EBULL;
    return z ^ (z >> 31);
  }
  int64_t range(int64_t lo, int64_t hi) { return lo + (int64_t)(next() % (uint64_t)(hi - lo + 1)); }
  bool coin() { return next() & 1; }
  template <class T> const T& pick(const std::vector<T>& v) { return v[next() % v.size()]; }
};

// ---------------------------------------------------------------- minimal JSON DOM
struct JV {
  enum T { NUL, BOOL, NUM, STR, ARR, OBJ } t = NUL;
  long long n = 0; double d = 0; bool isint = true;
  std::string s;
  std::vector<JV> a;
  std::vector<std::pair<std::string, JV>> o;
  const JV* find(const std::string& k) const { for (auto& kv : o) if (kv.first == k) return &kv.second; return nullptr; }
  const JV& operator[](const std::string& k) const { static JV nul; auto p = find(k); return p ? *p : nul; }
  const JV& operator[](size_t i) const { return a[i]; }
  size_t size() const { return t == ARR ? a.size() : o.size(); }
  long long i() const { return isint ? n : (long long)d; }
  bool has(const std::string& k) const { return find(k) != nullptr; }
};
struct JParser {
  const char* p; const char* e;
  void ws() { while (p < e && (*p == ' ' || *p == '\n' || *p == '\t' || *p == '\r')) ++p; }
  JV parse() {
    ws(); JV v;
    if (p >= e) return v;
    if (*p == '{') { v.t = JV::OBJ; ++p; ws(); if (*p == '}') { ++p; return v; }
      for (;;) { ws(); JV k = parse(); ws(); ++p; /* : */ JV x = parse(); v.o.emplace_back(k.s, std::move(x)); ws(); if (*p == ',') { ++p; continue; } ++p; break; } return v; }
    if (*p == '[') { v.t = JV::ARR; ++p; ws(); if (*p == ']') { ++p; return v; }
      for (;;) { v.a.push_back(parse()); ws(); if (*p == ',') { ++p; continue; } ++p; break; } return v; }
    if (*p == '"') { v.t = JV::STR; ++p; while (p < e && *p != '"') { if (*p == '\\' && p + 1 < e) { ++p; char c = *p; v.s += (c == 'n' ? '\n' : c == 't' ? '\t' : c); } else v.s += *p; ++p; } ++p; return v; }
    if (!strncmp(p, "true", 4)) { v.t = JV::BOOL; v.n = 1; p += 4; return v; }
    if (!strncmp(p, "false", 5)) { v.t = JV::BOOL; v.n = 0; p += 5; return v; }
    if (!strncmp(p, "null", 4)) { p += 4; return v; }
    v.t = JV::NUM; const char* q = p; bool isf = false;
    while (q < e && (isdigit(*q) || *q == '-' || *q == '+' || *q == '.' || *q == 'e' || *q == 'E')) { if (*q == '.' || *q == 'e' || *q == 'E') isf = true; ++q; }
    std::string tok(p, q); p = q;
    if (isf) { v.isint = false; v.d = strtod(tok.c_str(), nullptr); v.n = (long long)v.d; } else { v.n = strtoll(tok.c_str(), nullptr, 10); v.d = (double)v.n; }
    return v;
  }
};
inline JV jparse(const std::string& s) { JParser P{s.data(), s.data() + s.size()}; return P.parse(); }

// ---------------------------------------------------------------- JSON writing
inline std::string jnum(long long v) { return std::to_string(v); }
inline std::string jstr(const std::string& s) { std::string r = "\""; for (char c : s) { if (c == '"' || c == '\\') r += '\\'; r += c; } return r + "\""; }
template <class It, class F> std::string jarr(It b, It e, F f) { std::string r = "["; bool first = true; for (; b != e; ++b) { if (!first) r += ','; first = false; r += f(*b); } return r + "]"; }
inline std::string jints(const std::vector<long long>& v) { return jarr(v.begin(), v.end(), [](long long x) { return jnum(x); }); }
inline std::string jintsI(const std::vector<int>& v) { return jarr(v.begin(), v.end(), [](int x) { return jnum(x); }); }
inline std::string jpt(const Point64& p) { return "[" + jnum(p.x) + "," + jnum(p.y) + "]"; }
inline std::string jpath(const Path64& p) { return jarr(p.begin(), p.end(), jpt); }
inline std::string jpaths(const Paths64& ps) { return jarr(ps.begin(), ps.end(), jpath); }
struct Ev {
  std::string s; bool first = true;
  explicit Ev(const std::string& name) { s = "{"; kv("e", jstr(name)); }
  Ev& kv(const std::string& k, const std::string& raw) { if (!first) s += ','; first = false; s += jstr(k) + ":" + raw; return *this; }
  Ev& kn(const std::string& k, long long v) { return kv(k, jnum(v)); }
  Ev& ks(const std::string& k, const std::string& v) { return kv(k, jstr(v)); }
  std::string str() const { return s + "}"; }
};
inline Path64 path_from(const JV& v) { Path64 p; for (auto& q : v.a) p.emplace_back((int64_t)q[0].i(), (int64_t)q[1].i()); return p; }
inline Paths64 paths_from(const JV& v) { Paths64 ps; for (auto& q : v.a) ps.push_back(path_from(q)); return ps; }

// ---------------------------------------------------------------- exact measurements
// A sample point is given in "ps-scaled lattice coordinates" (ps = 1 or 2); paths are scaled by ps
// before the comparison so half-integer points are representable.  All arithmetic is __int128.
struct PtW { i128 x, y; };
// winding number of closed path set about p; sets 'on' if p lies on an edge
inline int wind_at(const Paths64& ps, PtW p, int k, bool& on) {
  int w = 0;
  for (auto& path : ps) {
    size_t n = path.size(); if (n < 2) continue;
    for (size_t i = 0; i < n; ++i) {
      const Point64& A = path[i]; const Point64& B = path[(i + 1) % n];
      i128 ax = (i128)A.x * k, ay = (i128)A.y * k, bx = (i128)B.x * k, by = (i128)B.y * k;
      i128 cr = (bx - ax) * (p.y - ay) - (by - ay) * (p.x - ax);
      if (cr == 0 && std::min(ax, bx) <= p.x && p.x <= std::max(ax, bx) && std::min(ay, by) <= p.y && p.y <= std::max(ay, by)) on = true;
      if (ay <= p.y) { if (by > p.y && cr > 0) ++w; }
      else { if (by <= p.y && cr < 0) --w; }
    }
  }
  return w;
}
inline i128 area2_of(const Path64& p) { i128 a = 0; size_t n = p.size(); if (n < 3) return 0; for (size_t i = 0; i < n; ++i) { auto& A = p[i]; auto& B = p[(i + 1) % n]; a += (i128)A.x * B.y - (i128)B.x * A.y; } return a; }
inline Path64 canon_path(const Path64& p) { if (p.empty()) return p; size_t b = 0; for (size_t i = 1; i < p.size(); ++i) if (p[i].x < p[b].x || (p[i].x == p[b].x && p[i].y < p[b].y)) b = i; Path64 r; for (size_t i = 0; i < p.size(); ++i) r.push_back(p[(b + i) % p.size()]); return r; }
inline bool path_less(const Path64& a, const Path64& b) { return std::lexicographical_compare(a.begin(), a.end(), b.begin(), b.end(), [](const Point64& p, const Point64& q) { return p.x < q.x || (p.x == q.x && p.y < q.y); }); }
inline Paths64 canon_set(const Paths64& ps) { Paths64 r; for (auto& p : ps) r.push_back(canon_path(p)); std::sort(r.begin(), r.end(), path_less); return r; }
inline uint64_t hash_paths(const Paths64& ps) { uint64_t h = 1469598103934665603ULL; auto mix = [&](uint64_t v) { h ^= v; h *= 1099511628211ULL; }; for (auto& p : ps) { mix(0xABCDEF); for (auto& q : p) { mix((uint64_t)q.x); mix((uint64_t)q.y); } } return h; }

// ---------------------------------------------------------------- affine embeddings (spec/Embed table)
struct Emb { int id; int64_t m, tx, ty; int tol; };   // x -> m*x + t ; tol = lattice-level clearance the spec uses
inline const std::vector<Emb>& emb_table() {
  static std::vector<Emb> t = {
    {0, 1, 0, 0, 2},
    {1, 1, (1LL << 29) + 7, -(1LL << 29) - 3, 3},
    {2, 3, -(1LL << 40) + 1, (1LL << 40) + 5, 1},
    {3, 1LL << 13, (1LL << 52), -(1LL << 52), 1},
    {4, 1LL << 21, (1LL << 61) - (1LL << 28), -(1LL << 61) + (1LL << 28), 1},
    {5, 1000, 0, 0, 1},
    {6, 1LL << 30, 0, 0, 1},                       // huge features: coordinate DIFFERENCES beyond 2^31 (products beyond 2^63)
    {7, 1LL << 54, -(1LL << 59), (1LL << 58), 1},   // differences up to 2^60
    {8, 1LL << 26, 0, 0, 1},                       // extent just around 2^31 .. 2^32: the int32 boundary of coordinate differences
    {9, 1LL << 27, -(1LL << 31), (1LL << 31) + 5, 1},
  };
  return t;
}
inline Point64 emb_pt(const Emb& e, const Point64& p) { return Point64(e.m * p.x + e.tx, e.m * p.y + e.ty); }
inline Path64 emb_path(const Emb& e, const Path64& p) { Path64 r; r.reserve(p.size()); for (auto& q : p) r.push_back(emb_pt(e, q)); return r; }
inline Paths64 emb_paths(const Emb& e, const Paths64& ps) { Paths64 r; for (auto& p : ps) r.push_back(emb_path(e, p)); return r; }
// map back; ok=false when a coordinate is not on the lattice
inline bool unemb_paths(const Emb& e, const Paths64& ps, Paths64& out) {
  out.clear();
  for (auto& p : ps) { Path64 r; for (auto& q : p) { int64_t dx = q.x - e.tx, dy = q.y - e.ty; if (dx % e.m || dy % e.m) return false; r.emplace_back(dx / e.m, dy / e.m); } out.push_back(r); }
  return true;
}
inline int64_t floordiv(int64_t a, int64_t b) { int64_t q = a / b, r = a % b; return (r != 0 && ((r < 0) != (b < 0))) ? q - 1 : q; }
inline int64_t ceildiv(int64_t a, int64_t b) { return -floordiv(-a, b); }
// cover of embedded output at lattice sample points (ps-scaled): p -> m*p + ps*t
inline std::vector<long long> cover_at(const Paths64& out, const std::vector<Point64>& pts, int ps, const Emb& e) {
  std::vector<long long> r; r.reserve(pts.size());
  for (auto& q : pts) { PtW p{(i128)e.m * q.x + (i128)ps * e.tx, (i128)e.m * q.y + (i128)ps * e.ty}; bool on = false; int w = wind_at(out, p, ps, on); r.push_back(on ? 99 : w); }
  return r;
}

// ---------------------------------------------------------------- guarded execution
// Runs body in a forked child.  If the child exits normally its output is appended to os; if it is killed
// (signal, sanitizer abort, timeout) a Crash event carrying `what` (the case's inputs as JSON members) is
// written instead.  The trace specifications have no step that explains a Crash: a call that does not
// return cannot satisfy any postcondition.
#include <sys/wait.h>
#include <unistd.h>
inline bool guarded(std::ostream& os, const std::string& what, int timeout_s, const std::function<void(std::ostream&)>& body) {
  int fd[2]; if (pipe(fd) != 0) { std::ostringstream ss; body(ss); os << ss.str(); return true; }
  os.flush();
  pid_t pid = fork();
  if (pid == 0) {
    close(fd[0]); alarm((unsigned)timeout_s);
    std::ostringstream ss; body(ss); std::string d = ss.str();
    size_t off = 0; while (off < d.size()) { ssize_t w = write(fd[1], d.data() + off, d.size() - off); if (w <= 0) _exit(3); off += (size_t)w; }
    close(fd[1]); _exit(0);
  }
  close(fd[1]); std::string data; char buf[65536]; ssize_t n;
  while ((n = read(fd[0], buf, sizeof buf)) > 0) data.append(buf, (size_t)n);
  close(fd[0]); int st = 0; waitpid(pid, &st, 0);
  if (WIFEXITED(st) && WEXITSTATUS(st) == 0) { os << data; return true; }
  os << "{\"e\":\"Crash\",\"sig\":" << (WIFSIGNALED(st) ? WTERMSIG(st) : -WEXITSTATUS(st)) << "," << what << "}\n";
  return false;
}

// ---------------------------------------------------------------- subcommand registry
typedef std::map<std::string, std::string> Args;
typedef int (*CmdFn)(const Args&);
std::map<std::string, CmdFn>& registry();
struct Reg { Reg(const char* n, CmdFn f) { registry()[n] = f; } };
inline long long argi(const Args& a, const std::string& k, long long d) { auto it = a.find(k); return it == a.end() ? d : atoll(it->second.c_str()); }
inline std::string args(const Args& a, const std::string& k, const std::string& d) { auto it = a.find(k); return it == a.end() ? d : it->second; }
inline std::vector<long long> argl(const Args& a, const std::string& k, const std::string& d) { std::vector<long long> r; std::stringstream ss(args(a, k, d)); std::string t; while (std::getline(ss, t, ',')) if (!t.empty()) r.push_back(atoll(t.c_str())); return r; }
