// Family "z" (C15): the same seeded inputs run on a build with and without USINGZ.  Each build writes one
// ZRes event per operation (identical order); the driver pairs line i of both files into ZPair events and
// ZTrace.tla checks that the x,y geometry is identical and that every Z of the USINGZ result is accounted for.
#include "boolcommon.hpp"
#include "clipper2/clipper.offset.h"
#include "clipper2/clipper.rectclip.h"
namespace {
#ifdef USINGZ
const int HASZ = 1;
#else
const int HASZ = 0;
#endif
std::string jxy(const Paths64& ps) { return jpaths(ps); }
#ifdef USINGZ
std::string jzs(const Paths64& ps) { return jarr(ps.begin(), ps.end(), [](const Path64& p) { return jarr(p.begin(), p.end(), [](const Point64& q) { return jnum(q.z); }); }); }
std::string jin(const Paths64& ps) { return jarr(ps.begin(), ps.end(), [](const Path64& p) { return jarr(p.begin(), p.end(), [](const Point64& q) { return "[" + jnum(q.x) + "," + jnum(q.y) + "," + jnum(q.z) + "]"; }); }); }
void label(Paths64& ps, int base) { for (size_t k = 0; k < ps.size(); ++k) for (size_t i = 0; i < ps[k].size(); ++i) ps[k][i].z = base + 1000 * (int64_t)(k + 1) + (int64_t)i + 1; }
#endif
PathsD toD(const Paths64& ps) { PathsD r; for (auto& p : ps) { PathD q; for (auto& v : p) {
#ifdef USINGZ
  q.emplace_back((double)v.x, (double)v.y, v.z);
#else
  q.emplace_back((double)v.x, (double)v.y);
#endif
} r.push_back(q); } return r; }
Paths64 fromD(const PathsD& ps) { Paths64 r; for (auto& p : ps) { Path64 q; for (auto& v : p) {
#ifdef USINGZ
  q.emplace_back((int64_t)std::llround(v.x), (int64_t)std::llround(v.y), v.z);
#else
  q.emplace_back((int64_t)std::llround(v.x), (int64_t)std::llround(v.y));
#endif
} r.push_back(q); } return r; }

void emit(std::ostream& os, const std::string& op, const std::string& par, const Paths64& in, const Paths64& closed, const Paths64& open, int hascb, const std::vector<std::vector<long long>>& cb) {
  Ev e("ZRes"); e.ks("op", op).kv("par", par).kn("z", HASZ).kv("paths", jxy(closed)).kv("open", jxy(open)).kn("hascb", hascb);
#ifdef USINGZ
  e.kv("zs", jzs(closed)).kv("ozs", jzs(open)).kv("in", jin(in)).kv("cb", jarr(cb.begin(), cb.end(), [](const std::vector<long long>& v) { return jints(v); }));
#else
  (void)in; (void)cb;
#endif
  os << e.str() << "\n";
}

int cmd_z(const Args& a) {
  Rng r((uint64_t)argi(a, "seed", 1)); long long n = argi(a, "n", 10); int R = (int)argi(a, "R", 40);
  std::ofstream os(args(a, "out", "/dev/stdout")); long long nops = 0;
  for (long long b = 0; b < n; ++b) {
    Paths64 S, C; if (!gen_gps(r, R, 2, 6, S, C)) continue;
    Paths64 O; { Path64 p; int nv = (int)r.range(2, 4); for (int k = 0; k < nv; ++k) p.emplace_back((int64_t)r.range(0, R), (int64_t)r.range(0, R)); O.push_back(p); }
    bool with_open = r.range(0, 2) == 0;
#ifdef USINGZ
    label(S, 0); label(C, 100000); label(O, 200000);
#endif
    Paths64 in = S; in.insert(in.end(), C.begin(), C.end()); if (with_open) in.insert(in.end(), O.begin(), O.end());
    std::string what = "\"case\":{\"subj\":" + jpaths(S) + ",\"clip\":" + jpaths(C) + "}";
    guarded(os, what, 120, [&](std::ostream& os) {
    for (int ct = 1; ct <= 4; ++ct) for (int fr = 0; fr <= 3; ++fr) for (int cbmode = 0; cbmode <= 1; ++cbmode) {
      std::vector<std::vector<long long>> cb; long long counter = 1000000;
      { Clipper64 c; c.AddSubject(S); if (with_open) c.AddOpenSubject(O); c.AddClip(C);
#ifdef USINGZ
        if (cbmode) c.SetZCallback([&](const Point64&, const Point64&, const Point64&, const Point64&, Point64& pt) { pt.z = ++counter; cb.push_back({pt.x, pt.y, pt.z}); });
#endif
        Paths64 sol, op; c.Execute((ClipType)ct, (FillRule)fr, sol, op); ++nops;
        emit(os, "bool", jints({ct, fr, cbmode, with_open}), in, sol, op, cbmode, cb);
        // a second Execute on the same object (callback set once): the Z accounting must hold again
        cb.clear(); int ct2 = ct % 4 + 1; c.Execute((ClipType)ct2, (FillRule)fr, sol, op); ++nops;
        emit(os, "bool", jints({ct2, fr, cbmode, with_open, 2}), in, sol, op, cbmode, cb); }
      if (fr == 1) { cb.clear(); counter = 2000000; ClipperD c(0); c.AddSubject(toD(S)); c.AddClip(toD(C));
#ifdef USINGZ
        if (cbmode) c.SetZCallback([&](const PointD&, const PointD&, const PointD&, const PointD&, PointD& pt) { pt.z = ++counter; cb.push_back({(long long)std::llround(pt.x), (long long)std::llround(pt.y), (long long)pt.z}); });
#endif
        PathsD sol, op; c.Execute((ClipType)ct, (FillRule)fr, sol, op); ++nops;
        Paths64 in2 = S; in2.insert(in2.end(), C.begin(), C.end());
        emit(os, "boolD", jints({ct, fr, cbmode, 0}), in2, fromD(sol), fromD(op), cbmode, cb); }
    }
    // offsetting and rectangle clipping: geometry only
    for (int jt = 0; jt <= 3; ++jt) for (int et = 0; et <= 4; et += 2) for (double d : {4.0, -3.0}) {
      ClipperOffset co; co.AddPaths(S, (JoinType)jt, (EndType)et); Paths64 sol; co.Execute(d, sol); ++nops;
      emit(os, "off", jints({jt, et, (long long)d}), S, sol, Paths64(), 0, {}); }
    { // the same paths with a repeated vertex and an explicit closing vertex; in the Z build the copies carry DIFFERENT Z labels
      Paths64 S2 = S; for (auto& p : S2) { p.insert(p.begin() + 1, p[0]); p.push_back(p[0]); }
#ifdef USINGZ
      label(S2, 300000);
#endif
      for (int jt = 0; jt <= 3; ++jt) for (int et = 0; et <= 4; et += 1) { double d = (jt + et) % 2 ? 5.0 : -2.0;
        ClipperOffset co; co.AddPaths(S2, (JoinType)jt, (EndType)et); Paths64 sol; co.Execute(d, sol); ++nops;
        emit(os, "off", jints({jt, et, (long long)d, 2}), S2, sol, Paths64(), 0, {}); }
      Clipper64 c; c.AddSubject(S2); c.AddClip(C); Paths64 sol, op; c.Execute(ClipType::Xor, FillRule::NonZero, sol, op); ++nops;
      emit(os, "dupbool", "[4,1]", S2, sol, op, 0, {}); }
    { Rect64 rect(R / 4, R / 4, 3 * R / 4, 3 * R / 4); Paths64 a1 = RectClip(rect, S), a2 = RectClipLines(rect, O); nops += 2;
      emit(os, "rc", "[0]", S, a1, Paths64(), 0, {}); emit(os, "rcl", "[0]", O, a2, Paths64(), 0, {}); }
    });
  }
  fprintf(stderr, "ops=%lld\n", nops);
  return 0;
}
Reg reg_z("z", cmd_z);
}
