#include "common.hpp"
#include <csignal>
#include <unistd.h>

std::map<std::string, CmdFn>& registry() { static std::map<std::string, CmdFn> r; return r; }

int main(int argc, char** argv) {
  if (argc < 2) { for (auto& kv : registry()) printf("%s\n", kv.first.c_str()); return 2; }
  Args a;
  for (int i = 2; i + 1 < argc; i += 2) { std::string k = argv[i]; if (k.rfind("--", 0) == 0) k = k.substr(2); a[k] = argv[i + 1]; }
  auto it = registry().find(argv[1]);
  if (it == registry().end()) { fprintf(stderr, "unknown subcommand %s\n", argv[1]); return 2; }
  return it->second(a);
}
