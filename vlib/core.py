"""Driver core: builds the harness against /repo's working tree (content-hash cache), runs TLC
(model checking, generators, sharded trace validation), applies the soundness policy (replay
confirmation, known findings), writes evidence files."""
import concurrent.futures as cf
import hashlib, json, os, re, shutil, subprocess, sys, time, uuid

ROOT = os.path.dirname(os.path.dirname(os.path.abspath(__file__)))
REPO = os.environ.get("VERIF_REPO", "/repo")
CACHE = os.path.join(ROOT, ".cache")
SPEC = os.path.join(ROOT, "spec")
HARN = os.path.join(ROOT, "harness")
LIBINC = os.path.join(REPO, "CPP/Clipper2Lib/include")
LIBSRC = os.path.join(REPO, "CPP/Clipper2Lib/src")
TLAJAR = "/opt/veriftools/tla/tla2tools.jar:/opt/veriftools/tla/CommunityModules-deps.jar"
NCPU = min(16, os.cpu_count() or 4)
GUARD = "CLIPPER2_VERIF"

class ModelFailure(Exception):
    """The machinery itself failed (parse error, TLC error, timeout, harness crash outside a monitored call): exit 2."""

def log(*a):
    print(*a, file=sys.stderr, flush=True)

def sh(cmd, timeout=None, env=None, cwd=None, check=False, stdin=None):
    e = dict(os.environ); e.update(env or {})
    p = subprocess.run(cmd, stdout=subprocess.PIPE, stderr=subprocess.PIPE, timeout=timeout, env=e, cwd=cwd, input=stdin)
    if check and p.returncode != 0:
        raise ModelFailure("command failed (%d): %s\n%s" % (p.returncode, " ".join(map(str, cmd)), p.stderr.decode(errors="replace")[-3000:]))
    return p

# ------------------------------------------------------------------ build
VARIANTS = {
    "plain": ("g++", ["-O2"]),
    "hi":    ("g++", ["-O2", "-DCLIPPER2_HI_PRECISION=1"]),
    "z":     ("g++", ["-O2", "-DUSINGZ"]),
    "asan":  ("clang++", ["-O1", "-g", "-fsanitize=address,undefined", "-fno-sanitize-recover=all", "-fno-omit-frame-pointer"]),
    "asanz": ("clang++", ["-O1", "-g", "-fsanitize=address,undefined", "-fno-sanitize-recover=all", "-fno-omit-frame-pointer", "-DUSINGZ"]),
    "asanx": ("clang++", ["-O1", "-g", "-fsanitize=address,undefined", "-fno-sanitize=signed-integer-overflow", "-fno-sanitize-recover=all", "-fno-omit-frame-pointer"]),
    "tsan":  ("clang++", ["-O1", "-g", "-fsanitize=thread"]),
}

def _files(d, exts):
    out = []
    for r, _, fs in os.walk(d):
        for f in sorted(fs):
            if f.endswith(exts):
                out.append(os.path.join(r, f))
    return sorted(out)

def _hash(paths, extra=""):
    h = hashlib.sha256(extra.encode())
    for p in paths:
        h.update(p.encode()); h.update(open(p, "rb").read())
    return h.hexdigest()[:24]

def build(variant="plain", fams=("bool",), sources=None, name=None, extra_flags=(), with_lib=True):
    """Compile harness/main.cpp + harness/fam_<f>.cpp for f in fams (or explicit sources) + the library's .cpp files
    from /repo's working tree.  Object files and binaries are cached by content hash under .cache/."""
    if sources is None:
        sources = [os.path.join(HARN, "main.cpp")] + [os.path.join(HARN, "fam_%s.cpp" % f) for f in fams]
    if name is None:
        name = "vh_" + "_".join(fams)
    cxx, flags = VARIANTS[variant]
    flags = list(flags) + ["-std=c++17", "-D" + GUARD, "-I" + LIBINC, "-I" + HARN, "-pthread"] + list(extra_flags)
    headers = _files(LIBINC, (".h", ".hpp")) + _files(HARN, (".hpp", ".h"))
    srcs = list(sources) if sources else _files(HARN, (".cpp",))
    if with_lib:
        srcs = _files(LIBSRC, (".cpp",)) + srcs
    hh = _hash(headers, " ".join([cxx] + flags))
    objdir = os.path.join(CACHE, "obj"); os.makedirs(objdir, exist_ok=True)
    objs, jobs = [], []
    for s in srcs:
        o = os.path.join(objdir, "%s_%s.o" % (os.path.basename(s).replace(".", "_"), _hash([s], hh)))
        objs.append(o)
        if not os.path.exists(o):
            jobs.append((s, o))
    def comp(job):
        s, o = job
        tmp = o + ".%d.tmp" % os.getpid()
        p = sh([cxx] + flags + ["-c", s, "-o", tmp])
        if p.returncode != 0:
            return "compile failed: %s\n%s" % (s, p.stderr.decode(errors="replace")[-4000:])
        os.replace(tmp, o); return None
    if jobs:
        t0 = time.time()
        with cf.ThreadPoolExecutor(NCPU) as ex:
            errs = [e for e in ex.map(comp, jobs) if e]
        if errs:
            raise ModelFailure(errs[0])
        log("[build] %s: compiled %d TUs in %.1fs" % (variant, len(jobs), time.time() - t0))
    bindir = os.path.join(CACHE, "bin"); os.makedirs(bindir, exist_ok=True)
    exe = os.path.join(bindir, "%s_%s_%s" % (name, variant, hashlib.sha256(" ".join(objs).encode()).hexdigest()[:16]))
    if not os.path.exists(exe):
        tmp = exe + ".%d.tmp" % os.getpid()
        p = sh([cxx] + flags + objs + ["-o", tmp])
        if p.returncode != 0:
            raise ModelFailure("link failed:\n" + p.stderr.decode(errors="replace")[-4000:])
        os.replace(tmp, exe)
    return exe

def lib_tree_hash():
    return _hash(_files(os.path.join(REPO, "CPP/Clipper2Lib"), (".h", ".cpp")))

# ------------------------------------------------------------------ TLC
FAIL_RE = re.compile(r'^<<"FAIL", "([^"]+)", (-?\d+), "([^"]+)", (.*)>>$')
NOTE_RE = re.compile(r'^<<"NOTE", "([^"]+)", (-?\d+), (.*)>>$')
OUT_RE = re.compile(r'^<<"OUT", (.*)>>$')

WRAP_RE = re.compile(r'^<< "(FAIL|NOTE|OUT)",')
def unwrap_tuples(lines):
    """TLC pretty-prints a printed tuple wider than 80 columns over several lines ('<< "FAIL",' / '   "C01",' / ... / '   3 >>').
    Join such a tuple back into the one-line form the FAIL / NOTE / OUT patterns expect."""
    out = []; acc = None; depth = 0
    for line in lines:
        if acc is None:
            if WRAP_RE.match(line):
                acc = [line.strip()]; depth = line.count("<<") - line.count(">>")
                if depth <= 0:
                    out.append(_norm_tuple(" ".join(acc))); acc = None
            else:
                out.append(line)
        else:
            acc.append(line.strip()); depth += line.count("<<") - line.count(">>")
            if depth <= 0:
                out.append(_norm_tuple(" ".join(acc))); acc = None
    if acc is not None:
        out.append(_norm_tuple(" ".join(acc)))
    return out
def _norm_tuple(t):
    return re.sub(r"\s+>>", ">>", re.sub(r"<<\s+", "<<", t))

class TlcResult:
    def __init__(self):
        self.rc = 0; self.out = ""; self.generated = 0; self.distinct = 0; self.fails = []; self.notes = []; self.outs = []
        self.error = None; self.wall = 0.0; self.coverage = {}; self.depth = 0

def tlc(module, cfg, env=None, workers=1, timeout=900, heap="3g", simulate=None, depth=None, coverage=False, extra=(), seed=None):
    """Run TLC on spec/<module>.tla with spec/<cfg>; returns parsed result. Raises ModelFailure on parse/eval errors."""
    md = os.path.join(CACHE, "tlc", uuid.uuid4().hex); os.makedirs(md, exist_ok=True)
    cmd = ["java", "-Xss48m", "-Xmx" + heap, "-XX:+UseSerialGC" if workers == 1 else "-XX:+UseParallelGC", "-cp", TLAJAR, "tlc2.TLC",
           "-workers", str(workers), "-metadir", md, "-config", cfg, "-noGenerateSpecTE"]
    if simulate:
        cmd += ["-simulate", "num=%d" % simulate]
    if depth:
        cmd += ["-depth", str(depth)]
    if coverage:
        cmd += ["-coverage", "1"]
    if seed is not None:
        cmd += ["-seed", str(seed)]
    cmd += list(extra) + [module + ".tla"]
    r = TlcResult(); t0 = time.time()
    try:
        p = sh(cmd, timeout=timeout, env=env, cwd=SPEC)
    except subprocess.TimeoutExpired:
        shutil.rmtree(md, ignore_errors=True)
        raise ModelFailure("TLC timeout (%ds) on %s/%s" % (timeout, module, cfg))
    finally:
        shutil.rmtree(md, ignore_errors=True)
    r.wall = time.time() - t0; r.rc = p.returncode; r.out = p.stdout.decode(errors="replace")
    for line in unwrap_tuples(r.out.splitlines()):
        m = FAIL_RE.match(line)
        if m:
            r.fails.append({"prop": m.group(1), "line": int(m.group(2)), "clause": m.group(3), "detail": m.group(4)}); continue
        m = NOTE_RE.match(line)
        if m:
            r.notes.append({"kind": m.group(1), "line": int(m.group(2)), "detail": m.group(3)}); continue
        m = OUT_RE.match(line)
        if m:
            r.outs.append(m.group(1)); continue
        m = re.match(r"^(\d+) states generated, (\d+) distinct states found", line)
        if m:
            r.generated = int(m.group(1)); r.distinct = int(m.group(2))
        m = re.match(r"^The depth of the complete state graph search is (\d+)", line)
        if m:
            r.depth = int(m.group(1))
        if line.startswith("Error:") and r.error is None:
            r.error = line
    if r.error is None and r.rc != 0:
        r.error = "TLC exit code %d" % r.rc
    return r

def tlc_ok(res, what):
    if res.error:
        tail = "\n".join(res.out.splitlines()[-40:])
        raise ModelFailure("%s: %s\n%s" % (what, res.error, tail))
    return res

def count_lines(path):
    n = 0
    with open(path, "rb") as f:
        for _ in f:
            n += 1
    return n

def validate_traces(module, cfg, files, timeout=1500, heap="3g", env=None):
    """Validate each ndjson trace with its own TLC process (<= NCPU at a time). Each trace must be consumed
    completely (depth = lines + 1); returns list of (file, TlcResult)."""
    def one(f):
        e = dict(env or {}); e["TRACE"] = f
        res = tlc(module, cfg, env=e, workers=1, timeout=timeout, heap=heap)
        n = count_lines(f)
        if res.error is None and res.depth != n + 1:
            res.error = "trace not consumed: depth %d, %d lines (first unmatched event at line %d)" % (res.depth, n, res.depth)
        return (f, res)
    files = [f for f in files if os.path.exists(f) and os.path.getsize(f) > 0]
    with cf.ThreadPoolExecutor(NCPU) as ex:
        out = list(ex.map(one, files))
    for f, res in out:
        tlc_ok(res, "trace validation %s on %s" % (module, os.path.basename(f)))
    return out

def run_parallel(fn, items, n=NCPU):
    with cf.ThreadPoolExecutor(n) as ex:
        return list(ex.map(fn, items))

# ------------------------------------------------------------------ context / result
class Ctx:
    def __init__(self, prop, tier, seed):
        self.prop = prop; self.tier = tier; self.seed = seed
        self.quick = tier == "quick"
        self.work = os.path.join(CACHE, "work", "%s_%s_%d" % (prop, tier, os.getpid()))
        shutil.rmtree(self.work, ignore_errors=True); os.makedirs(self.work, exist_ok=True)
        self.t0 = time.time()
        self.states = 0; self.transitions = 0; self.traces = 0; self.evaluations = 0
        self.nontrivial = set(); self.samples = []; self.extra = {}; self.assumptions = []
        self.fails = []        # dicts: prop, clause, detail, replay (dict to be written)
        self.other = []        # failures tagged with other properties (reported by their own checks)
        self.trusted = ["TLC 1.8.0 + CommunityModules Json/IOUtils", "harness measurement code (exact __int128 winding/canonical forms)"]
    def path(self, name):
        return os.path.join(self.work, name)
    def add_tlc(self, res):
        self.states += res.distinct; self.transitions += res.generated
    def sample(self, s):
        if len(self.samples) < 4:
            self.samples.append(s)
    def cleanup(self):
        shutil.rmtree(self.work, ignore_errors=True)

def read_lines(path):
    with open(path) as f:
        return f.read().splitlines()

def case_slice(lines, lno, start_events=("Case",)):
    """lines of the case containing 1-based line lno: from the preceding start event up to lno."""
    i = lno - 1
    while i > 0 and json.loads(lines[i]).get("e") not in start_events:
        i -= 1
    return lines[i:lno]

def fail_rec(ctx, lines, fl, extra=None, start_events=("Case",)):
    """Build the replay record of one FAIL line and file it under ctx.fails (own property or 'ANY') / ctx.other."""
    ev = json.loads(lines[fl["line"] - 1])
    if ev.get("e") == "Crash":
        case = ev["case"]
    else:
        case = json.loads(case_slice(lines, fl["line"], start_events)[0])
    prop = ctx.prop if fl["prop"] == "ANY" else fl["prop"]
    rec = {"prop": prop, "clause": fl["clause"], "detail": fl["detail"], "case": case, "event": ev}
    rec.update(extra or {})
    (ctx.fails if prop == ctx.prop else ctx.other).append(rec)
    return rec

def collect_fails(ctx, results, start_events=("Case",), make_replay=None):
    """Turn FAIL lines of validated traces into ctx.fails (own property) / ctx.other."""
    for f, res in results:
        ctx.add_tlc(res)
        if not res.fails:
            continue
        lines = read_lines(f)
        for fl in res.fails:
            sl = case_slice(lines, fl["line"], start_events)
            rec = {"prop": fl["prop"], "clause": fl["clause"], "detail": fl["detail"], "case": json.loads(sl[0]), "event": json.loads(sl[-1])}
            if make_replay:
                rec.update(make_replay(rec, sl))
            (ctx.fails if fl["prop"] == ctx.prop else ctx.other).append(rec)

# ------------------------------------------------------------------ known findings / verdict
def load_known():
    p = os.path.join(ROOT, "known_findings.json")
    if not os.path.exists(p):
        return []
    return json.load(open(p)).get("findings", [])

def finish(ctx, level, rule, confirm=None, exhaustive=False):
    """Apply soundness policy and write evidence. confirm(rec) -> bool re-runs the single case."""
    known = [k for k in load_known() if k["property"] == ctx.prop and k.get("status", "open") == "open"]
    viol, kf = [], {}
    def input_matches(k, rec):
        # findings identified by the exact failing input: k["inputs"] is a list of {field: value} that must all equal the fields of the
        # failing case, k["clauses"] the clauses that input is known to fail; anything else on that input is still a violation
        case = rec.get("case") or {}
        return rec["clause"] in k.get("clauses", ()) and any(all(case.get(f) == v for f, v in inp.items()) for inp in k.get("inputs", ()))
    for rec in ctx.fails:
        k = next((k for k in known if k["class"] == rec["clause"]), None) or next((k for k in known if "inputs" in k and input_matches(k, rec)), None)
        if k:
            kf.setdefault(k["class"], []).append(rec); continue
        viol.append(rec)
    # de-duplicate by (clause, case) and confirm by replay
    seen, confirmed = set(), []
    for rec in viol:
        key = (rec["clause"], json.dumps(rec.get("case"), sort_keys=True)[:4000])
        if key in seen:
            continue
        seen.add(key)
        if len(confirmed) >= int(os.environ.get("VERIF_MAXVIOL", "5")):
            break
        if confirm is None or confirm(rec):
            confirmed.append(rec)
        else:
            ctx.extra.setdefault("unconfirmed", []).append({"clause": rec["clause"], "detail": rec["detail"]})
    os.makedirs(os.path.join(ROOT, "replays"), exist_ok=True)
    for cls, recs in kf.items():
        k = next(k for k in known if k["class"] == cls)
        print("KNOWN-FINDING: property=%s %s (%d occurrence(s) this run; class %s)" % (ctx.prop, k["what"], len(recs), cls))
    for rec in confirmed:
        body = json.dumps(rec, sort_keys=True)
        path = os.path.join(ROOT, "replays", "%s_%s.json" % (ctx.prop, hashlib.sha256(body.encode()).hexdigest()[:12]))
        with open(path, "w") as f:
            json.dump(rec, f, indent=1)
        print("VIOLATION property=%s replay=%s" % (ctx.prop, path))
        log("  clause=%s detail=%s" % (rec["clause"], rec["detail"]))
    if ctx.other:
        ctx.extra["failures_tagged_other_properties"] = sorted({"%s:%s" % (r["prop"], r["clause"]) for r in ctx.other})
    cov = {"evaluations": int(ctx.evaluations), "distinct_nontrivial": len(ctx.nontrivial) if isinstance(ctx.nontrivial, set) else int(ctx.nontrivial),
           "rule": rule, "samples": ctx.samples or ["(none)"], "states": int(ctx.states), "transitions": int(ctx.transitions),
           "traces_validated_against_impl": int(ctx.traces), "trusted_base": ctx.trusted, "exhaustive": bool(exhaustive),
           "known_findings_seen": {c: len(r) for c, r in kf.items()}, "lib_tree_hash": lib_tree_hash()}
    cov.update(ctx.extra)
    ev = {"property_id": ctx.prop, "tier": ctx.tier, "seed": int(ctx.seed), "level": level, "coverage": cov,
          "assumptions": ctx.assumptions, "wall_s": round(time.time() - ctx.t0, 1), "violations": len(confirmed)}
    # evidence/ always describes runs against /repo itself; runs against another tree (VERIF_REPO, used by the seeding tools) are kept apart
    evdir = os.path.join(ROOT, "evidence") if os.path.realpath(REPO) == "/repo" else os.path.join(CACHE, "evidence_other_tree")
    os.makedirs(evdir, exist_ok=True)
    with open(os.path.join(evdir, ctx.prop + ".json"), "w") as f:
        json.dump(ev, f, indent=1)
    ctx.cleanup()
    return 1 if confirmed else 0
