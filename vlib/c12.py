"""C12 - results depend only on the current inputs, not on an object's history (DESIGN.md 5/C12)."""
import json, os
from . import core

RULE = ("TLC enumerates EVERY history of length N over the alphabets of spec/Clipper2.tla (Clipper64/ClipperD: 10+2K letters incl. shared "
        "ReuseableDataContainer64, option setters, Execute into paths/tree, Clear; ClipperOffset: G groups incl. Joined groups with 2-point "
        "paths, a vertex-less Polygon group, holes, single points + Execute/ExecuteTree/Clear/ReverseSolution; RectClip64/RectClipLines64: "
        "sequences of Execute) with the abstract state attached to every Execute; the harness replays each history into one real object and, at "
        "every Execute, into a fresh object fed the abstract state, and records bit-identity; HistTrace.tla re-runs the machine over the logged "
        "calls (binding) and checks identity, plus for offsetting that pairwise-distinct far-apart groups give the bag union of each unit offset "
        "alone; evaluations = Execute observations judged; non-trivial = distinct (history, geometry world) with at least one Execute returning a "
        "non-empty result")

def gen_histories(ctx, kind, N, K, G):
    cfg = "_gen_%s_%d_%d.cfg" % (kind, N, os.getpid())
    with open(os.path.join(core.SPEC, cfg), "w") as f:
        f.write('CONSTANTS Kind = "%s" N = %d K = %d G = %d\nSPECIFICATION Spec\nINVARIANTS Emit\nCHECK_DEADLOCK FALSE\n' % (kind, N, K, G))
    try:
        r = core.tlc_ok(core.tlc("Clipper2", cfg, workers=core.NCPU, timeout=1500, heap="8g"), "Clipper2 history generation (%s)" % kind)
    finally:
        os.unlink(os.path.join(core.SPEC, cfg))
    ctx.add_tlc(r)
    out = ctx.path("hist_%s_%d_%d_%d.ndjson" % (kind, N, K, G))
    with open(out, "w") as f:
        for o in r.outs:
            f.write(json.loads(o) + "\n")
    ctx.extra.setdefault("histories_enumerated", {})["%s_N%d_K%d_G%d" % (kind, N, K, G) if not ctx.quick else kind] = len(r.outs)
    return out

def model_check(ctx):
    for kind, N, K, G in (("c64", 4, 2, 1), ("off", 4, 1, 3), ("rc", 4, 1, 2)):
        cfg = "_mc_%s_%d.cfg" % (kind, os.getpid())
        with open(os.path.join(core.SPEC, cfg), "w") as f:
            f.write('CONSTANTS Kind = "%s" N = %d K = %d G = %d\nSPECIFICATION Spec\nINVARIANTS TypeOK StateIsFunctionOfHolding ExecIsPure ReuseOnce\nPROPERTY ExecPureAction\nCHECK_DEADLOCK FALSE\n' % (kind, N, K, G))
        try:
            r = core.tlc_ok(core.tlc("Clipper2", cfg, workers=8, timeout=600), "Clipper2 model check (%s)" % kind)
        finally:
            os.unlink(os.path.join(core.SPEC, cfg))
        ctx.add_tlc(r)

def run(ctx):
    q = ctx.quick; s = ctx.seed
    model_check(ctx)
    # thorough: offset histories of length 5 over the full alphabet (21 letters: 4.1 M histories x 7 worlds) exhaust TLC's heap per trace file;
    # the thorough tier therefore takes length 4 over the full alphabet AND length 5 over a 13-letter alphabet (4 groups, 1 delta)
    plans = [("c64", 4, 2, 1), ("off", 4, 2, 8), ("rc", 5, 1, 3)] if q else [("c64", 5, 2, 1), ("off", 4, 2, 8), ("off", 5, 1, 4), ("rc", 5, 1, 3)]
    jobs = []
    exe = core.build("plain", ("hist",))
    for pi, (kind, N, K, G) in enumerate(plans):
        hist = gen_histories(ctx, kind, N, K, G)
        worlds = []
        if kind == "c64":
            nw = 4 if q else 6
            for w in range(nw):
                worlds.append({"kind": "c64" if w % 3 != 2 else "cd", "rectil": w % 2, "seed": s * 100 + w})
            worlds.append({"kind": "c64", "many": 1, "seed": s * 100 + 50})      # > 16 local minima, several at the same point (sort stability)
        elif kind == "off":
            for w in range(3 if q else 6):
                worlds.append({"kind": "off", "negative": 1 if w % 3 == 2 else 0, "seed": s * 100 + w})
            worlds.append({"kind": "off", "mixed": 1, "seed": s * 100 + 70})    # positive and negative polygon groups and open groups on one object (orientation state across Clear)
        else:
            for w in range(4):
                worlds.append({"kind": "rc", "seed": s * 100 + w})
        nshard = max(1, core.NCPU // max(1, len(worlds))) * (1 if q else 3)      # thorough: smaller files (a 600 000-line trace exhausts the 3 GB heap of one TLC process)
        for wi, w in enumerate(worlds):
            for sh in range(nshard):
                a = dict(w); a.update({"in": hist, "K": K, "G": G, "skip": sh, "stride": nshard})
                jobs.append({"args": a, "out": ctx.path("t_%s%d_%d_%d.ndjson" % (kind, pi, wi, sh))})
    def one(j):
        cmd = [exe, "hist"]
        for k, v in j["args"].items():
            cmd += ["--" + k, str(v)]
        cmd += ["--out", j["out"]]
        p = core.sh(cmd, timeout=1500)
        if p.returncode != 0:
            raise core.ModelFailure("harness hist failed (%d): %s\n%s" % (p.returncode, " ".join(cmd), p.stderr.decode(errors="replace")[-1500:]))
        return j
    core.run_parallel(one, jobs)
    res = core.validate_traces("HistTrace", "HistTrace.cfg", [j["out"] for j in jobs], timeout=2400, heap="4g")
    byf = {j["out"]: j for j in jobs}
    for f, r in res:
        ctx.add_tlc(r)
        nh = 0
        with open(f) as fh:
            for line in fh:
                if not line.startswith('{"e":"Hist"'):
                    continue
                nh += 1
                ev = None
                if nh % 997 == 1 or len(ctx.samples) < 3:
                    ev = json.loads(line)
                    if len(ctx.samples) < 3:
                        ctx.sample({"kind": ev["kind"], "steps": ev["steps"], "obs": ev["obs"], "fresh": ev["fresh"], "world": byf[f]["args"]})
                # cheap counters without full JSON parse
                i = line.find('"obs":'); jx = line.find('"fresh":')
                obs = json.loads(line[i + 6:jx - 1])
                ctx.evaluations += len(obs)
                if any(o[3] > 0 for o in obs):
                    ctx.nontrivial.add(hash((line[:i], byf[f]["args"]["seed"], byf[f]["args"]["kind"])))
        ctx.traces += nh
        if r.fails:
            lines = core.read_lines(f)
            for fl in r.fails:
                ev = json.loads(lines[fl["line"] - 1])
                if ev.get("e") == "Crash":
                    ev = {"e": "Crash", "kind": ev.get("kind", "?"), "steps": ev["case"].get("steps", []), "sig": ev.get("sig"), "obs": [], "fresh": []}
                rec = {"prop": fl["prop"], "clause": fl["clause"], "detail": fl["detail"], "case": {"steps": ev["steps"], "kind": ev["kind"]},
                       "event": ev, "harness": {"args": byf[f]["args"]}}
                if fl["prop"] == "C12" and ev["kind"] == "off":
                    rec["clause"] = classify_off(rec, lines)
                (ctx.fails if fl["prop"] == ctx.prop else ctx.other).append(rec)
    return core.finish(ctx, "model_checking", RULE, confirm=confirm, exhaustive=True)

def classify_off(rec, lines):
    return rec["clause"]

def replay_rec(rec):
    work = os.path.join(core.CACHE, "work", "replay12_%d" % os.getpid()); os.makedirs(work, exist_ok=True)
    inf = os.path.join(work, "in.ndjson"); out = os.path.join(work, "out.ndjson")
    a = dict(rec["harness"]["args"])
    # rebuild the history line (with abstract states) from the logged steps + fresh states
    ev = rec["event"]; steps = []; k = 0
    if ev.get("e") == "Crash":
        steps = ev["steps"]          # the generator's history line (abstract states included)
    else:
        obs_idx = {o[0]: n for n, o in enumerate(ev["obs"])}
        for i, st in enumerate(ev["steps"], 1):
            if i in obs_idx:
                fr = ev["fresh"][obs_idx[i]]; steps.append([st[0], st[1], fr[0], fr[1], fr[2]])
            else:
                steps.append(st)
    with open(inf, "w") as f:
        f.write(json.dumps(steps) + "\n")
    a.update({"in": inf, "skip": 0, "stride": 1})
    exe = core.build("plain", ("hist",))
    cmd = [exe, "hist"]
    for k2, v in a.items():
        cmd += ["--" + k2, str(v)]
    cmd += ["--out", out]
    p = core.sh(cmd, timeout=600)
    if p.returncode != 0:
        raise core.ModelFailure("replay harness failed: " + p.stderr.decode(errors="replace")[-1000:])
    res = core.validate_traces("HistTrace", "HistTrace.cfg", [out])
    return any(fl["prop"] == "C12" and fl["clause"] == rec["clause"] for _, r in res for fl in r.fails)

def confirm(rec):
    return replay_rec(rec)

def replay(path, seed):
    rec = json.load(open(path))
    if replay_rec(rec):
        print("VIOLATION property=C12 replay=%s" % path); return 1
    print("replay: no violation reproduced"); return 0
