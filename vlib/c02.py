"""C02 - axis-parallel inputs are clipped exactly (DESIGN.md 5/C02)."""
import os
from . import core, boolfam

RULE = ("TLC enumerates complete scopes: GenRect3 (all triples of oriented rectangles on the 2x2 lattice), GenRect4 (doubled subject rectangle x all ordered clip pairs on the 2x3 lattice) and GenRect.tla: ALL pairs of rectangles on the 4x4 grid in both orientations (40 000 inputs, the scope named by the "
        "property); each is executed with 4 clip types x 4 fill rules x PreserveCollinear x ReverseSolution x paths/tree and judged cell by cell "
        "by TLC (exact, no tolerance), plus area and vertex-coordinate clauses; random self-overlapping rectilinear walks (incl. zero-width and "
        "repeated sections) on a 6x6 grid under scales 1, 3 (+2^40), 1000, 2^13 (+2^52); non-trivial = non-empty solution, distinct by (input, "
        "embedding, solution)")

def run(ctx):
    q = ctx.quick; s = ctx.seed
    gen = ctx.path("rectpairs.ndjson")
    g = core.tlc_ok(core.tlc("GenRect", "GenRect.cfg", env={"OUT": gen}, timeout=300), "GenRect"); ctx.add_tlc(g)
    npairs = core.count_lines(gen)
    ctx.extra["rect_pairs_enumerated_by_tlc"] = npairs
    J = []; i = 0
    nsh = 16
    stride_sel = 1   # every pair (exhaustive) in both tiers; quick uses the lite option set for 3/4 of the pairs
    for k in range(nsh):
        # quick: every pair x 4 clip types x 4 fill rules x paths/tree (PreserveCollinear / ReverseSolution off); thorough: all 128 configurations
        J.append(boolfam.harness_job(ctx, i, "plain", {"fam": "in", "in": gen, "n": 0, "skip": k, "stride": nsh, "emb": "0", "cfg": "batchlite" if q else "batch", "light": 1, "seed": s})); i += 1
    for k in range(6 if q else 16):
        J.append(boolfam.harness_job(ctx, i, "plain" if k % 2 else "hi", {"fam": "walk", "n": 40 if q else 250, "grid": 6, "emb": "0,5,2,3", "cfg": "batch", "seed": s * 100 + k})); i += 1
    # complete scope of three oriented rectangles on the 2x2 lattice (1+2 and 2+1): coincident copies, cancelling pairs, shared corners
    gen3 = ctx.path("rect3.ndjson")
    g3 = core.tlc_ok(core.tlc("GenRect3", "GenRect3.cfg", env={"OUT": gen3}, timeout=300), "GenRect3"); ctx.add_tlc(g3)
    ctx.extra["rect_triples_enumerated_by_tlc"] = core.count_lines(gen3)
    for k in range(4):
        J.append(boolfam.harness_job(ctx, i, "plain", {"fam": "in", "in": gen3, "n": 0, "skip": k, "stride": 4, "emb": "0", "cfg": "batch" if not q else "batchlite", "light": 1, "seed": s})); i += 1
    # a doubled subject rectangle (cancelling or reinforcing pair) against every ordered pair of oriented clip rectangles on the 2x3 lattice
    gen4 = ctx.path("rect4.ndjson")
    g4 = core.tlc_ok(core.tlc("GenRect4", "GenRect4.cfg", env={"OUT": gen4}, timeout=300), "GenRect4"); ctx.add_tlc(g4)
    ctx.extra["doubled_subject_cases_enumerated_by_tlc"] = core.count_lines(gen4)
    for k in range(8):
        J.append(boolfam.harness_job(ctx, i, "plain", {"fam": "in", "in": gen4, "n": 0, "skip": k, "stride": 8, "emb": "0", "cfg": "batchlite" if q else "batch", "light": 1, "seed": s})); i += 1
    # many random rectangles (3-6) on a small lattice: stale horizontal segments / joins need several coincident horizontals
    for k in range(8 if q else 32):
        J.append(boolfam.harness_job(ctx, i, "plain", {"fam": "rects", "n": 1500 if q else 10000, "grid": [3, 4, 5][k % 3], "emb": "0", "cfg": "batchlite", "light": 1, "seed": s * 100 + 40 + k})); i += 1
    if not q:   # the rectangle pairs again at scale (2^13, +2^52) and on the HI_PRECISION build
        for k in range(nsh):
            J.append(boolfam.harness_job(ctx, i, "hi", {"fam": "in", "in": gen, "n": 0, "skip": k, "stride": nsh, "emb": "3", "cfg": "batch", "seed": s})); i += 1
    jobs = boolfam.run_jobs(ctx, J)
    boolfam.tally(ctx, jobs)
    boolfam.validate(ctx, jobs)
    return core.finish(ctx, "model_checking", RULE, confirm=boolfam.confirm("C02"), exhaustive=True)

def replay(path, seed):
    return boolfam.replay_file(path, "C02")
