"""C04 - PolyTree solutions carry the same paths with correct nesting (DESIGN.md 5/C04)."""
from . import core, boolfam

RULE = ("every (clip type, fill rule, PreserveCollinear, ReverseSolution) executed into Paths and into a PolyTree64 on: deep nests (recursive "
        "boxes to depth 6, rings split at random between subject and clip), TLC-certified general-position polygons, winding ladders and "
        "rectilinear walks on even coordinates (features >= 2 apart, coincident edges / touching holes / horizontal joins), and arbitrary random polygons "
        "(no certificate: only containment clauses, only when the output rings are simple and apart); TLC compares the "
        "tree's rings with the paths result (bag of canonical rings), recomputes the containment depth of every node from the ring geometry "
        "(independent nesting oracle) and checks level/orientation, child-in-parent, sibling disjointness, area; PolyTreeD shape vs PolyTree64 is "
        "checked under C16; non-trivial = non-empty solution, distinct by (input, solution)")

def run(ctx):
    q = ctx.quick; s = ctx.seed; J = []; i = 0
    def add(variant, **a):
        nonlocal i
        J.append(boolfam.harness_job(ctx, i, variant, a)); i += 1
    for k in range(4 if q else 16):
        add("plain", fam="nest", n=50 if q else 300, emb="0", npts=40, cfg="lite" if k % 2 else "full", seed=s * 100 + k)
    for k in range(6 if q else 24):
        add("plain" if k % 2 == 0 else "hi", fam="gps", n=25 if q else 120, emb="0", npts=40, cfg="full", seed=s * 1000 + k, R=[32, 48, 64][k % 3], maxpaths=3, maxv=6)
    for k in range(4 if q else 16):
        add("plain", fam="walk", n=60 if q else 300, grid=6, mul=2, emb="0", cfg="lite" if k % 2 else "full", seed=s * 100 + 30 + k)
    add("plain", fam="ladder", emb="0", npts=40, cfg="lite", seed=s)
    for k in range(4 if q else 12):   # concentric rings + rectangles collinear with ring edges: nested polygons merged by horizontal joins
        add("plain", fam="ringrect", n=120 if q else 700, emb="0", cfg="lite" if k % 2 else "full", seed=s * 100 + 80 + k)
    for k in range(8 if q else 32):   # unions of 5-8 mixed-orientation rectangles on even coordinates: rings split, absorbed and re-split by horizontal joins
        add("plain", fam="rects", n=800 if q else 2500, grid=8, kmin=5, kmax=8, subjonly=1, mul=2, emb="0", cfg="lite", cts="2", frs="0,1", seed=s * 100 + 90 + k)
    for k in range(8 if q else 16):   # "loose": arbitrary random polygons (no input certificate, crossings a fraction of a unit apart); the harness keeps only the
        # inputs for which some tree execution splits a self-intersecting output ring (hook H4 split_fn as a search director: about 1 input in 10);
        # only the tree's own consistency is judged, and only when TLC finds the output rings simple and apart
        add("plain", fam="gps", gpt=0, needsplit=1, n=12000 if q else 16000, emb="0", npts=8, cfg="lite", cts="1,2,3,4", frs="0,1", seed=s * 1000 + 500 + k,
            R=[200, 1000, 400][k % 3], maxpaths=1 + k % 3, maxv=6 + 2 * (k % 4))
    if not q:
        for k in range(8):
            add("plain", fam="nest", n=60, emb="2,3", npts=40, cfg="lite", seed=s * 100 + 60 + k)
    jobs = boolfam.run_jobs(ctx, J)
    boolfam.tally(ctx, jobs)
    ntree = 0
    import json
    for j in jobs:
        for line in open(j["out"]):
            if line.startswith('{"e":"Tree"'):
                ev = json.loads(line); ntree += 1
                if ev["par"] and max(ev["par"]) > 0:
                    ctx.extra["trees_with_nesting"] = ctx.extra.get("trees_with_nesting", 0) + 1
                    ctx.extra["max_tree_nodes"] = max(ctx.extra.get("max_tree_nodes", 0), len(ev["par"]))
    ctx.extra["tree_events"] = ntree
    boolfam.validate(ctx, jobs)
    return core.finish(ctx, "model_checking", RULE, confirm=boolfam.confirm("C04"))

def replay(path, seed):
    return boolfam.replay_file(path, "C04")
