"""C10 - no input can crash, hang or corrupt memory (DESIGN.md 5/C10)."""
import json, os
from . import core

RULE = ("TLC (GenDegen.tla) enumerates the degeneracy grammar: 15 path-list shapes (no path, empty path, 1-2 points, duplicates, collinear, spike, "
        "coincident copies, zero area, explicitly closed, bow-tie, hole, mixtures) x shapes x 6 magnitude classes (1 .. 2^62) x 38 entry points "
        "(boolean paths/tree 64/D, offset paths/tree/D, RectClip(Lines), Minkowski, utilities, C exports, and two short call sequences: offset into a destroyed polytree then into paths, shared reusable containers with open paths) x parameters = 43 k calls; each call runs "
        "in its own child under ASan+UBSan+LSan (USINGZ build for part of them; signed-overflow checks only for |coordinates| <= 2^29) with a 30 s (retry 300 s) "
        "watchdog; single allocation faults are enumerated completely for the selected calls (allocation k = 1..N fails, N counted first); "
        "CallTrace.tla accepts only Call.Return.Destroyed(no leak) or, with a fault, Call.Throw(bad_alloc).Destroyed; evaluations = calls + fault "
        "runs; non-trivial = distinct (entry point, shapes, magnitude, parameters, fault index) whose call allocated memory or returned a result")

def run(ctx):
    q = ctx.quick; s = ctx.seed
    gen = ctx.path("degen.ndjson")
    g = core.tlc_ok(core.tlc("GenDegen", "GenDegen.cfg", env={"OUT": gen}, timeout=300), "GenDegen"); ctx.add_tlc(g)
    ncalls = core.count_lines(gen); ctx.extra["calls_enumerated_by_tlc"] = ncalls
    # split by magnitude: full UBSan for mag <= 1 (<= 2^29), no signed-overflow check above
    lo = ctx.path("degen_lo.ndjson"); hi = ctx.path("degen_hi.ndjson")
    with open(gen) as f, open(lo, "w") as fl, open(hi, "w") as fh:
        for line in f:
            (fl if '"mag":0' in line or '"mag":1' in line else fh).write(line)
    jobs = []
    stride = 6 if q else 1           # quick: every 6th call (offset chosen by the seed), thorough: the whole product
    nsh = 8
    for src, var in ((lo, "asan"), (hi, "asanx")):
        for k in range(nsh):
            jobs.append({"variant": var if k % 4 else (var + "z" if var == "asan" else var), "args": {"in": src, "skip": (k + (s % stride) * nsh) % (stride * nsh), "stride": stride * nsh}, "out": ctx.path("c10_%s_%d.ndjson" % (var, k))})
    # fault enumeration on a subset of calls (every call has its own complete single-fault sequence)
    fstride = 400 if q else 60
    for k in range(nsh):
        jobs.append({"variant": "asan", "args": {"in": gen, "skip": (k + (s % 7)) % (fstride * nsh), "stride": fstride * nsh, "faults": 1, "maxfault": 300 if q else 1500}, "out": ctx.path("c10_fault_%d.ndjson" % k)})
    run_jobs(jobs)
    res = core.validate_traces("CallTrace", "CallTrace.cfg", [j["out"] for j in jobs], timeout=2400)
    byf = {j["out"]: j for j in jobs}
    nfault = 0; throws = 0
    for f, r in res:
        ctx.add_tlc(r)
        lines = core.read_lines(f)
        for ln in lines:
            if ln.startswith('{"e":"Call"'):
                ctx.evaluations += 1; ctx.traces += 1
                ev = json.loads(ln)
                if ev["fault"] > 0:
                    nfault += 1
                ctx.nontrivial.add(hash((ev["ep"], ev["si"], ev["ci"], ev["mag"], json.dumps(ev["a"]), ev["fault"])))
                if len(ctx.samples) < 4 and (ev["fault"] > 0 or len(ctx.samples) < 2):
                    ctx.sample({k: ev[k] for k in ("ep", "si", "ci", "mag", "a", "fault")})
            elif ln.startswith('{"e":"Throw"'):
                throws += 1
            elif ln.startswith('{"e":"Crash"'):
                ctx.evaluations += 1
        ctx.extra["leaks_on_bad_alloc_path_not_judged"] = ctx.extra.get("leaks_on_bad_alloc_path_not_judged", 0) + sum(1 for n in r.notes if n["kind"] == "leak_on_bad_alloc_path")
        for fl in r.fails:
            ev = json.loads(lines[fl["line"] - 1])
            case = ev.get("case")
            if case is None:      # Return/Throw/Destroyed: find the Call
                i = fl["line"] - 1
                while i > 0 and not lines[i].startswith('{"e":"Call"'):
                    i -= 1
                call = json.loads(lines[i]); case = {"call": call}
            rec = {"prop": ctx.prop if fl["prop"] in ("ANY", "C10") else fl["prop"], "clause": fl["clause"], "detail": fl["detail"], "case": case,
                   "event": {k: v for k, v in ev.items() if k != "case"}, "fault": ev.get("fault", 0), "harness": {"variant": byf[f]["variant"], "args": byf[f]["args"]}}
            (ctx.fails if rec["prop"] == ctx.prop else ctx.other).append(rec)
    ctx.extra["single_fault_runs"] = nfault; ctx.extra["bad_alloc_reached_caller"] = throws
    ctx.trusted += ["clang 14 AddressSanitizer / UndefinedBehaviorSanitizer / LeakSanitizer as monitors", "replaced global operator new for fault injection", "20 s watchdog per call (unchanged tree: < 0.1 s)"]
    return core.finish(ctx, "fault_enumeration", RULE, confirm=confirm)

def run_jobs(jobs):
    exes = {v: core.build(v, ("c10",)) for v in sorted({j["variant"] for j in jobs})}
    def one(j):
        cmd = [exes[j["variant"]], "c10"]
        for k, v in j["args"].items():
            cmd += ["--" + k, str(v)]
        cmd += ["--out", j["out"]]
        env = {"ASAN_OPTIONS": "detect_leaks=1:allocator_may_return_null=1:abort_on_error=0:exitcode=1", "UBSAN_OPTIONS": "halt_on_error=1:exitcode=1", "LSAN_OPTIONS": "exitcode=0"}
        p = core.sh(cmd, timeout=3000, env=env)
        if p.returncode != 0:
            raise core.ModelFailure("harness c10 failed (%d): %s" % (p.returncode, p.stderr.decode(errors="replace")[-1500:]))
    core.run_parallel(one, jobs)

def replay_rec(rec):
    work = os.path.join(core.CACHE, "work", "replay10_%d" % os.getpid()); os.makedirs(work, exist_ok=True)
    inf = os.path.join(work, "in.ndjson")
    case = rec["case"]
    if "call" in case:   # rebuild the generator record from GenDegen's table is not possible here: rerun the shard instead
        j = {"variant": rec["harness"]["variant"], "args": rec["harness"]["args"], "out": os.path.join(work, "out.ndjson")}
    else:
        with open(inf, "w") as f:
            f.write(json.dumps(case) + "\n")
        a = {"in": inf, "skip": 0, "stride": 1}
        if rec.get("fault", 0) != 0:
            a.update({"faults": 1, "maxfault": 3000, "onlyfault": rec["fault"]})
        j = {"variant": rec["harness"]["variant"], "args": a, "out": os.path.join(work, "out.ndjson")}
    run_jobs([j])
    res = core.validate_traces("CallTrace", "CallTrace.cfg", [j["out"]])
    return any(fl["clause"] == rec["clause"] for _, r in res for fl in r.fails)

def confirm(rec):
    return replay_rec(rec)

def replay(path, seed):
    rec = json.load(open(path))
    if replay_rec(rec):
        print("VIOLATION property=C10 replay=%s" % path); return 1
    print("replay: no violation reproduced"); return 0
