"""Shared driver of the offsetting checks C06 (polygons) and C07 (open paths): OffsetTrace.tla."""
import json, os
from . import core

def run_jobs(jobs):
    exes = {v: core.build(v, ("off",)) for v in sorted({j["variant"] for j in jobs})}
    def one(j):
        cmd = [exes[j["variant"]], "off"]
        for k, v in j["args"].items():
            cmd += ["--" + k, str(v)]
        cmd += ["--out", j["out"]]
        p = core.sh(cmd, timeout=1200)
        if p.returncode != 0:
            raise core.ModelFailure("harness off failed: " + p.stderr.decode(errors="replace")[-1500:])
    core.run_parallel(one, jobs)

def run(ctx, kind, rule):
    q = ctx.quick; s = ctx.seed; jobs = []
    for k in range(16 if q else 48):
        jobs.append({"variant": "plain", "args": {"kind": kind, "seed": s * 1000 + k, "n": 12 if q else 40, "nparam": 10, "npts": 160 if q else 260}, "out": ctx.path("off_%02d.ndjson" % k)})
    run_jobs(jobs)
    res = core.validate_traces("OffsetTrace", "OffsetTrace.cfg", [j["out"] for j in jobs], timeout=3600)
    byf = {j["out"]: j for j in jobs}
    cls = [0, 0, 0]
    for f, r in res:
        ctx.add_tlc(r)
        lines = core.read_lines(f)
        dropped = {n["line"] for n in r.notes if n["kind"] == "DROP"}
        for n in r.notes:
            if n["kind"] == "CLASSES":
                a = [int(x) for x in n["detail"].strip("<>").split(",")]
                for i in range(3):
                    cls[i] += a[i]
        for i, ln in enumerate(lines, 1):
            if ln.startswith('{"e":"Off"') and i not in dropped:
                ctx.evaluations += 1; ctx.traces += 1
                ev = json.loads(ln)
                if ev["n"] > 0:
                    ctx.nontrivial.add(hash(json.dumps([ev["paths"], ev["jt"], ev["et"], ev["d4"], ev["ml100"], ev["at4"], ev["rs"]])))
                if len(ctx.samples) < 3:
                    ctx.sample({k: ev[k] for k in ("paths", "jt", "et", "d4", "ml100", "at4", "rs", "n")})
        ctx.extra["calls_dropped_not_in_input_class"] = ctx.extra.get("calls_dropped_not_in_input_class", 0) + len(dropped)
        for fl in r.fails:
            ev = json.loads(lines[fl["line"] - 1])
            case = ev["case"] if ev.get("e") == "Crash" else {k: ev[k] for k in ("paths", "jt", "et", "d4", "ml100", "at4", "rs", "pseed", "sc") if k in ev}
            prop = ctx.prop if fl["prop"] == "ANY" else fl["prop"]
            rec = {"prop": prop, "clause": fl["clause"], "detail": fl["detail"], "case": case, "event": {k: v for k, v in ev.items() if k not in ("pts", "cover")},
                   "harness": {"variant": byf[f]["variant"], "args": byf[f]["args"]}}
            (ctx.fails if prop == ctx.prop else ctx.other).append(rec)
    ctx.extra["sample_points_must_mustnot_free"] = cls
    return core.finish(ctx, "model_checking", rule, confirm=lambda rec: replay_rec(rec, ctx.prop))

def replay_rec(rec, prop):
    work = os.path.join(core.CACHE, "work", "replayoff_%d" % os.getpid()); os.makedirs(work, exist_ok=True)
    inf = os.path.join(work, "in.ndjson")
    with open(inf, "w") as f:
        f.write(json.dumps(rec["case"]) + "\n")
    a = dict(rec["harness"]["args"]); a["in"] = inf
    j = {"variant": rec["harness"]["variant"], "args": a, "out": os.path.join(work, "out.ndjson")}
    run_jobs([j])
    res = core.validate_traces("OffsetTrace", "OffsetTrace.cfg", [j["out"]])
    return any(fl["prop"] in (prop, "ANY") and fl["clause"] == rec["clause"] for _, r in res for fl in r.fails)

def replay(path, prop):
    rec = json.load(open(path))
    if replay_rec(rec, prop):
        print("VIOLATION property=%s replay=%s" % (prop, path)); return 1
    print("replay: no violation reproduced"); return 0
