"""Shared driver of the offsetting checks C06 (polygons) and C07 (open paths): OffsetTrace.tla."""
import json, os
from . import core

def run_jobs(jobs):
    exes = {v: core.build(v, ("off", "offj")) for v in sorted({j["variant"] for j in jobs})}
    def one(j):
        cmd = [exes[j["variant"]], j.get("cmd", "off")]
        for k, v in j["args"].items():
            cmd += ["--" + k, str(v)]
        cmd += ["--out", j["out"]]
        p = core.sh(cmd, timeout=1200)
        if p.returncode != 0:
            raise core.ModelFailure("harness off failed: " + p.stderr.decode(errors="replace")[-1500:])
    core.run_parallel(one, jobs)

def run(ctx, kind, rule):
    q = ctx.quick; s = ctx.seed; jobs = []
    for k in range(16 if q else 48):
        jobs.append({"variant": "plain", "args": {"kind": kind, "seed": s * 1000 + k, "n": 12 if q else 40, "nparam": 10, "npts": 160 if q else 260, "jout": ctx.path("join_%02d.ndjson" % k)}, "out": ctx.path("off_%02d.ndjson" % k)})
    run_jobs(jobs)
    cls = [0, 0, 0]
    judge(ctx, jobs, cls)
    joins(ctx, kind, jobs, cls)
    ctx.extra["sample_points_must_mustnot_free"] = cls
    return core.finish(ctx, "model_checking", rule, confirm=lambda rec: replay_rec(rec, ctx.prop))

def joins(ctx, kind, jobs, cls):
    """Layer 2 binding (hook H5): what ClipperOffset appends per vertex, validated against OffsetJoinTrace.tla (J1-J3) for the calls judged
    above and for arbitrary small paths.  A failure is an engine-level divergence: recorded, and ESCALATED to the observable check on
    that call with a dense sample (DESIGN.md 3.6) - never a verdict by itself."""
    q = ctx.quick
    files = [j["args"]["jout"] for j in jobs if os.path.exists(j["args"]["jout"])]
    oj = [{"variant": "plain", "cmd": "offj", "args": {"seed": ctx.seed * 1000 + 900 + k, "n": 150 if q else 600}, "out": ctx.path("offj_%02d.ndjson" % k)} for k in range(2 if q else 6)]
    run_jobs(oj); files += [j["out"] for j in oj]
    res = core.validate_traces("OffsetJoinTrace", "OffsetJoinTrace.cfg", files, timeout=1800)
    n = 0; div = []; cases = []
    for f, r in res:
        ctx.add_tlc(r); lines = None
        n += sum(1 for ln in open(f) if ln.startswith('{"e":"Join"'))
        for fl in r.fails:
            lines = lines or core.read_lines(f)
            i = fl["line"] - 1
            if fl["clause"].startswith("J6_vertices") and lines[i].startswith('{"e":"JCase"') and i > 0:
                i -= 1                      # reported when the NEXT call begins: it belongs to the call before
            while i > 0 and not lines[i].startswith('{"e":"JCase"'):
                i -= 1
            c = json.loads(lines[i])["case"]; div.append({"clause": fl["clause"], "detail": fl["detail"], "case": c, "join": json.loads(lines[fl["line"] - 1])})
            et_ok = (c["et"] == 0) == (kind == "poly")
            if et_ok:
                cases.append(json.dumps(c))
    ctx.extra["offset_joins_validated"] = n
    ctx.extra["engine_divergences_offset_joins"] = {"count": len(div), "clauses": sorted({d["clause"] for d in div}), "sample": div[:2]}
    if cases:
        core.log("[%s] %d engine-level divergence(s) in ClipperOffset joins (%s): escalating to the observable check on those calls" % (ctx.prop, len(div), ", ".join(sorted({d["clause"] for d in div}))))
        inf = ctx.path("escalate_off.ndjson")
        with open(inf, "w") as fh:
            fh.write("\n".join(sorted(set(cases))[:80]) + "\n")
        ej = [{"variant": "plain", "args": {"kind": kind, "in": inf, "npts": 1200, "seed": ctx.seed}, "out": ctx.path("off_escalated.ndjson")}]
        run_jobs(ej); judge(ctx, ej, cls)

def judge(ctx, jobs, cls):
    res = core.validate_traces("OffsetTrace", "OffsetTrace.cfg", [j["out"] for j in jobs], timeout=3600)
    byf = {j["out"]: j for j in jobs}
    for f, r in res:
        ctx.add_tlc(r)
        lines = core.read_lines(f)
        dropped = {n["line"] for n in r.notes if n["kind"] == "DROP"}
        for n in r.notes:
            if n["kind"] == "CLASSES":
                a = [int(x) for x in n["detail"].strip("<>").split(",")]
                for i in range(3):
                    cls[i] += a[i]
        for i, ln in enumerate(lines, 1):
            if ln.startswith('{"e":"Off"') and i not in dropped:
                ctx.evaluations += 1; ctx.traces += 1
                ev = json.loads(ln)
                if ev["n"] > 0:
                    ctx.nontrivial.add(hash(json.dumps([ev["paths"], ev["jt"], ev["et"], ev["d4"], ev["ml100"], ev["at4"], ev["rs"]])))
                if len(ctx.samples) < 3:
                    ctx.sample({k: ev[k] for k in ("paths", "jt", "et", "d4", "ml100", "at4", "rs", "n")})
        ctx.extra["calls_dropped_not_in_input_class"] = ctx.extra.get("calls_dropped_not_in_input_class", 0) + len(dropped)
        for fl in r.fails:
            ev = json.loads(lines[fl["line"] - 1])
            case = ev["case"] if ev.get("e") == "Crash" else {k: ev[k] for k in ("paths", "jt", "et", "d4", "ml100", "at4", "rs", "pseed", "sc") if k in ev}
            prop = ctx.prop if fl["prop"] == "ANY" else fl["prop"]
            rec = {"prop": prop, "clause": fl["clause"], "detail": fl["detail"], "case": case, "event": {k: v for k, v in ev.items() if k not in ("pts", "cover")},
                   "harness": {"variant": byf[f]["variant"], "args": byf[f]["args"]}}
            (ctx.fails if prop == ctx.prop else ctx.other).append(rec)

def replay_rec(rec, prop):
    work = os.path.join(core.CACHE, "work", "replayoff_%d" % os.getpid()); os.makedirs(work, exist_ok=True)
    inf = os.path.join(work, "in.ndjson")
    with open(inf, "w") as f:
        f.write(json.dumps(rec["case"]) + "\n")
    a = dict(rec["harness"]["args"]); a["in"] = inf; a.pop("jout", None)
    j = {"variant": rec["harness"]["variant"], "args": a, "out": os.path.join(work, "out.ndjson")}
    run_jobs([j])
    res = core.validate_traces("OffsetTrace", "OffsetTrace.cfg", [j["out"]])
    return any(fl["prop"] in (prop, "ANY") and fl["clause"] == rec["clause"] for _, r in res for fl in r.fails)

def replay(path, prop):
    rec = json.load(open(path))
    if replay_rec(rec, prop):
        print("VIOLATION property=%s replay=%s" % (prop, path)); return 1
    print("replay: no violation reproduced"); return 0
