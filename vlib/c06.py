"""C06 - polygon offsetting moves the boundary by delta (DESIGN.md 5/C06)."""
from . import offfam
RULE = ("star-shaped simple polygons (4-9 vertices, coordinates < 80) with 0-1 hole, both orientation conventions, TLC-certified simple / hole nesting / "
        "turning angles; delta in +-{1/4, 1, 3, 7, 15, 25} and -45 (beyond the inradius), 4 join types, miter limits {1, 2, 5}, arc tolerances "
        "{default, 1/4, 2}, ReverseSolution; TLC classifies every sample point (quarter-unit grid, half of them near the boundary) as must / must-not / "
        "free from signed-distance bounds per join type and compares with the measured winding; evaluations = offset calls judged; non-trivial = distinct "
        "(polygon, parameters) with a non-empty result")
def run(ctx):
    return offfam.run(ctx, "poly", RULE)
def replay(path, seed):
    return offfam.replay(path, "C06")
