"""C05 - open subject paths are cut exactly at the clip region boundary (DESIGN.md 5/C05)."""
import json, os
from . import core

RULE = ("closed TLC-certified general-position subject/clip sets + 1-3 random open polylines (2-5 vertices, self-crossing allowed, starting/ending "
        "inside or outside, crossing several times); 4 clip types (+NoClip) x 4 fill rules x PreserveCollinear x paths/tree, builds plain and "
        "HI_PRECISION; TLC decides at 9 sample points per open segment (clear of closed edges by 3.5 units) whether the point must be kept "
        "(Fill!KeepOpen on exact windings) and compares with the recorded open solution, checks that every solution vertex/midpoint lies on an "
        "open subject, brackets the total length against the exact kept length, and compares the closed solution with and without open "
        "subjects; non-trivial = distinct (input, configuration) with a non-empty open solution")

def run_jobs(jobs):
    exes = {v: core.build(v, ("open",)) for v in sorted({j["variant"] for j in jobs})}
    def one(j):
        cmd = [exes[j["variant"]], "open"]
        for k, v in j["args"].items():
            cmd += ["--" + k, str(v)]
        cmd += ["--out", j["out"]]
        p = core.sh(cmd, timeout=1200)
        if p.returncode != 0:
            raise core.ModelFailure("harness open failed: " + p.stderr.decode(errors="replace")[-1500:])
    core.run_parallel(one, jobs)

def harvest(ctx, jobs, res):
    byf = {j["out"]: j for j in jobs}
    for f, r in res:
        ctx.add_tlc(r)
        lines = core.read_lines(f); case = None; oouts = {}
        for ln in lines:
            if ln.startswith('{"e":"Case"'):
                case = json.loads(ln); ctx.traces += 1; oouts = {}
                if len(ctx.samples) < 3:
                    ctx.sample({"subj": case["subj"], "clip": case["clip"], "open": case["open"], "variant": byf[f]["variant"]})
            elif ln.startswith('{"e":"OOut"'):
                ev = json.loads(ln); oouts[ev["k"]] = len(ev["paths"])
            elif ln.startswith('{"e":"OExec"'):
                ctx.evaluations += 1
                ev = json.loads(ln)
                if oouts.get(ev["ko"], 0) > 0:
                    ctx.nontrivial.add(hash((json.dumps(case["subj"]), json.dumps(case["open"]), ev["ct"], ev["fr"], ev["ko"])))
        for fl in r.fails:
            core.fail_rec(ctx, lines, fl, {"harness": {"variant": byf[f]["variant"], "args": byf[f]["args"]}})

def run(ctx):
    q = ctx.quick; s = ctx.seed; jobs = []
    ctab = core.tlc_ok(core.tlc("ContribTable", "ContribTable.cfg", timeout=300), "ContribTable (OpenTheorem)"); ctx.add_tlc(ctab)
    for k in range(14 if q else 32):
        jobs.append({"variant": "plain" if k % 2 == 0 else "hi", "args": {"seed": s * 1000 + k, "n": 20 if q else 120, "R": [32, 48, 64][k % 3]}, "out": ctx.path("open_%02d.ndjson" % k)})
    run_jobs(jobs)
    res = core.validate_traces("OpenTrace", "OpenTrace.cfg", [j["out"] for j in jobs], timeout=2400)
    harvest(ctx, jobs, res)
    return core.finish(ctx, "model_checking", RULE, confirm=confirm)

def replay_rec(rec):
    work = os.path.join(core.CACHE, "work", "replay05_%d" % os.getpid()); os.makedirs(work, exist_ok=True)
    inf = os.path.join(work, "in.ndjson")
    with open(inf, "w") as f:
        f.write(json.dumps({"subj": rec["case"]["subj"], "clip": rec["case"]["clip"], "open": rec["case"]["open"]}) + "\n")
    a = dict(rec["harness"]["args"]); a["in"] = inf
    j = {"variant": rec["harness"]["variant"], "args": a, "out": os.path.join(work, "out.ndjson")}
    run_jobs([j])
    res = core.validate_traces("OpenTrace", "OpenTrace.cfg", [j["out"]])
    return any(fl["prop"] in ("C05", "ANY") and fl["clause"] == rec["clause"] for _, r in res for fl in r.fails)

def confirm(rec):
    return replay_rec(rec)

def replay(path, seed):
    rec = json.load(open(path))
    if replay_rec(rec):
        print("VIOLATION property=C05 replay=%s" % path); return 1
    print("replay: no violation reproduced"); return 0
