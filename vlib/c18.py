"""C18 - geometric predicates are exact and measurements accurate (DESIGN.md 5/C18).

Phase 1  design-level TLC runs: C18BigIntTest (the big-integer module against TLC integers), C18Mul128 (portable
         64x64 multiply and the sign/compare logic, limb width W = 2..4/5, exhaustive), C18PIP (the PointInPolygon
         scan as a state machine against the declarative even-odd / boundary definition, exhaustive small scope),
         C18Gen (boundary vectors lifted to W = 32).
Phase 2  harness family c18 (builds plain and hi; both copies of clipper.core.h: __int128 and portable branch)
         executes the real functions on the TLC-generated vectors, on lattice families enumerated by index and on
         seeded random families, and records arguments + results as ndjson (wide values as split words).
Phase 3  C18Trace.tla: TLC recomputes every expected value from C18Defs/C18BigInt and judges each event.
"""
import concurrent.futures as cf
import hashlib, json, os, re
from . import core

PROP = "C18"
FAMS = ("c18",)
RULE = ("TLC-generated boundary vectors (per-limb classes {0,1,2^31-1,2^31,2^32-2,2^32-1} lifted to W=32, 2^61+-1, INT64 extremes; all pairs "
        "for Multiply, all 4-tuples of the signed boundary set for ProductsAreEqual / CrossProductSign / IsCollinear) and seeded random vectors "
        "(random bit lengths, products equal by construction and perturbed by 1, (x+1)(x-1) vs x*x, zero products, collinear triples) on BOTH "
        "copies of clipper.core.h (__int128 branch and portable branch); PointInPolygon on every polygon with 3..5 vertices on the doubled 4x4 grid "
        "(index-enumerated; TLC decodes each index and checks none is skipped; quick tier: 5-vertex polygons sampled 1/32) x all 49 grid and "
        "half-grid points x affine embeddings up to 2^25, random 6-10 vertex polygons on the 5x5 grid, random polygons at 2^25 with points on / "
        "next to edges; GetSegmentIntersectPt on all quadruples of 4x4 lattice points under embeddings up to 2^40 and random / nearly parallel / "
        "exactly parallel / determinant-one / lattice-crossing / degenerate pairs at magnitudes 2^3..2^40, builds plain and HI_PRECISION; Area on "
        "random paths and path sets at magnitudes 2^3..2^61.  Every expected value is computed by TLC (C18BigInt).  non-trivial = Multiply with "
        "both operands >= 2^36; predicates with four non-zero operands and both products needing > 60 bits; polygons whose result vector contains "
        "on, inside and outside; segment pairs that cross on both segments or are exactly parallel and non-degenerate; paths with non-zero area; "
        "distinct by hash of (event kind, branch/build, inputs)")
TRUSTED = ["TLC 1.8.0 + CommunityModules Json/IOUtils", "C18BigInt.tla (self-tested exhaustively against TLC integers with limb bases 4 and 8)",
           "harness wire encoding of 64-bit values into 12-bit limbs and frexp/ldexp decomposition of doubles",
           "the #undef __GNUC__/__clang__ trick really selects the portable branch (guarded by #error in fam_c18.cpp)"]

# ------------------------------------------------------------------ phase 1: design level
def design_runs(ctx, genfiles):
    q = ctx.quick
    runs = [("C18Gen", "C18Gen_q.cfg" if q else "C18Gen_t.cfg", 1, None),
            ("C18BigIntTest", "C18BigIntTest.cfg" if q else "C18BigIntTest_t.cfg", 1, (2 * (90 if q else 300) + 1) ** 2)]
    if not q:
        runs.append(("C18BigIntTest", "C18BigIntTest3.cfg", 1, 601 ** 2))
    for w in (2, 3, 4) + (() if q else (5,)):
        runs.append(("C18Mul128", "C18Mul128_mul%d.cfg" % w, 1, (2 ** (2 * w)) ** 2))
    # sign/compare logic: operands in -RNG..RNG (cfg); sign2full covers every 2W-bit magnitude for W = 2
    for name, rng in (("sign2", 10), ("sign3", 8)) + (() if q else (("sign2full", 15), ("sign3wide", 16), ("sign4", 16))):
        runs.append(("C18Mul128", "C18Mul128_%s.cfg" % name, 1, (2 * rng + 1) ** 4))
    pip = [(3, 3, 2), (4, 3, 4), (3, 4, 4)] + ([] if q else [(4, 4, 8), (3, 5, 8)])
    for g, n, w in pip:
        runs.append(("C18PIP", "C18PIP_g%dn%d.cfg" % (g, n), w, None))
    def one(r):
        mod, cfg, w, _ = r
        env = {"C18MUL": genfiles[0], "C18PRED": genfiles[1]} if mod == "C18Gen" else None
        return core.tlc(mod, cfg, env=env, workers=w, timeout=2400, heap="6g" if mod == "C18PIP" else "3g")
    res = core.run_parallel(one, runs)
    summary = []
    for (mod, cfg, w, expect), r in zip(runs, res):
        core.tlc_ok(r, "%s/%s" % (mod, cfg))
        if r.fails:
            raise core.ModelFailure("%s/%s printed FAIL lines" % (mod, cfg))
        if expect is not None and r.distinct != expect:      # vacuity guard: the whole scope was enumerated
            raise core.ModelFailure("%s/%s: %d distinct states, expected %d" % (mod, cfg, r.distinct, expect))
        if mod == "C18PIP":
            m = re.match(r"C18PIP_g(\d)n(\d)", cfg); g, n = int(m.group(1)), int(m.group(2))
            behaviours = (g * g) ** n * (2 * g - 1) ** 2
            if r.distinct < 3 * behaviours:
                raise core.ModelFailure("%s: only %d states for %d (polygon, point) pairs" % (cfg, r.distinct, behaviours))
            ctx.extra.setdefault("pip_model_polygon_point_pairs", {})["g%dn%d" % (g, n)] = behaviours
        if mod != "C18Gen":
            ctx.add_tlc(r)
        summary.append({"module": mod, "cfg": cfg, "distinct": r.distinct, "generated": r.generated, "wall_s": round(r.wall, 1)})
    ctx.extra["design_level_runs"] = summary

# ------------------------------------------------------------------ phase 2: harness plan
def plan(ctx, mulf, predf):
    q = ctx.quick; s = ctx.seed; J = []
    def add(variant, **a):
        J.append({"variant": variant, "args": a, "out": ctx.path("c18_%03d.ndjson" % len(J))})
    V = ("plain", "hi")
    # Multiply: TLC vectors (all pairs) + random, both copies
    for br in (0, 1):
        for k in range(1 if q else 4):
            add(V[(br + k) % 2], fam="mul", br=br, n=4000 if q else 25000, seed=s * 100 + 10 * br + k, **({"in": mulf} if k == 0 else {}))
    # predicates: TLC 4-tuples sharded + random
    nsh = 2 if q else 8
    for br in (0, 1):
        for k in range(nsh):
            add(V[(br + k) % 2], fam="pred", br=br, skip=k, stride=nsh, n=2000 if q else 10000, seed=s * 100 + 20 + 10 * br + k, **{"in": predf})
    # PointInPolygon lattice: n = 3, 4 complete; n = 5 sampled 1/32 (quick) or complete (thorough)
    add("plain", fam="pip", g=4, nv=3, skip=0, stride=1, nemb=3)
    for k in range(8):
        add(V[k % 2], fam="pip", g=4, nv=4, skip=k, stride=8, nemb=2)
    if q:
        for k in range(8):
            add(V[k % 2], fam="pip", g=4, nv=5, skip=(s + 32 * k) % 256, stride=256, nemb=2)
    else:
        for k in range(64):
            add(V[k % 2], fam="pip", g=4, nv=5, skip=k, stride=64, nemb=2)
    for k in range(1 if q else 4):
        add(V[k % 2], fam="piprand", g=5, n=1500 if q else 3000, seed=s * 100 + 40 + k)
    if not q:
        add("plain", fam="piprand", g=6, n=1500, seed=s * 100 + 49)
    for k in range(2 if q else 8):
        add(V[k % 2], fam="pipbig", n=1000 if q else 3000, seed=s * 100 + 50 + k)
    # GetSegmentIntersectPt: lattice quadruples (quick: half of the residues mod 16, split over the two builds; thorough: all, both builds)
    if q:
        for j in range(8):
            add(V[j % 2], fam="seg", g=4, skip=(s + 2 * j) % 16, stride=16, nemb=2)
    else:
        for v in V:
            for j in range(16):
                add(v, fam="seg", g=4, skip=j, stride=16, nemb=3)
    for v in V:
        for k in range(2 if q else 6):
            add(v, fam="segrand", n=6000 if q else 15000, seed=s * 100 + 60 + k + (10 if v == "hi" else 0))
    for k in range(2 if q else 8):
        add(V[k % 2], fam="area", n=3000 if q else 8000, seed=s * 100 + 80 + k)
    return J

def run_jobs(jobs):
    exes = {v: core.build(v, FAMS) for v in sorted({j["variant"] for j in jobs})}
    def one(j):
        cmd = [exes[j["variant"]], "c18"]
        for k, v in j["args"].items():
            cmd += ["--" + k, str(v)]
        cmd += ["--out", j["out"]]
        p = core.sh(cmd, timeout=1200)
        if p.returncode != 0:
            raise core.ModelFailure("harness failed (%d): %s\n%s" % (p.returncode, " ".join(cmd), p.stderr.decode(errors="replace")[-2000:]))
        m = re.search(r"calls=(\d+) hp=(\d)", p.stderr.decode(errors="replace"))
        j["calls"] = int(m.group(1)) if m else 0
        if m and int(m.group(2)) != (1 if j["variant"] == "hi" else 0):
            raise core.ModelFailure("variant %s built with CLIPPER2_HI_PRECISION=%s" % (j["variant"], m.group(2)))
        return j
    return core.run_parallel(one, jobs)

# ------------------------------------------------------------------ tally (evidence only; no verdicts)
def _unwire(v):
    m = 0
    for x in reversed(v[1:]):
        m = (m << 12) | x
    return -m if v and v[0] < 0 else m

def _tally_file(path):
    """-> (events, set of hashes of distinct non-trivial cases, samples)"""
    nt = set(); samples = {}; n = 0
    def h(*parts):
        return int(hashlib.blake2b(json.dumps(parts).encode(), digest_size=8).hexdigest(), 16)
    with open(path) as f:
        for line in f:
            ev = json.loads(line); e = ev["e"]; n += 1
            if e == "Mul":
                if len(ev["a"]) >= 5 and len(ev["b"]) >= 5:
                    nt.add(h(e, ev["br"], ev["a"], ev["b"]))
            elif e == "Pred":
                v = ev["v"]
                if all(len(x) > 1 for x in v) and len(v[0]) + len(v[1]) >= 8 and len(v[2]) + len(v[3]) >= 8:
                    nt.add(h(e, ev["br"], v, ev["pts"]))
            elif e == "Pip":
                if ev["r"] and {0, 1, 2} <= set(ev["r"][0]):
                    nt.add(h(e, ev["p"], ev["emb"]))
            elif e == "PipBig":
                if {0, 1, 2} <= set(ev["r"]):
                    nt.add(h(e, ev["p"], ev["q"]))
            elif e == "Seg":
                a, b, c, d = [(_unwire(p[0]), _unwire(p[1])) for p in ev["s"]]
                dx1, dy1, dx2, dy2 = b[0] - a[0], b[1] - a[1], d[0] - c[0], d[1] - c[1]
                den = dx1 * dy2 - dy1 * dx2
                if den == 0:
                    good = (dx1 or dy1) and (dx2 or dy2)
                else:
                    ntt = (c[0] - a[0]) * dy2 - (c[1] - a[1]) * dx2; nu = (c[0] - a[0]) * dy1 - (c[1] - a[1]) * dx1
                    sg = 1 if den > 0 else -1
                    good = 0 <= sg * ntt <= abs(den) and 0 <= sg * nu <= abs(den)
                if good:
                    nt.add(h(e, ev["hp"], ev["s"]))
            elif e == "Area":
                if ev["a"][1] != [0] and sum(len(p) for p in ev["ps"]) >= 3:
                    nt.add(h(e, ev["ps"], ev["single"]))
            else:
                n -= 1; continue
            if e not in samples:
                samples[e] = json.loads(line)
    return n, nt, samples

def tally(ctx, jobs):
    with cf.ProcessPoolExecutor(core.NCPU) as ex:
        res = list(ex.map(_tally_file, [j["out"] for j in jobs]))
    for (n, nt, samples), j in zip(res, jobs):
        ctx.traces += n; ctx.nontrivial |= nt; ctx.evaluations += j["calls"]
        for e, s in samples.items():
            if e in ("Pred", "Pip", "Seg", "Area") and not any(x.get("e") == e for x in ctx.samples):
                if e == "Pip":
                    s["r"] = s["r"][:1]
                ctx.sample(s)

# ------------------------------------------------------------------ phase 3: validation
def validate(ctx, jobs):
    files = sorted((j["out"] for j in jobs), key=lambda f: -os.path.getsize(f))     # big files first
    res = core.validate_traces("C18Trace", "C18Trace.cfg", files, timeout=2400, heap="3g")
    byfile = {j["out"]: j for j in jobs}
    drops = {}; enum = {}; harness_fails = []
    for f, r in res:
        ctx.add_tlc(r); j = byfile[f]
        for nte in r.notes:
            if nte["kind"] == "DROP":
                drops[nte["detail"].strip('"')] = drops.get(nte["detail"].strip('"'), 0) + 1
            elif nte["kind"] == "ENUM":
                m = re.match(r'<<"(\w+)", (\d+), (\d+), (\d+)>>', nte["detail"])
                key = "%s_g%sn%s" % (m.group(1), m.group(2), m.group(3))
                enum.setdefault(key, {"stride": int(m.group(4)), "residues": set(), "variants": set()})
                enum[key]["residues"].add(int(j["args"]["skip"]) % int(m.group(4))); enum[key]["variants"].add(j["variant"])
        if not r.fails:
            continue
        lines = core.read_lines(f)
        for fl in r.fails:
            ev = json.loads(lines[fl["line"] - 1])
            rec = {"prop": fl["prop"], "clause": fl["clause"], "detail": fl["detail"], "case": ev, "event": ev, "harness": {"variant": j["variant"]}}
            if fl["prop"] == PROP:
                ctx.fails.append(rec)
            else:
                harness_fails.append(rec)
    # report one failure per clause first (core.finish confirms and prints at most five)
    byclause = {}
    for rec in ctx.fails:
        byclause.setdefault(rec["clause"], []).append(rec)
    order = []
    while any(byclause.values()):
        for c in sorted(byclause):
            if byclause[c]:
                order.append(byclause[c].pop(0))
    ctx.fails[:] = order
    if harness_fails:
        raise core.ModelFailure("trace rejected by a HARNESS clause (machinery, not a verdict): %s" % json.dumps(harness_fails[0])[:1500])
    ctx.extra["events_dropped_not_in_input_class"] = drops
    ctx.extra["lattice_enumeration"] = {k: {"stride": v["stride"], "residues_covered": len(v["residues"]), "complete": len(v["residues"]) == v["stride"],
                                           "builds": sorted(v["variants"])} for k, v in sorted(enum.items())}
    return res

# ------------------------------------------------------------------ replay / confirm
def replay_rec(rec):
    work = os.path.join(core.CACHE, "work", "c18replay_%d" % os.getpid()); os.makedirs(work, exist_ok=True)
    inf = os.path.join(work, "in.ndjson"); out = os.path.join(work, "out.ndjson")
    with open(inf, "w") as f:
        f.write(json.dumps(rec["event"]) + "\n")
    exe = core.build(rec["harness"]["variant"], FAMS)
    p = core.sh([exe, "c18", "--fam", "replay", "--in", inf, "--out", out], timeout=600)
    if p.returncode != 0:
        raise core.ModelFailure("replay harness failed: " + p.stderr.decode(errors="replace")[-1000:])
    res = core.validate_traces("C18Trace", "C18Trace.cfg", [out])
    return any(fl["prop"] == PROP and fl["clause"] == rec["clause"] for _, r in res for fl in r.fails)

def run(ctx):
    ctx.trusted = TRUSTED
    mulf, predf = ctx.path("gen_mul.ndjson"), ctx.path("gen_pred.ndjson")
    for v in ("plain", "hi"):
        core.build(v, FAMS)
    design_runs(ctx, (mulf, predf))
    ctx.extra["tlc_generated_vectors"] = {"multiply_pairs": core.count_lines(mulf), "predicate_4tuples": core.count_lines(predf)}
    jobs = run_jobs(plan(ctx, mulf, predf))
    tally(ctx, jobs)
    validate(ctx, jobs)
    ctx.assumptions = ["the two copies of clipper.core.h compiled into the harness (namespace Clipper2Lib = __int128 branch, namespace C18Port = portable "
                       "branch selected by undefining __GNUC__/__clang__) are the code other compilers would build",
                       "std::abs(INT64_MIN) in the portable branch is undefined behaviour in C++; the check observes what g++ -O2 produces"]
    enum = ctx.extra.get("lattice_enumeration", {})
    exhaustive = bool(enum) and all(v["complete"] for v in enum.values())
    return core.finish(ctx, "model_checking", RULE, confirm=replay_rec, exhaustive=exhaustive)

def replay(path, seed):
    rec = json.load(open(path))
    if replay_rec(rec):
        print("VIOLATION property=%s replay=%s" % (PROP, path)); return 1
    print("replay: no violation reproduced"); return 0
