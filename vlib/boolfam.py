"""Shared driver for the boolean-clipping trace family (BoolTrace.tla): C01 C02 C03 C04."""
import json, os
from . import core

def harness_job(ctx, idx, variant, args):
    """args: dict of vh bool options (without --out)."""
    return {"idx": idx, "variant": variant, "args": dict(args), "out": ctx.path("bool_%03d.ndjson" % idx)}

def run_jobs(ctx, jobs, sub="bool", fams=("bool",)):
    exes = {v: core.build(v, fams) for v in sorted({j["variant"] for j in jobs})}
    def one(j):
        cmd = [exes[j["variant"]], sub]
        for k, v in j["args"].items():
            cmd += ["--" + k, str(v)]
        cmd += ["--out", j["out"]]
        p = core.sh(cmd, timeout=1200)
        if p.returncode != 0:
            raise core.ModelFailure("harness failed (%d): %s\n%s" % (p.returncode, " ".join(cmd), p.stderr.decode(errors="replace")[-2000:]))
        j["stderr"] = p.stderr.decode(errors="replace")
        return j
    return core.run_parallel(one, jobs)

def tally(ctx, jobs):
    """Count executions / distinct non-trivial cases from the traces (measured, not assumed)."""
    for j in jobs:
        outs_in_case = 0; case = None
        for line in open(j["out"]):
            ev = json.loads(line)
            e = ev["e"]
            if e == "Case":
                case = ev; outs_in_case = 0; ctx.traces += 1
                if len(ctx.samples) < 3:
                    ctx.sample({"fam": ev.get("fam"), "emb": ev["emb"], "subj": ev["subj"], "clip": ev["clip"], "npts": len(ev["pts"]), "variant": j["variant"]})
            elif e == "Exec":
                ctx.evaluations += 1
            elif e == "Execs":
                ctx.evaluations += len(ev["x"])
            elif e in ("ReUnion", "Tree", "Xform"):
                ctx.evaluations += 1
            elif e == "Out":
                # non-trivial: a non-empty solution that is not simply the (embedded) input; distinct by content
                if ev["n"] > 0 and case is not None:
                    key = json.dumps([case["subj"], case["clip"], case["emb"], ev.get("paths", ev["cover"])])
                    ctx.nontrivial.add(hash(key))

def validate(ctx, jobs, cfg="BoolTrace.cfg", module="BoolTrace"):
    files = [j["out"] for j in jobs]
    res = core.validate_traces(module, cfg, files, timeout=1500 if ctx.quick else 4000)
    byfile = {j["out"]: j for j in jobs}
    for f, r in res:
        ctx.add_tlc(r)
        j = byfile[f]
        drops = [n for n in r.notes if n["kind"] == "DROP"]
        ctx.extra["cases_dropped_not_in_input_class"] = ctx.extra.get("cases_dropped_not_in_input_class", 0) + len(drops)
        if not r.fails:
            continue
        lines = core.read_lines(f)
        for fl in r.fails:
            core.fail_rec(ctx, lines, fl, {"harness": {"variant": j["variant"], "args": j["args"]}})
    return res

def confirm(ctx_prop):
    """Replay one recorded case through harness + TLC; True if the same property+clause fails again."""
    def f(rec):
        return replay_rec(rec, ctx_prop)
    return f

def replay_rec(rec, prop):
    work = os.path.join(core.CACHE, "work", "replay_%d" % os.getpid()); os.makedirs(work, exist_ok=True)
    inf = os.path.join(work, "in.ndjson"); out = os.path.join(work, "out.ndjson")
    with open(inf, "w") as f:
        f.write(json.dumps({"subj": rec["case"]["subj"], "clip": rec["case"]["clip"]}) + "\n")
    a = dict(rec["harness"]["args"]); a.update({"fam": "in", "in": inf, "emb": rec["case"]["emb"], "n": 0, "skip": 0, "stride": 1})
    exe = core.build(rec["harness"]["variant"], tuple(rec["harness"].get("fams", ["bool"])))
    cmd = [exe, rec["harness"].get("sub", "bool")]
    for k, v in a.items():
        cmd += ["--" + k, str(v)]
    cmd += ["--out", out]
    p = core.sh(cmd, timeout=600)
    if p.returncode != 0:
        raise core.ModelFailure("replay harness failed: " + p.stderr.decode(errors="replace")[-1000:])
    res = core.validate_traces(rec.get("module", "BoolTrace"), rec.get("cfg", "BoolTrace.cfg"), [out])
    hit = any(fl["prop"] in (prop, "ANY") and fl["clause"] == rec["clause"] for _, r in res for fl in r.fails)
    return hit

def replay_file(path, prop):
    rec = json.load(open(path))
    if replay_rec(rec, prop):
        print("VIOLATION property=%s replay=%s" % (prop, path)); return 1
    print("replay: no violation reproduced"); return 0
