"""Manifest table (tools/mkmanifest.py turns it into MANIFEST.json)."""
HOOK_COMMITS = []
TRUST = "Trusted: TLC 1.8 and the CommunityModules Json/IOUtils overrides; the harness's measurement code (exact __int128 winding numbers of the library's OUTPUT, canonical forms, bounding boxes - cross-checked by TLC on raw paths for identity-embedded cases); invariance of winding numbers under the affine embeddings; small-scope hypothesis for the enumerated families."
CHECKS = {
 "C01": {"level": "model_checking", "design_ref": "DESIGN.md section 5 / C01",
  "technique": "TLA+ postcondition (Geom!Wind + Fill!InResult) evaluated by TLC on ndjson traces of the real library (trace validation), exhaustive winding ladder + TLC-certified general-position inputs under affine embeddings",
  "text": "TLC evaluates the region postcondition at every clear sample point of every recorded Execute (4 clip types x 4 fill rules x PreserveCollinear x ReverseSolution, builds plain and HI_PRECISION, magnitudes up to 2^61); the oracle (winding numbers, fill/clip tables, clearance, general-position certificate) is the specification, independent of the library. Exhaustive for the winding ladder, sampled for random inputs: assurance is bounded exploration with a complete oracle, not proof.",
  "note": TRUST},
 "C02": {"level": "model_checking", "design_ref": "DESIGN.md section 5 / C02",
  "technique": "TLC-enumerated complete scope (all 40 000 rectangle pairs on the 4x4 grid, GenRect.tla) replayed into the library; TLA+ cell-exact postcondition evaluated by TLC on the recorded traces",
  "text": "Exhaustive for the scope the property names (every rectangle pair on the 4x4 grid x 4 clip types x 4 fill rules x PreserveCollinear x ReverseSolution x paths/tree = 5.8 M executions) and sampled for degenerate rectilinear walks at scales 1..2^13 (+2^52 offset); TLC decides every unit cell, the exact area and the vertex-coordinate clause with no tolerance.",
  "note": TRUST},
 "C03": {"level": "model_checking", "design_ref": "DESIGN.md section 5 / C03",
  "technique": "TLA+ well-formedness predicates (PathOps.tla) evaluated by TLC on the raw solution paths recorded from the library (trace validation); re-Union idempotence as a two-call history",
  "text": "Structural clauses are judged on every Execute of arbitrary and degenerate inputs up to 2^61; geometric clauses (no zero area, spike, proper crossing; orientation = nesting parity; collinearity; 2-unit vertex provenance; Union fixed point) are decided by TLC from the definitions on TLC-certified general-position and rectilinear inputs. Bounded exploration with a complete oracle.",
  "note": TRUST + " Known finding S8 (re-Union of touching rings) is matched by the spec's Touching predicate."},
 "C04": {"level": "model_checking", "design_ref": "DESIGN.md section 5 / C04",
  "technique": "trace validation by TLC: PolyTree parent vector + rings recorded from the library, containment forest recomputed in TLA+ (PathOps!Depth/InsideRing) and compared",
  "text": "For every recorded tree execution TLC compares the tree's rings with the paths execution (bag of canonical rings), recomputes each node's containment depth from geometry as an independent nesting oracle, and checks level/orientation alternation, child-inside-parent, sibling disjointness and area; inputs are deep nests, general-position polygons, ladders and rectilinear walks with touching holes.",
  "note": TRUST},
 "C12": {"level": "model_checking", "design_ref": "DESIGN.md section 5 / C12",
  "technique": "TLC enumerates every history of the abstract object machine spec/Clipper2.tla (with the abstract state at each Execute); histories are replayed into real Clipper64/ClipperD/ClipperOffset/RectClip64 objects and into fresh objects fed the abstract state; HistTrace.tla validates the recorded replay",
  "text": "Exhaustive over all histories up to length 4 (quick) / 5 (thorough) of the alphabets in Clipper2.tla, each replayed in several geometry worlds; the specification is the oracle for what an object currently holds, a fresh real object for what the result must then be (bit-identical). Invariants of the machine (state is a function of the held adds and options, Execute is pure) are model-checked by TLC. For ClipperOffset the bag-union-of-units clause is decided by TLC on ring identities.",
  "note": TRUST + " Ring identities (content-addressed naming of result rings) are assigned by the harness. Known finding S11 (few-unit rounding differences caused by distant groups) is matched by HistTrace!OnlyRounding."},
}
NOT_YET = {("C%02d" % i): "check not built yet in this revision (work in progress, see DESIGN.md section 8)" for i in range(1, 21)}
CHECKS["C13"] = {"level": "model_checking", "design_ref": "DESIGN.md section 5 / C13",
  "technique": "TLA+ transformation group (ReprTrace!ApplyG) applied by TLC to the logged base input to validate the harness's transformed executions; solutions related by TLC (bags of canonical rings / covers); Fill algebra lemmas model-checked",
  "text": "For every base input TLC recomputes each transformed input from the generator list (so the executions compared are exactly those the specification names) and decides the relation between the recorded solutions: identical canonical ring bags for representation changes, swap and reversal (with Positive/Negative exchanged on odd orientation parity), identical cover at mapped clear sample points for translate/transpose/mirror/scale, and the Xor/Difference algebra on observed covers. Bounded exploration (sampled bases and compositions up to length 4).",
  "note": TRUST}
CHECKS["C05"] = {"level": "model_checking", "design_ref": "DESIGN.md section 5 / C05",
  "technique": "trace validation by TLC (OpenTrace.tla): exact windings at sample points on the open subjects + Fill!KeepOpen decide kept/dropped; integer-sqrt length brackets; closed solution with vs without open subjects",
  "text": "For every recorded Execute with open subjects TLC decides, at 9 sample points per open segment that are clear of closed edges, whether the point must be in the open solution, that every solution vertex/midpoint lies on an open subject, that the total length is within 3 units per cut of the exact kept length (bracketed), and that the closed region is unchanged by the open subjects; inputs are random general-position closed sets with 1-3 open polylines, all clip types x fill rules x paths/tree on two builds.",
  "note": TRUST}
CHECKS["C06"] = {"level": "model_checking", "design_ref": "DESIGN.md section 5 / C06",
  "technique": "trace validation by TLC (OffsetTrace.tla): every sample point classified from signed-distance bounds per join type (integer geometry in quarter units, sufficient conditions only) and compared with the measured winding of the library's result",
  "text": "For each recorded offsetting call on a TLC-certified simple polygon with holes TLC decides per sample point whether it must / must not be covered (round: |delta| +- tol; miter/square: between round(|delta|) and round(|delta| x limit); bevel: polygon moved along its edge normals vs round result), checks orientation preservation, the insignificant-delta and beyond-inradius clauses. Sampled exploration over polygons x deltas x join types x miter limits x arc tolerances with the property's own tolerance band rounded outward; errors of a few per cent of delta inside the band are invisible at these sizes.",
  "note": TRUST}
CHECKS["C07"] = {"level": "model_checking", "design_ref": "DESIGN.md section 5 / C07",
  "technique": "trace validation by TLC (OffsetTrace.tla): per join/end type stroke bounds (lateral strips, |delta|-neighbourhood for round/square/miter joins, half-disc and prolonged caps, butt end planes, joined = closed polyline) classify sample points; +delta vs -delta identity",
  "text": "For each recorded open-path offsetting call (1-3 far-apart polylines incl. single points and 2-point paths, TLC-certified turning angles) TLC classifies sample points as must / must-not / free per join and end type and compares with the measured winding; the result for -delta must be identical. Mixtures and orders within one call are covered by C12's ClipperOffset histories.",
  "note": TRUST}
