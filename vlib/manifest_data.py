"""Manifest table (tools/mkmanifest.py turns it into MANIFEST.json)."""
HOOK_COMMITS = []
TRUST = "Trusted: TLC 1.8 and the CommunityModules Json/IOUtils overrides; the harness's measurement code (exact __int128 winding numbers of the library's OUTPUT, canonical forms, bounding boxes - cross-checked by TLC on raw paths for identity-embedded cases); invariance of winding numbers under the affine embeddings; small-scope hypothesis for the enumerated families."
CHECKS = {
 "C01": {"level": "model_checking", "design_ref": "DESIGN.md section 5 / C01",
  "technique": "TLA+ postcondition (Geom!Wind + Fill!InResult) evaluated by TLC on ndjson traces of the real library (trace validation), exhaustive winding ladder + TLC-certified general-position inputs under affine embeddings",
  "text": "TLC evaluates the region postcondition at every clear sample point of every recorded Execute (4 clip types x 4 fill rules x PreserveCollinear x ReverseSolution, builds plain and HI_PRECISION, magnitudes up to 2^61); the oracle (winding numbers, fill/clip tables, clearance, general-position certificate) is the specification, independent of the library. Exhaustive for the winding ladder, sampled for random inputs: assurance is bounded exploration with a complete oracle, not proof.",
  "note": TRUST},
}
NOT_YET = {("C%02d" % i): "check not built yet in this revision (work in progress, see DESIGN.md section 8)" for i in range(1, 21)}
