"""C15 - USINGZ builds compute the same geometry and account for every Z (DESIGN.md 5/C15)."""
import json, os
from . import core

RULE = ("the same seeded inputs (TLC-certified general-position polygon sets with distinct Z labels per vertex, optional open subject) are run on a "
        "plain and a USINGZ build: Clipper64 4 clip types x 4 fill rules with and without a label-assigning Z callback, ClipperD, ClipperOffset (4 join "
        "x 3 end types x +-delta), RectClip, RectClipLines; the driver pairs the two recordings operation by operation and ZTrace.tla requires "
        "identical x,y solutions and accounts for the Z of every solution vertex (input label at that location, or assigned by a logged callback "
        "invocation; default 0 without callback); evaluations = paired operations; non-trivial = distinct (input, operation) with non-empty result")

def run_jobs(jobs):
    exes = {v: core.build(v, ("z",)) for v in ("plain", "z")}
    def one(j):
        for v in ("plain", "z"):
            cmd = [exes[v], "z"]
            for k, val in j["args"].items():
                cmd += ["--" + k, str(val)]
            cmd += ["--out", j["out"] + "." + v]
            p = core.sh(cmd, timeout=1200)
            if p.returncode != 0:
                raise core.ModelFailure("harness z failed: " + p.stderr.decode(errors="replace")[-1500:])
        with open(j["out"] + ".plain") as fp, open(j["out"] + ".z") as fz, open(j["out"], "w") as fo:
            lp = fp.read().splitlines(); lz = fz.read().splitlines()
            # a Crash line replaces a whole case in one file: then the files are not aligned; pair what aligns, pass crashes through
            if len(lp) != len(lz) or any(('"Crash"' in a) != ('"Crash"' in b) for a, b in zip(lp, lz)):
                for ln in lp + lz:
                    if '"Crash"' in ln:
                        fo.write(ln + "\n")
                if not any('"Crash"' in ln for ln in lp + lz):
                    raise core.ModelFailure("plain and USINGZ recordings are not aligned")
            else:
                for a, b in zip(lp, lz):
                    if '"Crash"' in a:
                        fo.write(a + "\n")
                    else:
                        fo.write('{"e":"ZPair","p":%s,"z":%s}\n' % (a, b))
    core.run_parallel(one, jobs)

def run(ctx):
    q = ctx.quick; s = ctx.seed
    jobs = [{"args": {"seed": s * 1000 + k, "n": 25 if q else 120, "R": [32, 40, 56][k % 3]}, "out": ctx.path("z_%02d.ndjson" % k)} for k in range(16 if q else 32)]
    run_jobs(jobs)
    res = core.validate_traces("ZTrace", "ZTrace.cfg", [j["out"] for j in jobs], timeout=2400)
    byf = {j["out"]: j for j in jobs}
    for f, r in res:
        ctx.add_tlc(r)
        lines = core.read_lines(f)
        for ln in lines:
            if ln.startswith('{"e":"ZPair"'):
                ctx.evaluations += 1; ctx.traces += 1
                ev = json.loads(ln)
                if ev["z"]["paths"] or ev["z"]["open"]:
                    ctx.nontrivial.add(hash(json.dumps([ev["z"]["in"], ev["z"]["op"], ev["z"]["par"]])))
                if len(ctx.samples) < 2 and ev["z"]["op"] == "bool" and ev["z"]["cb"]:
                    ctx.sample({"op": ev["z"]["op"], "par": ev["z"]["par"], "in": ev["z"]["in"], "paths": ev["z"]["paths"], "zs": ev["z"]["zs"], "cb": ev["z"]["cb"][:6]})
        for fl in r.fails:
            ev = json.loads(lines[fl["line"] - 1])
            prop = ctx.prop if fl["prop"] == "ANY" else fl["prop"]
            rec = {"prop": prop, "clause": fl["clause"], "detail": fl["detail"], "case": {"line": fl["line"], "op": ev.get("z", {}).get("op"), "par": ev.get("z", {}).get("par"), "in": ev.get("z", {}).get("in", ev.get("case"))},
                   "event": {"e": ev["e"]}, "harness": {"args": byf[f]["args"]}}
            (ctx.fails if prop == ctx.prop else ctx.other).append(rec)
    return core.finish(ctx, "model_checking", RULE, confirm=confirm)

def replay_rec(rec):
    work = os.path.join(core.CACHE, "work", "replay15_%d" % os.getpid()); os.makedirs(work, exist_ok=True)
    j = {"args": rec["harness"]["args"], "out": os.path.join(work, "out.ndjson")}
    run_jobs([j])
    res = core.validate_traces("ZTrace", "ZTrace.cfg", [j["out"]])
    return any(fl["clause"] == rec["clause"] and fl["line"] == rec["case"]["line"] for _, r in res for fl in r.fails)

def confirm(rec):
    return replay_rec(rec)

def replay(path, seed):
    rec = json.load(open(path))
    if replay_rec(rec):
        print("VIOLATION property=C15 replay=%s" % path); return 1
    print("replay: no violation reproduced"); return 0
