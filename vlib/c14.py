"""C14 - independent objects can be used from different threads (DESIGN.md 5/C14)."""
import json, os
from . import core

RULE = ("TLC (Threads.tla) enumerates ALL 924 interleavings of two threads with 6 segments each and all schedules of three threads (4 segments) with "
        "at most 2 pre-emptions; each schedule is replayed on real threads under a cooperative scheduler at the library's yield points (scanbeam, "
        "offset path, rect-clipped path) for program pairs {boolean+shared ReuseableDataContainer64 x same, boolean x offset, offset x rectclip, "
        "minkowski x boolean, ClipperD x boolean, open-path boolean x boolean, ClipperD PolyTreeD at two precisions, PreserveCollinear(false) clipper x sharers of a container with collinear horizontals} and results are compared bit for bit with the sequential run; the same "
        "programs free-run on 8-16 threads of a ThreadSanitizer build; evaluations = scheduled runs + free-running program executions; non-trivial = "
        "distinct (schedule, program tuple) in which both threads ran at least one segment under the scheduler")

PAIRS = ["1,1", "1,2", "2,3", "4,1", "5,1", "6,1", "6,2", "3,5", "7,8", "9,1", "9,6"]
TRIPLES = ["1,2,3", "1,4,5", "6,1,2", "9,1,7"]

def gen_schedules(ctx, cfg, name):
    r = core.tlc_ok(core.tlc("Threads", cfg, workers=4, timeout=600), "Threads " + cfg); ctx.add_tlc(r)
    out = ctx.path(name)
    with open(out, "w") as f:
        for o in r.outs:
            f.write(json.loads(o) + "\n")
    return out, len(r.outs)

def run(ctx):
    q = ctx.quick; s = ctx.seed
    s2, n2 = gen_schedules(ctx, "Threads_mc.cfg", "sched2.ndjson")
    s3, n3 = gen_schedules(ctx, "Threads_mc3.cfg", "sched3.ndjson")
    ctx.extra["schedules_enumerated"] = {"two_threads_6_segments": n2, "three_threads_4_segments_2_preemptions": n3}
    exe = core.build("plain", ("thr",)); exet = core.build("tsan", ("thr",))
    jobs = []
    worlds = 1 if q else 3
    for wv in range(worlds):
        for i, pr in enumerate(PAIRS):
            jobs.append({"exe": exe, "args": {"mode": "sched", "in": s2, "progs": pr, "nseg": 6, "seed": s * 10 + wv}, "out": ctx.path("thr_p%d_%d.ndjson" % (wv, i))})
        for i, pr in enumerate(TRIPLES):
            jobs.append({"exe": exe, "args": {"mode": "sched", "in": s3, "progs": pr, "nseg": 4, "seed": s * 10 + wv}, "out": ctx.path("thr_t%d_%d.ndjson" % (wv, i))})
    for k in range(4 if q else 8):
        jobs.append({"exe": exet, "args": {"mode": "free", "threads": 8 if k % 2 == 0 else 16, "iters": 40 if q else 120, "rounds": 6 if q else 12, "seed": s * 10 + k}, "out": ctx.path("thr_free_%d.ndjson" % k),
                     "env": {"TSAN_OPTIONS": "halt_on_error=1:exitcode=66:report_signal_unsafe=0"}})
    def one(j):
        cmd = [j["exe"], "thr"]
        for k, v in j["args"].items():
            cmd += ["--" + k, str(v)]
        cmd += ["--out", j["out"]]
        import subprocess
        class _T: returncode = -14; stderr = b"timeout"
        try:
            p = core.sh(cmd, timeout=300 if j["args"].get("mode") == "free" else 900, env=j.get("env"))
        except subprocess.TimeoutExpired:
            p = _T()
        if p.returncode != 0:     # (sched mode: the parent only forks and waits; if it dies, a concurrent library run took it down, e.g. by exhausting memory)
            # the free-running programs are not forked (TSan stops analysing after a fork): a halted process is the Crash event
            j["stderr"] = p.stderr.decode(errors="replace")[-3000:]
            with open(j["out"], "a") as f:
                f.write(json.dumps({"e": "Crash", "sig": -p.returncode, "case": {"free": j["args"]}}) + "\n")

    core.run_parallel(one, jobs, n=8)
    res = core.validate_traces("ThreadsTrace", "ThreadsTrace.cfg", [j["out"] for j in jobs], timeout=1200)
    byf = {j["out"]: j for j in jobs}
    for f, r in res:
        ctx.add_tlc(r)
        lines = core.read_lines(f)
        for ln in lines:
            ev = json.loads(ln)
            if ev["e"] == "Sched":
                ctx.evaluations += 1; ctx.traces += 1
                if all(x > 0 for x in ev["ran"]):
                    ctx.nontrivial.add(hash((json.dumps(ev["sched"]), json.dumps(ev["progs"]), byf[f]["args"]["seed"])))
                if len(ctx.samples) < 3:
                    ctx.sample({"progs": ev["progs"], "sched": ev["sched"], "ran": ev["ran"], "eq": ev["eq"]})
            elif ev["e"] == "Free":
                ctx.evaluations += ev["nthreads"] * ev["iters"]; ctx.traces += 1
                ctx.extra["free_running_program_executions_under_tsan"] = ctx.extra.get("free_running_program_executions_under_tsan", 0) + ev["nthreads"] * ev["iters"]
        for fl in r.fails:
            ev = json.loads(lines[fl["line"] - 1])
            rec = {"prop": fl["prop"], "clause": fl["clause"], "detail": fl["detail"], "case": {"line": fl["line"], "ev": {k: v for k, v in ev.items() if k != "case"}},
                   "event": {"e": ev["e"]}, "harness": {"tsan": byf[f]["exe"] == exet, "args": byf[f]["args"], "env": byf[f].get("env")}}
            (ctx.fails if fl["prop"] == ctx.prop else ctx.other).append(rec)
    # evidence only: writable globals in the library's object code
    try:
        import glob
        objs = [o for o in glob.glob(os.path.join(core.CACHE, "obj", "clipper_*_cpp_*.o"))]
        objs.sort(key=os.path.getmtime)
        syms = set()
        for o in objs[-3:]:
            p = core.sh(["nm", "-C", "--defined-only", o])
            for ln in p.stdout.decode(errors="replace").splitlines():
                parts = ln.split(None, 2)
                if len(parts) == 3 and parts[1] in "bBdD" and "guard variable" not in parts[2] and "__" not in parts[2][:2]:
                    syms.add(parts[2])
        ctx.extra["writable_data_symbols_in_library_objects"] = sorted(syms)[:40]
    except Exception as e:
        ctx.extra["writable_data_symbols_in_library_objects"] = "unavailable: %s" % e
    ctx.trusted += ["clang 14 ThreadSanitizer as monitor for the free-running programs", "cooperative scheduler at hook granularity (races inside a segment are only visible to TSan)"]
    return core.finish(ctx, "exploration", RULE, confirm=confirm, exhaustive=True)

def replay_rec(rec):
    work = os.path.join(core.CACHE, "work", "replay14_%d" % os.getpid()); os.makedirs(work, exist_ok=True)
    a = dict(rec["harness"]["args"]); out = os.path.join(work, "out.ndjson")
    if a.get("mode") == "sched":
        # regenerate the schedule file
        class C: pass
        ctx = C(); ctx.path = lambda n: os.path.join(work, n); ctx.add_tlc = lambda r: None
        cfg = "Threads_mc.cfg" if int(a["nseg"]) == 6 else "Threads_mc3.cfg"
        a["in"], _ = gen_schedules(ctx, cfg, "sched.ndjson")
    exe = core.build("tsan" if rec["harness"]["tsan"] else "plain", ("thr",))
    cmd = [exe, "thr"]
    for k, v in a.items():
        cmd += ["--" + k, str(v)]
    cmd += ["--out", out]
    import subprocess
    class _T: returncode = -14
    try:
        p = core.sh(cmd, timeout=300 if a.get("mode") == "free" else 900, env=rec["harness"].get("env"))
    except subprocess.TimeoutExpired:
        p = _T()
    if p.returncode != 0:
        with open(out, "a") as f:
            f.write(json.dumps({"e": "Crash", "sig": -p.returncode, "case": {"free": a}}) + "\n")
    res = core.validate_traces("ThreadsTrace", "ThreadsTrace.cfg", [out])
    return any(fl["clause"] == rec["clause"] for _, r in res for fl in r.fails)

def confirm(rec):
    # a failure that depends on the interleaving need not repeat at once: the single run is repeated up to 4 times
    # (on the unchanged tree no run ever fails, so repetition cannot create an alarm)
    return any(replay_rec(rec) for _ in range(4))

def replay(path, seed):
    rec = json.load(open(path))
    if replay_rec(rec):
        print("VIOLATION property=C14 replay=%s" % path); return 1
    print("replay: no violation reproduced"); return 0
