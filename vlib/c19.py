"""C19 - Minkowski sum and difference are the swept pattern (DESIGN.md 5/C19).

1. design level: C19Mink.tla (the quad construction of detail::Minkowski as a state machine + NonZero union as Layer-0
   definition) model-checked exhaustively over C19Scope against the declarative parallelogram union (C19Def.tla); the same
   model without orientation normalisation must FAIL (vacuity guard).
2. GenC19.tla enumerates the same scope for the harness; harness/fam_c19.cpp replays it (sum/diff x open/closed) into the real
   MinkowskiSum / MinkowskiDiff at scale 1000, plus seeded random patterns (convex, non-convex, self-intersecting; 3-5 vertices)
   x paths (2-5 vertices) under embeddings up to 2^40, plus empty inputs and the PathD overloads.
3. C19Trace.tla (TLC) judges every recorded call from the property statement: clear sample points, membership in the union
   of parallelograms, winding +1, empty => empty, output vertices near a parallelogram edge."""
import json, os, re, shutil
from . import core

MODULE, CFG = "C19Trace", "C19Trace.cfg"
FAMS = ("c19",)

RULE = ("TLC enumerates (GenC19.tla) every non-degenerate triangle pattern x every 2-vertex (quick) / 2- and 3-vertex (thorough) path of pairwise "
        "distinct points on the 3x3 lattice, one representative per translation class; each pair is run as MinkowskiSum and MinkowskiDiff, open "
        "and closed, at scale 1000 (sample points on the 1/8 lattice); plus seeded random patterns with 3-5 vertices (convex hulls, angularly "
        "sorted non-convex, random order = mostly self-intersecting; classified by TLC) x random paths with 2-5 vertices, coordinates < 2^8, "
        "identity embedding plus one of: translations 2^29/2^30, scale 3 with translations 2^39 (diff result at 2^40), scale 2^13 with "
        "translations 2^40-2^23, scale 2^30; empty pattern / path; a deep-overlap family (tall rectangle pattern swept along a folded hatch path of 255/256 (thorough: also 127, 128, 257, 300) strokes, so that as many parallelograms overlap over a whole band; sample points in the band's central column); PathD overloads with 0-3 decimal places compared natively with the Path64 "
        "result. Every call is judged by TLC at 64-160 sample points (clearance and parallelogram membership computed in TLA+). "
        "non-trivial = non-empty result whose measured cover has both covered and uncovered sample points; distinct by (pattern, path, op, "
        "closed, embedding)")

def job(ctx, idx, variant, **a):
    return {"idx": idx, "variant": variant, "args": dict(a), "out": ctx.path("c19_%03d.ndjson" % idx)}

def run_harness(jobs):
    exes = {v: core.build(v, FAMS) for v in sorted({j["variant"] for j in jobs})}
    def one(j):
        cmd = [exes[j["variant"]], "c19"]
        for k, v in j["args"].items():
            cmd += ["--" + k, str(v)]
        cmd += ["--out", j["out"]]
        p = core.sh(cmd, timeout=900)
        if p.returncode != 0:
            raise core.ModelFailure("harness failed (%d): %s\n%s" % (p.returncode, " ".join(cmd), p.stderr.decode(errors="replace")[-2000:]))
        return j
    return core.run_parallel(one, jobs)

def design_level(ctx):
    cfg = "C19Mink.cfg" if ctx.quick else "C19MinkT.cfg"
    r = core.tlc_ok(core.tlc("C19Mink", cfg, workers=core.NCPU, timeout=900 if ctx.quick else 3000, heap="6g"), "C19Mink")
    ctx.add_tlc(r)
    ctx.extra["design_model_states"] = r.distinct
    ctx.extra["design_model_wall_s"] = round(r.wall, 1)
    # vacuity guard: without the orientation normalisation the cover invariant must be violated
    n = core.tlc("C19Mink", "C19MinkNoNorm.cfg", workers=core.NCPU, timeout=600, heap="4g")
    if "Invariant CoverOK is violated" not in n.out:
        raise core.ModelFailure("vacuity guard: C19Mink with NORMALISE = FALSE did not violate CoverOK\n" + "\n".join(n.out.splitlines()[-20:]))
    ctx.extra["design_model_mutant_rejected"] = "NORMALISE=FALSE violates CoverOK"

def make_jobs(ctx, scope):
    q = ctx.quick; s = ctx.seed; J = []
    def add(variant, **a):
        J.append(job(ctx, len(J), variant, **a))
    nsh = 16 if q else 32
    for k in range(nsh):       # the TLC-enumerated scope, complete, at scale 1000
        add("plain" if k % 2 == 0 else "hi", fam="in", **{"in": scope}, n=0, skip=k, stride=nsh, emb="3", ps=8, npts=72 if q else 64, d=0, seed=s)
    if not q:                  # a strided part of it again under the 2^40 embeddings
        for k in range(8):
            add("hi" if k % 2 == 0 else "plain", fam="in", **{"in": scope}, n=0, skip=k, stride=128, emb="4,5", ps=8, npts=64, d=0, seed=s + 1)
    for k in range(16 if q else 48):
        add("plain" if k % 2 == 0 else "hi", fam="rand", n=21 if q else 63, emb="0,1,2,4,5", rotemb=1, npts=160, d=1, seed=s * 1000 + k)
    # deep overlap (127..300 same-orientation parallelograms piled up over a whole band): winding counters of the union sweep
    for k, E in enumerate(["255", "256"] if q else ["255", "256", "257", "127", "128", "300"]):
        add("plain" if k % 2 == 0 else "hi", fam="deep", E=E, emb="0", npts=160, d=0, seed=s)
    add("plain", fam="empty", emb="0,2,4", npts=4, d=1, seed=s)
    return J

def tally(ctx, jobs):
    for j in jobs:
        for line in open(j["out"]):
            ev = json.loads(line)
            ctx.traces += 1
            cov = [c for c in ev["cover"] if c != 99]
            if ev["n"] > 0 and any(c != 0 for c in cov) and any(c == 0 for c in cov):
                ctx.nontrivial.add(hash(json.dumps([ev["pat"], ev["path"], ev["op"], ev["closed"], ev["emb"]])))
            if ev["fam"] == "rand" and len(ctx.samples) < 3 and ev["id"] % 7 == 3:
                ctx.sample({k: ev[k] for k in ("fam", "op", "closed", "emb", "m", "pat", "path", "n")} | {"npts": len(ev["pts"]), "variant": j["variant"]})
            elif ev["fam"] == "in" and len(ctx.samples) < 1:
                ctx.sample({k: ev[k] for k in ("fam", "op", "closed", "emb", "m", "pat", "path", "n")} | {"npts": len(ev["pts"]), "variant": j["variant"]})

STAT_KEYS = ["calls_judged", "calls_dropped_not_in_input_class", "clear_points_inside", "clear_points_outside", "patterns_convex",
             "patterns_simple_nonconvex", "patterns_self_intersecting", "empty_input_calls", "pathd_relations_checked"]

def validate(ctx, jobs):
    res = core.validate_traces(MODULE, CFG, [j["out"] for j in jobs], timeout=3000)
    byfile = {j["out"]: j for j in jobs}
    tot = [0] * len(STAT_KEYS)
    for f, r in res:
        ctx.add_tlc(r)
        j = byfile[f]
        if not r.outs:
            raise core.ModelFailure("C19Trace printed no statistics for " + f)
        st = [int(x) for x in re.findall(r"-?\d+", r.outs[-1])]
        if len(st) != len(STAT_KEYS):
            raise core.ModelFailure("C19Trace statistics malformed: " + r.outs[-1])
        tot = [a + b for a, b in zip(tot, st)]
        if j["args"]["fam"] == "deep":
            if st[2] < 50:
                raise core.ModelFailure("vacuity guard: fewer than 50 clear sample points inside the deep band in " + f)
        elif j["args"]["fam"] != "empty" and (st[2] == 0 or st[3] == 0):
            raise core.ModelFailure("vacuity guard: no clear sample points inside or outside in " + f)
        if r.fails:
            lines = core.read_lines(f)
            for fl in r.fails:
                ev = json.loads(lines[fl["line"] - 1])
                rec = {"prop": fl["prop"], "clause": fl["clause"], "detail": fl["detail"],
                       "case": {k: ev[k] for k in ("pat", "path", "op", "closed", "emb", "ps", "fam")},
                       "event": {k: ev[k] for k in ("n", "lat", "paths", "dn", "deq", "dp", "inmax")},
                       "harness": {"variant": j["variant"], "seed": j["args"]["seed"], "npts": j["args"]["npts"], "d": j["args"]["d"],
                                   "sampler": "deep" if j["args"]["fam"] == "deep" else "std"}}
                (ctx.fails if fl["prop"] == ctx.prop else ctx.other).append(rec)
    for k, v in zip(STAT_KEYS, tot):
        ctx.extra[k] = v
    ctx.evaluations = tot[0] + tot[7] + tot[8]
    if any(r["prop"] == "HARNESS" for r in ctx.other):
        raise core.ModelFailure("harness self-check failed: " + json.dumps([r for r in ctx.other if r["prop"] == "HARNESS"][:2]))
    return res

def replay_rec(rec, prop="C19"):
    """Re-run the single recorded call (same seed => same sample points) through harness + TLC; True if the clause fails again."""
    work = os.path.join(core.CACHE, "work", "replay_c19_%d" % os.getpid()); os.makedirs(work, exist_ok=True)
    inf = os.path.join(work, "in.ndjson"); out = os.path.join(work, "out.ndjson")
    c = rec["case"]; h = rec["harness"]
    with open(inf, "w") as f:
        f.write(json.dumps({"pat": c["pat"], "path": c["path"]}) + "\n")
    exe = core.build(h["variant"], FAMS)
    cmd = [exe, "c19", "--fam", "in", "--in", inf, "--n", "0", "--skip", "0", "--stride", "1", "--ops", str(c["op"]), "--closed", str(c["closed"]),
           "--emb", str(c["emb"]), "--ps", str(c["ps"]), "--npts", str(h["npts"]), "--d", str(h["d"]), "--seed", str(h["seed"]), "--out", out]
    if c.get("fam") == "deep" or h.get("sampler") == "deep":
        cmd += ["--sampler", "deep"]
    p = core.sh(cmd, timeout=300)
    if p.returncode != 0:
        raise core.ModelFailure("replay harness failed: " + p.stderr.decode(errors="replace")[-1000:])
    res = core.validate_traces(MODULE, CFG, [out], timeout=600)
    shutil.rmtree(work, ignore_errors=True)
    return any(fl["prop"] == prop and fl["clause"] == rec["clause"] for _, r in res for fl in r.fails)

def run(ctx):
    design_level(ctx)
    scope = ctx.path("scope.ndjson")
    g = core.tlc_ok(core.tlc("GenC19", "GenC19.cfg" if ctx.quick else "GenC19T.cfg", env={"OUT": scope}, timeout=600), "GenC19"); ctx.add_tlc(g)
    ctx.extra["scope_pairs_enumerated_by_tlc"] = core.count_lines(scope)
    ctx.extra["scope_sizes_tris_paths_pairs"] = g.outs[-1] if g.outs else ""
    jobs = run_harness(make_jobs(ctx, scope))
    tally(ctx, jobs)
    validate(ctx, jobs)
    ctx.trusted.append("affine embedding: the harness maps sample points with the map it applied to the inputs (m*R + Tq +- Tp)")
    ctx.assumptions.append("general position is read as: pattern (>= 3 vertices) and path (>= 2 vertices) have pairwise distinct vertices; "
                           "other inputs are dropped (empty inputs are judged by the empty clause)")
    return core.finish(ctx, "model_checking", RULE, confirm=lambda rec: replay_rec(rec), exhaustive=True)

def replay(path, seed):
    rec = json.load(open(path))
    if replay_rec(rec, "C19"):
        print("VIOLATION property=C19 replay=%s" % path); return 1
    print("replay: no violation reproduced"); return 0
