"""C01 - boolean operations return the region defined by fill rule and clip type (DESIGN.md 5/C01)."""
from . import core, boolfam

def jobs_for(ctx):
    q = ctx.quick; s = ctx.seed; J = []; i = 0
    def add(variant, **a):
        nonlocal i
        J.append(boolfam.harness_job(ctx, i, variant, a)); i += 1
    # exhaustive winding ladder: every (ws, wc) in -3..3 x -3..3, square and diamond rings
    add("plain", fam="ladder", emb="0,4", npts=160, cfg="notree", seed=s)
    add("hi", fam="ladder", emb="0,3", npts=160, cfg="notree", seed=s)
    # random general-position inputs, identity embedding (sub-unit rounding visible)
    nsh = 12 if q else 48; per = 16 if q else 120
    for k in range(nsh):
        add("plain" if k % 2 == 0 else "hi", fam="gps", n=per, emb="0", npts=220 if q else 400, cfg="notree", seed=s * 1000 + k,
            R=[32, 48, 64][k % 3], maxpaths=2 if k % 4 else 3, maxv=[5, 6, 7][k % 3])
    # the same family under big-magnitude embeddings (|coordinate| up to 2^61)
    for k in range(4 if q else 16):
        add("plain" if k % 2 == 0 else "hi", fam="gps", n=8 if q else 60, emb="1,2,3,4,6,7", npts=160, cfg="notree", seed=s * 1000 + 500 + k, R=48)
    # scales at which the whole input spans 2^31 .. 2^33 (boundary values of 32-bit differences and of 64-bit products)
    for k in range(4 if q else 16):
        add("plain" if k % 2 == 0 else "hi", fam="gps", n=10 if q else 60, emb="8,9", npts=160, cfg="notree", seed=s * 1000 + 600 + k, R=[64, 48][k % 2])
    # big-magnitude embeddings again, now with unrelated small triangles whose vertices sit a few units above / below the y of an edge crossing
    for k in range(10 if q else 32):
        add("plain" if k % 2 == 0 else "hi", fam="gps", n=30 if q else 120, emb="4,7" if k % 5 else "3,6", npts=140, cfg="notree", xtra=1, seed=s * 1000 + 900 + k, R=48)
    return J

RULE = ("inputs: winding ladder (all 49 (ws,wc) pairs, 2 shapes) + random general-position polygons (TLC-certified GP, "
        "coordinates < 64, self-intersecting allowed) under 9 affine embeddings (offsets up to 2^61, scales 2^26, 2^27, 2^30, 2^54 so that coordinate differences straddle 2^31 / 2^32 and exceed 2^59); each input run with 4 clip types x 4 fill "
        "rules x PreserveCollinear x ReverseSolution (+NoClip) on builds plain and CLIPPER2_HI_PRECISION; a case is non-trivial/distinct "
        "when the library returned a non-empty solution with distinct content for a distinct (input, embedding)")

def run(ctx):
    fl = core.tlc_ok(core.tlc("FillLemmas", "FillLemmas.cfg", timeout=120), "FillLemmas"); ctx.add_tlc(fl)
    # Layer 2: the engine's contribution tables and winding-count rule, transcribed and model-checked against Fill.tla
    ctab = core.tlc_ok(core.tlc("ContribTable", "ContribTable.cfg", timeout=300), "ContribTable"); ctx.add_tlc(ctab)
    ctx.extra["contrib_table_rows_checked"] = [o for o in ctab.outs][:1]
    # optional strengthening, never part of the verdict: the same theorems for ALL integer windings, proved by TLAPS
    try:
        import re
        pr = core.sh(["tlapm", "--toolbox", "0", "0", "ContribProofs.tla"], timeout=300, cwd=core.SPEC)
        m = re.search(r"All (\d+) obligations? proved", (pr.stdout + pr.stderr).decode(errors="replace"))
        ctx.extra["tlaps_contrib_table_all_integers"] = {"obligations_proved": int(m.group(1))} if m else {"not_proved": True}
    except Exception as e:
        ctx.extra["tlaps_contrib_table_all_integers"] = {"unavailable": str(e)[:200]}
    jobs = boolfam.run_jobs(ctx, jobs_for(ctx))
    boolfam.tally(ctx, jobs)
    boolfam.validate(ctx, jobs)
    vatti(ctx)
    ctx.trusted.append("affine embedding invariance of winding numbers (harness maps sample points with the same map)")
    return core.finish(ctx, "model_checking", RULE, confirm=boolfam.confirm("C01"))

def vatti(ctx):
    """Layer 2 binding: AEL snapshots of hook H1 and the intersections of hook H2 validated against VattiTrace.tla (V1-V7).  A failure is an engine-level
    divergence: it is recorded and ESCALATED to a targeted observable search on that input (DESIGN.md 3.6), never a verdict."""
    import json, os
    exe = core.build("plain", ("vatti",))
    vj = [{"seed": ctx.seed * 1000 + 700 + k, "n": 30 if ctx.quick else 150, "R": [32, 48, 64][k % 3], "maxpaths": 2 + k % 2, "out": ctx.path("vatti_%02d.ndjson" % k)} for k in range(8 if ctx.quick else 16)]
    vj += [{"fam": "walk", "seed": ctx.seed * 1000 + 800 + k, "n": 60 if ctx.quick else 400, "grid": 6, "mul": 1 + k % 2, "out": ctx.path("vattiw_%02d.ndjson" % k)} for k in range(4 if ctx.quick else 8)]
    def one(j):
        cmd = [exe, "vatti"]
        for k, v in j.items():
            cmd += ["--" + k, str(v)]
        p = core.sh(cmd, timeout=1200)
        if p.returncode != 0:
            raise core.ModelFailure("harness vatti failed: " + p.stderr.decode(errors="replace")[-1000:])
    core.run_parallel(one, vj)
    res = core.validate_traces("VattiTrace", "VattiTrace.cfg", [j["out"] for j in vj])
    snaps = 0; div = []; cases = []; nis = 0
    for f, r in res:
        ctx.add_tlc(r); lines = None
        snaps += sum(1 for ln in open(f) if ln.startswith('{"e":"Ael"'))
        nis += sum(len(json.loads(ln)["x"]) for ln in open(f) if ln.startswith('{"e":"Isects"'))
        for fl in r.fails:
            lines = lines or core.read_lines(f)
            if fl["prop"] == "ANY":
                core.fail_rec(ctx, lines, fl, {"harness": {"variant": "plain", "args": {"cfg": "full", "npts": 200, "seed": ctx.seed}}})
                continue
            i = fl["line"] - 1
            while i > 0 and not lines[i].startswith('{"e":"VCase"'):
                i -= 1
            c = json.loads(lines[i]); div.append({"clause": fl["clause"], "detail": fl["detail"], "subj": c["subj"], "clip": c["clip"]})
            cases.append(json.dumps({"subj": c["subj"], "clip": c["clip"]}))
    ctx.extra["ael_snapshots_validated"] = snaps
    ctx.extra["sweep_intersections_validated"] = nis
    ctx.extra["engine_divergences"] = {"count": len(div), "clauses": sorted({d["clause"] for d in div}), "sample": div[:2]}
    if cases:
        core.log("[C01] %d engine-level divergence(s) (%s): escalating to the observable checks on those inputs" % (len(div), ", ".join(sorted({d["clause"] for d in div}))))
        inf = ctx.path("escalate.ndjson")
        with open(inf, "w") as fh:
            fh.write("\n".join(sorted(set(cases))[:60]) + "\n")
        ej = [boolfam.harness_job(ctx, 900 + i, v, {"fam": "in", "in": inf, "n": 0, "skip": 0, "stride": 1, "emb": e, "cfg": "full", "npts": 400, "reunion": 0, "seed": ctx.seed})
              for i, (v, e) in enumerate((("plain", "0"), ("hi", "0"), ("plain", "2,3")))]
        ej = boolfam.run_jobs(ctx, ej); boolfam.tally(ctx, ej); boolfam.validate(ctx, ej)

def replay(path, seed):
    return boolfam.replay_file(path, "C01")
