"""C17 - the C export layer marshals faithfully and forwards every parameter (DESIGN.md 5/C17).

Pipeline: (1) TLC model-checks the documented array grammar (ExportLayout.tla) in small scope, paths and trees, Z on/off;
(2) TLC generators write the forwarding table (C17Forward.tla: 14 functions x argument domains), an input menu and the
layout scope; (3) harness family c17 (variants plain, z, asan, asanz) executes the FULL argument product of every function
on every input through the exported function and through the corresponding native C++ call, and the library's
Create*/Convert*/CreateCPolyTree* on the layout scope, logging arrays verbatim; (4) C17Trace.tla (TLC) judges every trace."""
import concurrent.futures as cf
import hashlib, json, os, random, re, shutil
from . import core

RULE = ("forwarding: TLC (GenC17/C17Forward) enumerates for each of the 14 exported functions the full product of its argument domains "
        "(ct x fr x pc x rs [x precision]; delta (incl. 0) x jt x et x ml x at x rs [x precision]; rect [x precision]; is_closed) and the product of the "
        "corresponding native call's parameters (plus native-only ones: roles/pc/atu/lines/diff/sw); the harness executes both products on every "
        "input (TLC-written menu incl. empty paths / empty sets / empty results, plus seeded random small polygons and polylines) in builds "
        "plain, z, asan, asanz; layout: every path set with <= MaxP paths x <= MaxV vertices over 3 vertices (all 3 coordinate values in x, y, z) "
        "and 6 232 forests (depth <= 3) go through the real Create*/Convert*/CreateCPolyTree*; an exported call is NON-TRIVIAL when its native "
        "result is non-empty and TLC certifies from the recorded native results that flipping at least one forwarded parameter alone changes the "
        "native result; distinct by (build, function, input, argument tuple)")

VARIANTS_Q = ("plain", "z", "asan", "asanz")
DIED = []
ASAN_ENV = {"ASAN_OPTIONS": "detect_leaks=0:abort_on_error=0:allocator_may_return_null=1", "UBSAN_OPTIONS": "print_stacktrace=1"}

# ------------------------------------------------------------------ TLC output (PrintT wraps long tuples over several lines)
def parse_blocks(out):
    """yield normalised one-line strings of every <<...>> block printed by PrintT"""
    buf = None; depth = 0
    for line in out.splitlines():
        s = line.strip()
        if buf is None:
            if not s.startswith("<<"):
                continue
            buf = []; depth = 0
        buf.append(s)
        depth += s.count("<<") - s.count(">>")
        if depth <= 0:
            t = " ".join(buf); buf = None
            t = re.sub(r"\s+", " ", t); t = t.replace("<< ", "<<").replace(" >>", ">>")
            yield t

FAIL_RE = re.compile(r'^<<"FAIL", "([^"]+)", (-?\d+), "([^"]+)", (.*)>>$')
NOTE_RE = re.compile(r'^<<"NOTE", "([^"]+)", (-?\d+), (.*)>>$')

def reparse(res):
    res.fails = []; res.notes = []
    for t in parse_blocks(res.out):
        m = FAIL_RE.match(t)
        if m:
            res.fails.append({"prop": m.group(1), "line": int(m.group(2)), "clause": m.group(3), "detail": m.group(4)}); continue
        m = NOTE_RE.match(t)
        if m:
            res.notes.append({"kind": m.group(1), "line": int(m.group(2)), "detail": m.group(3)})
    return res

# ------------------------------------------------------------------ inputs
def random_inputs(seed, n_each):
    """seeded small inputs in quarter units (the input class of C17 is 'any path set'; nothing to certify)"""
    r = random.Random(seed * 7919 + 17); out = []; nid = 1000
    def poly(k, lo, hi, zb):
        return [[r.randint(lo, hi), r.randint(lo, hi), zb + i] for i in range(k)]
    for _ in range(n_each):
        nid += 1
        out.append({"id": nid, "cls": "bool", "a": [poly(r.randint(3, 6), 0, 80, 10 * (j + 1)) for j in range(r.randint(1, 3))],
                    "b": [poly(r.randint(2, 4), -10, 90, 100)] if r.random() < 0.6 else [],
                    "c": [poly(r.randint(3, 5), 0, 80, 200 + 10 * j) for j in range(r.randint(0, 2))]})
    for _ in range(n_each):
        nid += 1
        out.append({"id": nid, "cls": "infl", "a": [poly(r.randint(1, 5), 0, 100, 10 * (j + 1)) for j in range(r.randint(1, 2))], "b": [], "c": []})
        nid += 1
        out.append({"id": nid, "cls": "infl1", "a": [poly(r.randint(1, 6), 0, 100, 10)], "b": [], "c": []})
    for _ in range(n_each):
        nid += 1
        out.append({"id": nid, "cls": "rect", "a": [poly(r.randint(1, 7), -30, 100, 10 * (j + 1)) for j in range(r.randint(1, 3))], "b": [], "c": []})
        nid += 1
        out.append({"id": nid, "cls": "mink", "a": [poly(r.randint(1, 4), -6, 6, 10)], "b": [poly(r.randint(1, 5), 0, 40, 20)], "c": []})
    return out

# ------------------------------------------------------------------ harness runs (with crash recording / resume)
def run_harness(exe, sub, args, out, variant):
    """runs the harness; a death inside a monitored call leaves a Crash event as the last line (exit code 99): the run is
    resumed behind the crashed group into a continuation file.  Returns the list of trace files."""
    files = []; frm = 0; part = 0
    while True:
        f = out if part == 0 else out.replace(".ndjson", "_r%d.ndjson" % part)
        cmd = [exe, sub]
        for k, v in args.items():
            cmd += ["--" + k, str(v)]
        cmd += ["--from", str(frm), "--out", f]
        p = core.sh(cmd, timeout=1500, env=ASAN_ENV)
        files.append(f)
        if p.returncode == 0:
            return files, p.stderr.decode(errors="replace")
        last = None; lines = []
        try:
            with open(f, "rb") as fh:
                lines = fh.read().splitlines()
            last = json.loads(lines[-1]) if lines else None
        except Exception:
            last = None
        if not (last and last.get("e") == "Crash"):
            # died with no monitored call on record (e.g. a heap damaged earlier): keep the complete lines, report at the end
            good = []
            for ln in lines:
                try:
                    json.loads(ln); good.append(ln)
                except Exception:
                    break
            with open(f, "wb") as fh:
                fh.write(b"".join(g + b"\n" for g in good))
            DIED.append({"variant": variant, "cmd": " ".join(cmd[1:6]), "rc": p.returncode, "stderr": p.stderr.decode(errors="replace")[-300:]})
            return files, p.stderr.decode(errors="replace")
        core.log("[c17] %s: process died in %s call of %s (group %s); recorded, resuming" % (variant, last["ph"], last["fn"], last["g"]))
        part += 1
        if part > 6 or "only" in args or "onlyidx" in args:
            return files, p.stderr.decode(errors="replace")
        frm = int(last["g"]) + 1

def tlc_traces(files_z, timeout=1700):
    """files_z: list of (file, z, meta). One TLC process per file."""
    def one(item):
        f, z, meta = item
        res = core.tlc("C17Trace", "C17Trace.cfg", env={"TRACE": f, "Z": "1" if z else "0"}, workers=1, timeout=timeout, heap="3g")
        n = core.count_lines(f)
        if res.error is None and res.depth != n + 1:
            res.error = "trace not consumed: depth %d, %d lines (first unmatched event at line %d)" % (res.depth, n, res.depth)
        core.tlc_ok(res, "trace validation C17Trace on %s" % os.path.basename(f))
        return (f, reparse(res), meta)
    items = [it for it in files_z if os.path.exists(it[0]) and os.path.getsize(it[0]) > 0]
    with cf.ThreadPoolExecutor(core.NCPU) as ex:
        return list(ex.map(one, items))

SENS_RE = re.compile(r'<<"(\w+)", (\d+)>>')
HEAD_RE = re.compile(r'^<<"(\w+)", (\d+), (\d+), (\d+), ')

def find_case(lines, lno):
    i = min(lno, len(lines)) - 1
    while i > 0:
        try:
            e = json.loads(lines[i]).get("e")
        except Exception:
            e = None
        if e == "Case":
            break
        i -= 1
    return i

def collect(ctx, results, sens):
    harness_fail = []
    for f, res, meta in results:
        ctx.add_tlc(res)
        for n in res.notes:
            if n["kind"] != "SENS":
                continue
            m = HEAD_RE.match(n["detail"])
            if not m:
                raise core.ModelFailure("unparsable SENS note: " + n["detail"])
            fn, iid, nx, nt = m.group(1), int(m.group(2)), int(m.group(3)), int(m.group(4))
            ctx.evaluations += nx; ctx.nontrivial += nt; ctx.traces += 1
            for nm, cnt in SENS_RE.findall(n["detail"][m.end():]):
                sens.setdefault(fn, {}).setdefault(nm, 0)
                sens[fn][nm] += int(cnt)
            sens.setdefault(fn, {}).setdefault("#calls", 0); sens[fn]["#calls"] += nx
        if not res.fails:
            continue
        lines = core.read_lines(f)
        for fl in res.fails:
            ev = json.loads(lines[fl["line"] - 1])
            rec = {"prop": fl["prop"], "clause": fl["clause"], "detail": fl["detail"], "harness": meta, "module": "C17Trace"}
            if ev["e"] in ("Lay", "Cvt", "LayT"):
                rec["case"] = {"family": "layout", "id": ev["id"], "variant": meta["variant"]}
                rec["event"] = ev
            elif ev["e"] == "Crash":
                rec["case"] = {"family": "crash", "fn": ev["fn"], "g": ev["g"], "args": ev["args"], "variant": meta["variant"]}
                rec["event"] = ev
            else:
                ci = find_case(lines, fl["line"]); ce = json.loads(lines[ci])
                rec["case"] = {"family": "forward", "fn": ce.get("fn"), "g": ce.get("g"), "id": ce.get("id"), "variant": meta["variant"]}
                rec["event"] = {"e": ev["e"], "line": fl["line"]}
            if fl["prop"] == ctx.prop:
                ctx.fails.append(rec)
            else:
                harness_fail.append(rec)
    return harness_fail

def replay_rec(rec, prop="C17"):
    """re-run the single group / layout record through harness + TLC; True if the same clause fails again"""
    meta = rec["harness"]; case = rec["case"]
    work = os.path.join(core.CACHE, "work", "replay_c17_%d" % os.getpid()); shutil.rmtree(work, ignore_errors=True); os.makedirs(work, exist_ok=True)
    try:
        exe = core.build(meta["variant"], ("c17",))
        a = dict(meta["args"])
        for k in ("shard", "nshards"):
            a.pop(k, None)
        # regenerate generator outputs if the recorded scratch files are gone
        for key in ("table", "in"):
            if key in a and not os.path.exists(a[key]):
                regen(work, a, meta)
        if "inputs" in a and not all(os.path.exists(p) for p in a["inputs"].split(",")):
            regen(work, a, meta)
        if meta["sub"] == "c17":
            a["only"] = case["g"]
        elif case["family"] == "crash":
            a["onlyidx"] = case["g"]
        else:
            a["only"] = case["id"]
        files, _ = run_harness(exe, meta["sub"], a, os.path.join(work, "out.ndjson"), meta["variant"])
        res = tlc_traces([(f, meta["z"], meta) for f in files])
        return any(fl["prop"] == prop and fl["clause"] == rec["clause"] for _, r, _ in res for fl in r.fails)
    finally:
        shutil.rmtree(work, ignore_errors=True)

def regen(work, a, meta):
    tab = os.path.join(work, "tab.ndjson"); menu = os.path.join(work, "menu.ndjson")
    core.tlc_ok(core.tlc("GenC17", "GenC17.cfg", env={"OUT": tab, "OUT2": menu}, timeout=300), "GenC17")
    if "table" in a:
        a["table"] = tab
        rnd = os.path.join(work, "rnd.ndjson")
        with open(rnd, "w") as f:
            for r in random_inputs(meta.get("seed", 1), meta.get("n_each", 0)):
                f.write(json.dumps(r) + "\n")
        a["inputs"] = menu + "," + rnd
    if "in" in a:
        lay = os.path.join(work, "lay.ndjson")
        core.tlc_ok(core.tlc("GenC17Lay", "GenC17Lay.cfg", env={"OUT": lay, "SCOPE": meta.get("scope", "3,2")}, timeout=600), "GenC17Lay")
        a["in"] = lay

def run(ctx):
    q = ctx.quick; s = ctx.seed
    ctx.nontrivial = 0
    # ---- (1) design-level model checking of the documented layout (small scope, exhaustive)
    mc = [("ExportLayoutMC", "ExportLayoutMC.cfg"), ("ExportLayoutMC", "ExportLayoutMC_z.cfg"), ("ExportTreeMC", "ExportTreeMC.cfg"), ("ExportTreeMC", "ExportTreeMC_z.cfg")]
    if not q:   # the full 3-value coordinate domain (9 / 27 vertices) for <= 2 paths
        mc += [("ExportLayoutMC", "ExportLayoutMC_full.cfg"), ("ExportLayoutMC", "ExportLayoutMC_zfull.cfg")]
    pool = cf.ThreadPoolExecutor(3)
    mc_f = [pool.submit(core.tlc, m, c, None, 2, 900) for m, c in mc]
    # ---- (2) generators
    tab = ctx.path("tab.ndjson"); menu = ctx.path("menu.ndjson"); rnd = ctx.path("rnd.ndjson")
    g = core.tlc_ok(core.tlc("GenC17", "GenC17.cfg", env={"OUT": tab, "OUT2": menu}, timeout=300), "GenC17"); ctx.add_tlc(g)
    n_each = 2 if q else 40
    with open(rnd, "w") as f:
        for r in random_inputs(s, n_each):
            f.write(json.dumps(r) + "\n")
    scopes = {}
    for sc in (["3,2"] if q else ["3,2", "3,3"]):
        p = ctx.path("lay_%s.ndjson" % sc.replace(",", ""))
        g = core.tlc_ok(core.tlc("GenC17Lay", "GenC17Lay.cfg", env={"OUT": p, "SCOPE": sc}, timeout=900), "GenC17Lay"); ctx.add_tlc(g)
        scopes[sc] = p
        ctx.extra["layout_records_scope_%s" % sc.replace(",", "x")] = core.count_lines(p)
    # ---- (3) harness
    exes = {v: core.build(v, ("c17",)) for v in VARIANTS_Q}
    jobs = []
    for v in VARIANTS_Q:
        z = v in ("z", "asanz")
        nsh = 8 if q else 16
        # quick: the sanitizer builds run the menu only; thorough: everything everywhere
        inputs = menu + "," + rnd if (not q or v in ("plain", "z")) else menu
        for k in range(nsh):
            jobs.append({"variant": v, "z": z, "sub": "c17", "seed": s, "n_each": n_each,
                         "args": {"table": tab, "inputs": inputs, "shard": k, "nshards": nsh}, "out": ctx.path("fw_%s_%02d.ndjson" % (v, k))})
        sc = "3,2" if q else "3,3"
        nl = 2 if q else 16
        for k in range(nl):
            jobs.append({"variant": v, "z": z, "sub": "c17lay", "scope": sc,
                         "args": {"in": scopes[sc], "shard": k, "nshards": nl}, "out": ctx.path("ly_%s_%02d.ndjson" % (v, k))})
    def hj(j):
        j["files"], j["stderr"] = run_harness(exes[j["variant"]], j["sub"], j["args"], j["out"], j["variant"])
        return j
    import time
    t1 = time.time()
    jobs = core.run_parallel(hj, jobs)
    core.log("[c17] harness: %d jobs in %.1fs" % (len(jobs), time.time() - t1)); t1 = time.time()
    for m, f in zip(mc, mc_f):
        r = core.tlc_ok(f.result(), "%s/%s" % m); ctx.add_tlc(r)
        ctx.extra.setdefault("layout_model_checking", {})[m[1]] = {"distinct_states": r.distinct, "wall_s": round(r.wall, 1)}
    pool.shutdown()
    # ---- (4) TLC judges every trace
    items = []
    for j in jobs:
        meta = {k: j[k] for k in ("variant", "z", "sub", "args") if k in j}
        for k in ("seed", "n_each", "scope"):
            if k in j:
                meta[k] = j[k]
        for f in j["files"]:
            items.append((f, j["z"], meta))
    results = tlc_traces(items)
    core.log("[c17] TLC trace validation: %d traces in %.1fs (cpu-ish sum %.1fs)" % (len(items), time.time() - t1, sum(r.wall for _, r, _ in results)))
    sens = {}
    hf = collect(ctx, results, sens)
    # layout evaluations
    nlay = 0
    for f, _, meta in results:
        if meta["sub"] == "c17lay":
            n = core.count_lines(f) - 2; nlay += n
    ctx.evaluations += nlay; ctx.traces += nlay
    ctx.extra["layout_events_judged"] = nlay
    ctx.extra["sensitive_calls_per_function_and_parameter"] = sens
    if hf:
        ctx.extra["harness_level_reports"] = [{k: r[k] for k in ("clause", "detail", "case")} for r in hf[:10]]
    if DIED:
        ctx.extra["harness_deaths_outside_monitored_calls"] = DIED[:10]
    if DIED and not ctx.fails:
        raise core.ModelFailure("harness died outside a monitored call: " + json.dumps(DIED[:3]))
    if hf and not ctx.fails:
        raise core.ModelFailure("harness-level inconsistencies reported by C17Trace (not a verdict): " + json.dumps([{k: r[k] for k in ("clause", "detail", "case")} for r in hf[:5]]))
    # vacuity guard: every parameter of every function must have changed the native result of some executed call
    if not ctx.fails:
        tabrecs = [json.loads(l) for l in core.read_lines(tab)]
        for t in tabrecs:
            for p in t["n"]:
                if sens.get(t["fn"], {}).get(p["n"], 0) == 0:
                    raise core.ModelFailure("vacuity guard: parameter %s of %s never changed the native result" % (p["n"], t["fn"]))
    # samples
    for f, _, meta in results:
        if meta["sub"] == "c17" and len(ctx.samples) < 2:
            for line in open(f):
                if line.startswith('{"e":"Case"'):
                    ev = json.loads(line); ctx.sample({"variant": meta["variant"], "fn": ev["fn"], "input_id": ev["id"], "native_input_a_cells": ev["na"][:1], "input_array_a": ev["xa"]["cells"][:8]}); break
        if meta["sub"] == "c17lay" and len(ctx.samples) < 4:
            for i, line in enumerate(open(f)):
                if i == 40:
                    ctx.sample({"variant": meta["variant"], "layout_event": json.loads(line)}); break
    ctx.trusted = ["TLC 1.8.0 + CommunityModules Json/IOUtils", "harness: raw 64-bit cell dump of arrays and of native results, native reference calls (argument names of C17Forward.tla), "
                   "__sanitizer_get_allocated_size (ASan) for allocation sizes", "ASan/UBSan trap any access outside an allocation"]
    ctx.assumptions = ["the native reference of the Inflate* exports is the documented C++ InflatePaths (delta = 0 returns the input unchanged; otherwise the ClipperOffset recipe, "
                       "cross-checked natively against the literal InflatePaths function whenever pc = rs = atu = 0: 'litbad' must be 0)",
                       "Inflate inputs contain no empty path (defect class S1 of C10 would crash the native reference)",
                       "out-of-range enum / precision arguments (error codes -3, -4, -5) are not enumerated"]
    return core.finish(ctx, "model_checking", RULE, confirm=lambda rec: replay_rec(rec), exhaustive=False)

def replay(path, seed):
    rec = json.load(open(path))
    if replay_rec(rec):
        print("VIOLATION property=C17 replay=%s" % path); return 1
    print("replay: no violation reproduced"); return 0
