"""C20 - path utilities keep their contracts (DESIGN.md 5/C20).

Design level : PathUtilsMC.tla (lemmas about the contracts of PathUtils.tla, every path of the small scope) and
               C20SimplifyMC.tla (the SimplifyPath loop as a state machine against its contract), model-checked by TLC.
Binding      : GenC20.tla enumerates the complete small scope (all paths <= 5 vertices on 3x3, <= 4 on 4x4); the harness
               (fam_c20.cpp) replays every one of them - plus random longer paths, degenerate shapes under affine
               embeddings and an Ellipse sweep - into the real library and records what came back; C20Trace.tla decides
               every clause.  Known classes (S3, S10, zero-length open TrimCollinear) are clause names decided by the spec.
"""
import json, os
from . import core

PROP = "C20"
FAMS = ("c20",)
EPS = "0/1,1/2,1/1,2/1"
MDS = "1/1,2/1,9/2"
RULE = ("TLC (GenC20.tla) enumerates EVERY path with <= 5 vertices on the 3x3 grid and <= 4 on the 4x4 grid (empty path included); each is passed to "
        "TrimCollinear (closed/open, twice), SimplifyPath and RamerDouglasPeucker (eps 0, 1/2, 1, 2; closed/open), StripDuplicates, StripNearEqual "
        "(thresholds 1, 2, 9/2), TranslatePath, GetBounds, Length, with the PathD / Paths overloads as variants; plus seeded random paths (<= 12 "
        "vertices: collinear runs, repeated points, spikes, partial reversals, first = last; 10 epsilons) and degenerate shapes in every rotation "
        "under embeddings up to 2^61, seeded NEAR-collinear paths with edge components 2^26..2^42 whose corners have exact cross products 0, +-1, +-2, .. "
        "(TrimCollinear Path64 + PathD overload, closed/open, rotated/reversed; verdict by TLC with big integers, C20BigTrace.tla), and an Ellipse sweep (2 centres x radii 0..12 in halves x 10 step counts); every call is judged by TLC. "
        "evaluations = library calls recorded (variants identical to the primary result are counted separately); distinct_nontrivial = distinct "
        "(path, function, configuration) whose result differs from the input path, counted by 64-bit hashing in the harness")


def _job(ctx, idx, sub, args):
    out = ctx.path("c20_%03d.ndjson" % idx)
    a = dict(args)
    if sub == "c20":
        a["nt"] = out + ".nt"
    return {"idx": idx, "sub": sub, "args": a, "out": out}


def _run_jobs(exe, jobs):
    def one(j):
        cmd = [exe, j["sub"]]
        for k, v in j["args"].items():
            cmd += ["--" + k, str(v)]
        cmd += ["--out", j["out"]]
        p = core.sh(cmd, timeout=1200)
        if p.returncode == 3:      # the library crashed inside a monitored call: the harness names the call (not a model failure)
            j["crash"] = _crash_of(p); j["stats"] = {}
            return j
        if p.returncode != 0:
            raise core.ModelFailure("harness failed (%d): %s\n%s" % (p.returncode, " ".join(cmd), p.stderr.decode(errors="replace")[-2000:]))
        try:
            j["stats"] = json.loads(p.stderr.decode().strip().splitlines()[-1])
        except Exception:
            raise core.ModelFailure("harness printed no statistics: " + " ".join(cmd))
        return j
    return core.run_parallel(one, jobs)


def _crash_of(p):
    for line in reversed(p.stderr.decode(errors="replace").splitlines()):
        if line.startswith('{"crash"'):
            return json.loads(line)
    raise core.ModelFailure("harness exit 3 without a crash record")


def _crash_rec(j):
    c = j["crash"]
    if j["sub"] == "c20big":
        return {"prop": PROP, "clause": "library_call_crashed", "detail": "signal %d in %s(%s)" % (c["crash"], c["fn"], c["cfg"]),
                "case": {"e": "Big", "p": c["p"]}, "event": c, "module": "C20BigTrace", "harness": {"sub": "c20big", "args": {}}}
    return {"prop": PROP, "clause": "library_call_crashed", "detail": "signal %d in %s(%s)" % (c["crash"], c["fn"], c["cfg"]),
            "case": {"e": "Path", "p": c["p"], "emb": c["emb"], "fam": j["args"].get("fam")}, "event": c,
            "harness": {"sub": "c20", "args": {"eps": j["args"].get("eps", "0/1,1/2,1/1,3/2,2/1,3/1,5/1,8/1,1/4,7/2"), "mds": j["args"].get("mds", MDS),
                                               "emb": c["emb"], "seed": j["args"].get("seed", 1), "lite": j["args"].get("lite", 0)}}}


def _unwire(w):
    """C18BigInt wire format [sign, 12-bit limbs little-endian] -> int"""
    return w[0] * sum(l << (12 * i) for i, l in enumerate(w[1:]))


def _eps_of(ev):
    eps, mds = [], []
    for x in ev.get("calls", []):
        if x["f"] in ("SP", "RDP") and (x["en"], x["ed"]) not in eps:
            eps.append((x["en"], x["ed"]))
        if x["f"] == "SNE" and (x["mn"], x["md"]) not in mds:
            mds.append((x["mn"], x["md"]))
    return (",".join("%d/%d" % e for e in eps) or EPS, ",".join("%d/%d" % m for m in mds) or MDS)


def _collect(ctx, results, byfile):
    for f, res in results:
        ctx.add_tlc(res)
        if not res.fails:
            continue
        lines = None
        with open(f) as fh:
            lines = fh.read().splitlines()
        for fl in res.fails:
            ev = json.loads(lines[fl["line"] - 1])
            j = byfile[f]
            if ev["e"] == "Big":
                if fl["clause"] == "bad_wire":
                    raise core.ModelFailure("C20BigTrace: malformed wide integer in event %s" % ev["id"])
                path = [[_unwire(q[0]), _unwire(q[1])] for q in ev["p"]]
                rec = {"prop": fl["prop"], "clause": fl["clause"], "detail": fl["detail"],
                       "case": {"e": "Big", "p": path, "closed": ev["c"], "overload": ev["v"]},
                       "event": {"out": [[_unwire(q[0]), _unwire(q[1])] for q in ev["out"]]},
                       "module": "C20BigTrace", "harness": {"sub": "c20big", "args": {}}}
            elif ev["e"] == "Path":
                try:
                    first = int(fl["detail"].strip("<>").split(",")[0])
                except ValueError:
                    first = 1
                eps, mds = _eps_of(ev)
                rec = {"prop": fl["prop"], "clause": fl["clause"], "detail": fl["detail"],
                       "case": {"e": "Path", "p": ev["p"], "emb": ev["emb"], "fam": ev["fam"]},
                       "event": ev["calls"][first - 1] if 1 <= first <= len(ev["calls"]) else None,
                       "harness": {"sub": "c20", "args": {"eps": eps, "mds": mds, "emb": ev["emb"], "seed": j["args"].get("seed", 1), "lite": j["args"].get("lite", 0)}}}
            else:
                rec = {"prop": fl["prop"], "clause": fl["clause"], "detail": fl["detail"],
                       "case": {k: ev[k] for k in ("e", "c", "a2", "b2", "steps", "v")}, "event": ev,
                       "harness": {"sub": "c20ell", "args": {"one": "%d,%d,%d,%d,%d" % (ev["c"][0], ev["c"][1], ev["a2"], ev["b2"], ev["steps"])}}}
            (ctx.fails if fl["prop"] == ctx.prop else ctx.other).append(rec)


def _replay_rec(rec):
    """Re-run the single recorded case through harness + TLC; True if the same clause fails again."""
    work = os.path.join(core.CACHE, "work", "replay_c20_%d" % os.getpid()); os.makedirs(work, exist_ok=True)
    out = os.path.join(work, "out.ndjson")
    exe = core.build("plain", FAMS)
    h = rec["harness"]; cmd = [exe, h["sub"]]
    if h["sub"] == "c20":
        inf = os.path.join(work, "in.ndjson")
        with open(inf, "w") as f:
            f.write(json.dumps({"p": rec["case"]["p"]}) + "\n")
        cmd += ["--fam", "in", "--in", inf]
    if h["sub"] == "c20big":
        inf = os.path.join(work, "in.ndjson")
        with open(inf, "w") as f:
            f.write(json.dumps({"p": rec["case"]["p"]}) + "\n")
        cmd += ["--in", inf]
    for k, v in h["args"].items():
        cmd += ["--" + k, str(v)]
    cmd += ["--out", out]
    p = core.sh(cmd, timeout=300)
    if p.returncode == 3:
        return rec["clause"] == "library_call_crashed"
    if p.returncode != 0:
        raise core.ModelFailure("replay harness failed: " + p.stderr.decode(errors="replace")[-1000:])
    mod = rec.get("module", "C20Trace")
    res = core.validate_traces(mod, mod + ".cfg", [out], timeout=300)
    return any(fl["prop"] == PROP and fl["clause"] == rec["clause"] for _, r in res for fl in r.fails)


def run(ctx):
    q = ctx.quick; s = ctx.seed
    exe = core.build("plain", FAMS)
    # ---- design level + generators (TLC), concurrently
    mc = [("PathUtilsMC", "PathUtilsMC_q.cfg" if q else "PathUtilsMC_t.cfg", 4 if q else 8),
          ("C20SimplifyMC", "C20SimplifyMC_q.cfg" if q else "C20SimplifyMC_t.cfg", 4 if q else 8)]
    gens = [("GenC20_3x5.cfg", ctx.path("paths_3x5.ndjson"), 66430), ("GenC20_4x4.cfg", ctx.path("paths_4x4.ndjson"), 69905)]
    if not q:
        gens.append(("GenC20_3x6.cfg", ctx.path("paths_3x6.ndjson"), 597871))

    def do_gen(g):
        r = core.tlc_ok(core.tlc("GenC20", g[0], env={"OUT": g[1]}, timeout=900, heap="6g"), "GenC20 " + g[0])
        n = core.count_lines(g[1])
        if n != g[2] or r.outs != [str(g[2])]:
            raise core.ModelFailure("generator %s wrote %d paths, expected %d" % (g[0], n, g[2]))
        return r

    def do_mc(m):
        return core.tlc_ok(core.tlc(m[0], m[1], workers=m[2], timeout=1500, heap="4g"), "design-level " + m[0])

    import concurrent.futures as cf
    pool = cf.ThreadPoolExecutor(4)
    fmc = [pool.submit(do_mc, m) for m in mc] if q else []
    for r in core.run_parallel(do_gen, gens):
        ctx.add_tlc(r)
    ctx.extra["paths_enumerated_by_tlc"] = {g[0][:-4]: g[2] for g in gens}
    # ---- harness: replay the enumerated scope, random / degenerate families, ellipses
    J = []; i = 0
    def add(sub, **a):
        nonlocal i
        J.append(_job(ctx, i, sub, a)); i += 1
    nsh = 16
    for g in gens[:2]:
        for k in range(nsh):
            add("c20", fam="in", **{"in": g[1]}, skip=k, stride=nsh, emb="0", eps=EPS, mds=MDS, seed=s)
    for k in range(8 if q else 32):
        add("c20", fam="rand", n=1500 if q else 6000, maxlen=12, emb="0,1,3,4", seed=s * 1000 + k)
    add("c20", fam="degen", emb="0,1,3,4", seed=s)
    add("c20ell", maxr2=24)
    for k in range(8 if q else 32):     # near-collinear paths with large coordinates (exact cross products 0, +-1, +-2, ..), judged with big integers
        add("c20big", n=1500 if q else 5000, seed=s * 1000 + 500 + k)
    if not q:
        for k in range(nsh):      # the 3x3 scope again under translation 2^29, scale 2^13 (+2^52) and scale 2^21 (+2^61)
            add("c20", fam="in", **{"in": gens[0][1]}, skip=k, stride=nsh, emb="1,3,4", eps=EPS, mds=MDS, seed=s, lite=1)
        for k in range(64):       # all paths with 6 vertices (and fewer) on the 3x3 grid
            add("c20", fam="in", **{"in": gens[2][1]}, skip=k, stride=64, emb="0", eps=EPS, mds=MDS, seed=s, lite=1)
    jobs = _run_jobs(exe, J)
    crashed = [j for j in jobs if "crash" in j]
    for j in crashed:
        ctx.fails.append(_crash_rec(j))
    jobs = [j for j in jobs if "crash" not in j]
    ctx.extra["harness_jobs_ended_by_a_crash_in_a_library_call"] = len(crashed)
    tot = {}
    for j in jobs:
        for k, v in j["stats"].items():
            tot[k] = tot.get(k, 0) + v
    ctx.evaluations = tot.get("calls", 0)
    ctx.extra["variant_calls_identical_to_primary"] = tot.get("variants_same", 0)
    ctx.extra["variant_calls_differing_judged_separately"] = tot.get("variants_diff", 0)
    ctx.extra["paths_replayed"] = tot.get("paths", 0)
    nts = [j["out"] + ".nt" for j in jobs if j["sub"] == "c20"]
    p = core.sh([exe, "c20nt", "--files", ",".join(nts)], timeout=600, check=True)
    ctx.nontrivial = json.loads(p.stdout.decode())["distinct"]
    for j in jobs[:1] + jobs[2 * nsh:2 * nsh + 1]:
        with open(j["out"]) as fh:
            for n, line in enumerate(fh):
                if n == 40:
                    ev = json.loads(line); ev["calls"] = ev["calls"][:6] + ["... %d more" % max(0, len(ev["calls"]) - 6)]
                    ctx.sample(ev)
    for j in jobs:
        if j["sub"] == "c20big":
            with open(j["out"]) as fh:
                ev = json.loads(fh.readline())
            ctx.sample({"e": "Big", "closed": ev["c"], "p": [[_unwire(q[0]), _unwire(q[1])] for q in ev["p"]],
                        "out": [[_unwire(q[0]), _unwire(q[1])] for q in ev["out"]], "wire_p": ev["p"]})
            break
    # ---- TLC decides
    files = [j["out"] for j in jobs if j["sub"] != "c20big"]
    bigfiles = [j["out"] for j in jobs if j["sub"] == "c20big"]
    res = core.validate_traces("C20Trace", "C20Trace.cfg", files, timeout=2400, heap="2g")
    bigres = core.validate_traces("C20BigTrace", "C20BigTrace.cfg", bigfiles, timeout=2400, heap="2g")
    ctx.traces = sum(core.count_lines(f) for f in files + bigfiles)
    _collect(ctx, res, {j["out"]: j for j in jobs})
    _collect(ctx, bigres, {j["out"]: j for j in jobs})
    big3 = [0, 0, 0]
    for _, r in bigres:
        for n in r.notes:
            if n["kind"] == "STATS":
                big3 = [a + int(b) for a, b in zip(big3, n["detail"].strip("<>").split(","))]
    ctx.extra["judged_by_tlc_big_integers"] = {"trimcollinear_calls_large_near_collinear": big3[0], "of_which_clean_input": big3[1],
                                               "of_which_with_a_corner_of_exact_cross_product_1_to_64": big3[2]}
    if big3[2] == 0 and not [j for j in crashed if j["sub"] == "c20big"]:
        raise core.ModelFailure("vacuity guard: no near-collinear large path with a tiny non-zero cross product was judged")
    tot5 = [0, 0, 0, 0, 0]
    for _, r in res:
        for n in r.notes:
            if n["kind"] == "STATS":
                tot5 = [a + int(b) for a, b in zip(tot5, n["detail"].strip("<>").split(","))]
    ctx.extra["judged_by_tlc"] = {"path_calls": tot5[0], "trimcollinear_calls_on_clean_input": tot5[1], "rdp_calls_that_removed_vertices": tot5[2],
                                  "simplifypath_calls_that_removed_vertices": tot5[3], "ellipse_calls": tot5[4]}
    if crashed:
        pass
    elif tot5[0] + tot5[4] + big3[0] != ctx.evaluations:
        raise core.ModelFailure("TLC judged %d calls but the harness recorded %d" % (tot5[0] + tot5[4] + big3[0], ctx.evaluations))
    if min(tot5) == 0 and not crashed:
        raise core.ModelFailure("vacuity guard: a call class was never exercised: %s" % tot5)
    # ---- design-level runs (thorough: after the trace validation so that they get the cores)
    if not q:
        fmc = [pool.submit(do_mc, m) for m in mc]
    dl = {}
    for m, f in zip(mc, fmc):
        r = f.result(); ctx.add_tlc(r); dl[m[0] + "/" + m[1]] = {"distinct": r.distinct, "generated": r.generated, "wall_s": round(r.wall, 1)}
    pool.shutdown()
    ctx.extra["design_level_runs"] = dl
    ctx.extra["failed_clauses_by_name"] = {}
    for rec in ctx.fails:
        ctx.extra["failed_clauses_by_name"][rec["clause"]] = ctx.extra["failed_clauses_by_name"].get(rec["clause"], 0) + 1
    ctx.trusted = ["TLC 1.8.0 + CommunityModules Json/IOUtils", "harness un-embedding (exact integer division) and the exact PathD -> integer conversion of variant results",
                   "floor/ceil of Length * s in double arithmetic (bracket is one unit of 1/s per edge wide)"]
    ctx.assumptions = ["epsilon and thresholds are dyadic rationals so that the library's double comparisons are exact on the explored coordinates (|c| <= 40 at lattice level)",
                       "Ellipse<double> and the PathD overloads on non-integer coordinates are not explored"]
    return core.finish(ctx, "model_checking", RULE, confirm=_replay_rec, exhaustive=True)


def replay(path, seed):
    rec = json.load(open(path))
    if _replay_rec(rec):
        print("VIOLATION property=%s replay=%s" % (PROP, path)); return 1
    print("replay: no violation reproduced"); return 0
