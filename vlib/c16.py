"""C16 - the floating-point API is the integer API on scaled coordinates (DESIGN.md 5/C16).

Pipeline: (1) C16ScaleMC.tla - exhaustive small-scope model check of the computed ScaleRound against its
declaration (nearest, ties away), of the scale table and of the big-integer arithmetic; (2) GenC16.tla - TLC
enumerates the pools of rounding-critical coordinates for both scale families x precisions -8..8; (3) the harness
(fam_c16.cpp) drives every PathsD entry point and its integer counterpart on pool-built and seeded random dyadic
inputs and records one Call event per pair; (4) C16Trace.tla decides every call."""
import json, os, shutil
from . import core

RULE = ("every PathsD entry point (ClipperD paths/PolyTreeD incl. open subjects, BooleanOp paths/PolyTreeD, Union, InflatePaths, RectClip, "
        "RectClipLines, MinkowskiSum/Diff, TrimCollinear) x precision -8..8 x all clip types / fill rules / join / end types, on (a) shapes "
        "whose vertices are drawn from the TLC-enumerated pools of rounding-critical coordinates (scaled value = q/4: integers, quarters, exact "
        "halves of both signs) and (b) seeded random dyadic inputs with scaled magnitudes 2^3..2^48 and 0..12 fractional bits; an evaluation "
        "is one judged pair (PathsD call, integer call on TLC-certified ScaleRound of the same input); non-trivial = non-empty integer result "
        "AND at least one input coordinate whose scaled value is not an integer (rounding took place), distinct by (op, precision, parameters, "
        "scaled input)")

MODULE, CFG = "C16Trace", "C16Trace.cfg"

def _wide(v):
    m = 0
    for i, limb in enumerate(v[1:]):
        m += limb * 10 ** (4 * i)
    return v[0] * m

def case_of(ev):
    """The replayable description of one Call event (plain integers)."""
    return {"op": ev["op"], "p": ev["p"], "ip": ev["ip"],
            "in": [[[[_wide(q[0]), q[1], _wide(q[2]), q[3]] for q in pa] for pa in g] for g in ev["in"]],
            "dp": {k: [_wide(v[0]), v[1]] for k, v in ev["dp"].items()}}

def _harness(exe, args, out):
    cmd = [exe, "c16"]
    for k, v in args.items():
        cmd += ["--" + k, str(v)]
    cmd += ["--out", out]
    p = core.sh(cmd, timeout=1200)
    if p.returncode != 0:
        raise core.ModelFailure("harness failed (%d): %s\n%s" % (p.returncode, " ".join(cmd), p.stderr.decode(errors="replace")[-2000:]))

def _judge(files, variant_of):
    """TLC on every trace; returns (tlc results, fails[list of rec], drops Counter, harness_fails)."""
    res = core.validate_traces(MODULE, CFG, files, timeout=1500)
    fails, drops, hfails = [], {}, []
    for f, r in res:
        for n in r.notes:
            if n["kind"] == "DROP":
                kind = n["detail"].split('"')[1] if '"' in n["detail"] else "other"
                drops[kind] = drops.get(kind, 0) + 1
        if not r.fails:
            continue
        lines = core.read_lines(f)
        for fl in r.fails:
            ev = json.loads(lines[fl["line"] - 1])
            rec = {"prop": fl["prop"], "clause": fl["clause"], "detail": fl["detail"], "case": case_of(ev), "variant": variant_of.get(f, "plain")}
            (hfails if fl["prop"] == "HARNESS" else fails).append(rec)
    return res, fails, drops, hfails

def replay_rec(rec):
    work = os.path.join(core.CACHE, "work", "c16replay_%d" % os.getpid()); os.makedirs(work, exist_ok=True)
    inf = os.path.join(work, "in.ndjson"); out = os.path.join(work, "out.ndjson")
    with open(inf, "w") as f:
        f.write(json.dumps(rec["case"]) + "\n")
    exe = core.build(rec.get("variant", "plain"), fams=("c16",))
    _harness(exe, {"fam": "cases", "in": inf}, out)
    _, fails, _, hfails = _judge([out], {out: rec.get("variant", "plain")})
    shutil.rmtree(work, ignore_errors=True)
    if hfails:
        raise core.ModelFailure("replay: harness-side failure " + json.dumps(hfails[0])[:500])
    return any(f["prop"] == rec["prop"] and f["clause"] == rec["clause"] for f in fails)

def run(ctx):
    q = ctx.quick; s = ctx.seed
    # (1) design-level model checking
    mc = core.tlc_ok(core.tlc("C16ScaleMC", "C16ScaleMC.cfg" if q else "C16ScaleMC_thorough.cfg", workers=core.NCPU, timeout=1500, heap="4g"), "C16ScaleMC")
    ctx.add_tlc(mc)
    ctx.extra["design_model"] = {"module": "C16ScaleMC", "distinct_states": mc.distinct, "wall_s": round(mc.wall, 1)}
    # (2) generator
    gen = ctx.path("pools.ndjson")
    g = core.tlc_ok(core.tlc("GenC16", "GenC16.cfg", env={"OUT": gen}, timeout=300), "GenC16"); ctx.add_tlc(g)
    ctx.extra["coordinate_pools_enumerated_by_tlc"] = core.count_lines(gen)
    if core.count_lines(gen) != 34:
        raise core.ModelFailure("GenC16 did not produce the 2 x 17 pools")
    # (3) harness
    variants = ["plain"] if q else ["plain", "hi"]
    exes = {v: core.build(v, fams=("c16",)) for v in variants}
    jobs = []
    ngen, nrand = (8, 8) if q else (16, 16)
    for k in range(ngen):
        jobs.append(("gen", variants[k % len(variants)], {"fam": "gen", "in": gen, "skip": k % 8, "stride": 8, "n": 14 if q else 70, "seed": s * 1000 + k}))
    for k in range(nrand):
        jobs.append(("rand", variants[k % len(variants)], {"fam": "rand", "n": 700 if q else 4000, "seed": s * 1000 + 100 + k}))
    files, variant_of = [], {}
    def one(j):
        i, (kind, variant, args) = j
        out = ctx.path("c16_%s_%02d.ndjson" % (kind, i))
        _harness(exes[variant], args, out)
        return out, variant
    for out, variant in core.run_parallel(one, list(enumerate(jobs))):
        files.append(out); variant_of[out] = variant
    # measured tallies
    ops, precs, ties, trees, calls = {}, {}, 0, 0, 0
    for f in files:
        for line in open(f):
            ev = json.loads(line); calls += 1
            ops[ev["op"]] = ops.get(ev["op"], 0) + 1; precs[ev["p"]] = precs.get(ev["p"], 0) + 1; ties += ev["ties"]
            if ev["par64"] and max(ev["par64"]) > 0:
                trees += 1
            if ev["nfrac"] > 0 and any(len(gp) for gp in ev["r64"]):
                ctx.nontrivial.add(hash(json.dumps([ev["op"], ev["p"], ev["ip"], ev["dp"], ev["fed"]])))
            if len(ctx.samples) < 3 and ev["nfrac"] > 0 and ev["ncoord"] <= 16 and any(len(gp) for gp in ev["r64"]):
                c = case_of(ev); c["fed"] = [[[[_wide(pt[0]), _wide(pt[1])] for pt in pa] for pa in gp] for gp in ev["fed"]]
                c["r64"] = [[[[_wide(pt[0]), _wide(pt[1])] for pt in pa] for pa in gp] for gp in ev["r64"]]
                ctx.sample(c)
    ctx.traces = calls
    # (4) TLC decides
    res, fails, drops, hfails = _judge(files, variant_of)
    for _, r in res:
        ctx.add_tlc(r)
    if hfails:
        raise core.ModelFailure("harness-side scaling rejected by the specification: " + json.dumps(hfails[0])[:800])
    ndrop = sum(drops.values())
    ctx.evaluations = calls - ndrop
    ctx.extra.update({"calls_recorded": calls, "calls_dropped_not_judged": drops, "calls_per_op": ops, "calls_per_precision": {str(k): precs[k] for k in sorted(precs)},
                      "exact_tie_coordinates_recorded": ties, "polytrees_with_nesting": trees, "builds": variants})
    if len(precs) != 17 or len(ops) != 11:
        raise core.ModelFailure("vacuity guard: not every precision / entry point was exercised")
    if ctx.evaluations < calls // 2:
        raise core.ModelFailure("vacuity guard: more than half of the calls were dropped")
    ctx.fails = fails
    ctx.trusted += ["harness exact __int128 recovery of the integers behind returned doubles", "native last-bit (ulp) comparison of returned doubles",
                    "native comparison of integer-API runs for the robustness relation of inexactly scaled parameters"]
    ctx.assumptions += ["inputs are dyadic rationals with |n| < 2^53 and scaled magnitude <= 2^52; calls with a coordinate in the 2^-50 ambiguity band around a rounding tie "
                        "under inexact double arithmetic are not judged", "the integer overloads are taken as given (their own correctness is C01-C09, C19, C20)"]
    return core.finish(ctx, "model_checking", RULE, confirm=replay_rec)

def replay(path, seed):
    rec = json.load(open(path))
    if replay_rec(rec):
        print("VIOLATION property=C16 replay=%s" % path); return 1
    print("replay: no violation reproduced"); return 0
