"""C13 - results are independent of representation and obey set algebra (DESIGN.md 5/C13)."""
import json, os
from . import core

RULE = ("base inputs: TLC-certified general-position polygon sets (coordinates < 32); for each base every generator of the transformation group "
        "alone (permute paths, rotate start vertex, duplicate vertex, closing vertex, swap subject/clip, reverse all, translate, transpose, mirror, "
        "integer scale) plus random compositions of length 2-4; all 4 clip types x 4 fill rules x PreserveCollinear x ReverseSolution per copy, "
        "builds plain and HI_PRECISION; TLC recomputes each transformed input from the base with ReprTrace!ApplyG (binding) and compares the two "
        "solutions (exact bags of canonical rings, or cover at mapped clear points for geometric maps) and the algebra identities; evaluations = "
        "Execute calls; non-trivial = distinct (base, generator list) whose base solution set contains a non-empty result")

def run(ctx):
    q = ctx.quick; s = ctx.seed
    fl = core.tlc_ok(core.tlc("FillLemmas", "FillLemmas.cfg", timeout=120), "FillLemmas"); ctx.add_tlc(fl)
    # optional strengthening, never part of the verdict: the same lemmas for ALL integer windings, proved by TLAPS (SMT back end)
    try:
        pr = core.sh(["tlapm", "--toolbox", "0", "0", "FillProofs.tla"], timeout=240, cwd=core.SPEC)
        out = (pr.stdout + pr.stderr).decode(errors="replace")
        import re
        m = re.search(r"All (\d+) obligations? proved", out)
        ctx.extra["tlaps_fill_algebra_all_integers"] = {"obligations_proved": int(m.group(1))} if m else {"not_proved": out[-300:]}
    except Exception as e:
        ctx.extra["tlaps_fill_algebra_all_integers"] = {"unavailable": str(e)[:200]}
    # Layer 2: AddPaths_ vertex flagging - design-level model (scan = declarative definition, alternation; cyclic => start-vertex independent)
    lm = core.tlc_ok(core.tlc("LocalMinima", "LocalMinima.cfg", workers=8, timeout=600), "LocalMinima"); ctx.add_tlc(lm)
    # ... bound to the code by hook H3 (vertex flags of every processed path); divergences are engine-level: recorded, they direct the search
    vexe = core.build("plain", ("vatti",)); vf = ctx.path("verts.ndjson")
    pv = core.sh([vexe, "verts", "--seed", str(s), "--n", "1500" if q else "12000", "--out", vf], timeout=600)
    if pv.returncode != 0:
        raise core.ModelFailure("harness verts failed: " + pv.stderr.decode(errors="replace")[-500:])
    for f, r in core.validate_traces("LocalMinimaTrace", "LocalMinimaTrace.cfg", [vf]):
        ctx.add_tlc(r)
        ctx.extra["vertex_flag_lists_validated"] = core.count_lines(f)
        ctx.extra["engine_divergences_local_minima"] = sorted({fl["clause"] for fl in r.fails})
    jobs = []
    for k in range(12 if q else 32):
        jobs.append({"variant": "plain" if k % 2 == 0 else "hi", "args": {"seed": s * 1000 + k, "n": 6 if q else 40, "R": 32, "ncomp": 6 if q else 14, "npts": 100}, "out": ctx.path("repr_%02d.ndjson" % k)})
    run_jobs(jobs)
    res = core.validate_traces("ReprTrace", "ReprTrace.cfg", [j["out"] for j in jobs], timeout=2400)
    byf = {j["out"]: j for j in jobs}
    for f, r in res:
        ctx.add_tlc(r)
        lines = core.read_lines(f); base = None
        for ln in lines:
            if ln.startswith('{"e":"Execs"'):
                ctx.evaluations += ln.count("],[") + 1
            elif ln.startswith('{"e":"Case"'):
                ev = json.loads(ln)
                if "nogp" not in ev:
                    base = ev
            elif ln.startswith('{"e":"Rel"'):
                ctx.traces += 1
                ctx.nontrivial.add(hash((json.dumps(base["subj"]), ln)))
                if len(ctx.samples) < 3:
                    ctx.sample({"base_subj": base["subj"], "base_clip": base["clip"], "generators": json.loads(ln)["gs"], "variant": byf[f]["variant"]})
        for fl_ in r.fails:
            ev = json.loads(lines[fl_["line"] - 1])
            prop = ctx.prop if fl_["prop"] == "ANY" else fl_["prop"]
            rec = {"prop": prop, "clause": fl_["clause"], "detail": fl_["detail"], "case": {"gs": ev.get("gs"), "line": fl_["line"], "crash": ev.get("case")}, "event": ev,
                   "harness": {"variant": byf[f]["variant"], "args": byf[f]["args"]}}
            (ctx.fails if prop == ctx.prop else ctx.other).append(rec)
    return core.finish(ctx, "model_checking", RULE, confirm=confirm)

def run_jobs(jobs):
    exes = {v: core.build(v, ("repr",)) for v in sorted({j["variant"] for j in jobs})}
    def one(j):
        cmd = [exes[j["variant"]], "repr"]
        for k, v in j["args"].items():
            cmd += ["--" + k, str(v)]
        cmd += ["--out", j["out"]]
        p = core.sh(cmd, timeout=1200)
        if p.returncode != 0:
            raise core.ModelFailure("harness repr failed: " + p.stderr.decode(errors="replace")[-1500:])
    core.run_parallel(one, jobs)

def replay_rec(rec):
    work = os.path.join(core.CACHE, "work", "replay13_%d" % os.getpid()); os.makedirs(work, exist_ok=True)
    j = {"variant": rec["harness"]["variant"], "args": rec["harness"]["args"], "out": os.path.join(work, "out.ndjson")}
    run_jobs([j])
    res = core.validate_traces("ReprTrace", "ReprTrace.cfg", [j["out"]])
    return any(fl["prop"] in ("C13", "ANY") and fl["clause"] == rec["clause"] and fl["line"] == rec["case"]["line"] for _, r in res for fl in r.fails)

def confirm(rec):
    return replay_rec(rec)

def replay(path, seed):
    rec = json.load(open(path))
    if replay_rec(rec):
        print("VIOLATION property=C13 replay=%s" % path); return 1
    print("replay: no violation reproduced"); return 0
