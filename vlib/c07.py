"""C07 - open-path offsetting produces the stroke of the requested width and caps (DESIGN.md 5/C07)."""
from . import offfam
RULE = ("1-3 far-apart open polylines per call (1-5 vertices each incl. single points and 2-point paths, self-crossing allowed, TLC-certified turning "
        "angles), delta +-{1, 3, 7, 15, 25}, 4 join types x end types Joined/Butt/Square/Round, miter limits, arc tolerances; TLC classifies sample "
        "points (lateral strips, vertex discs per join type, round/square caps, butt end planes, joined = closed both sides, upper bound |delta| x "
        "max(join, cap factor)) and compares with the measured winding; +delta and -delta must return identical paths; evaluations = calls judged")
def run(ctx):
    return offfam.run(ctx, "open", RULE)
def replay(path, seed):
    return offfam.replay(path, "C07")
