"""C08 - RectClip equals intersection with the rectangle, path by path (DESIGN.md 5/C08).
Also hosts the helpers shared with C09 (vlib/c09.py): both properties use harness family fam_c08.cpp."""
import json, os
from . import core

FAMS = ("c08",)
NEMB = 6      # embeddings in harness/fam_c08.cpp rc_embs(): 0,1,2,3 exact (scale 1,1,3,7; translations up to 2^40), 4,5 coarse (2^13, 2^35)
NRECT = 4     # rectangles rc_rects(): 0 = [1,3]^2 x step (F-RC), 1 narrow aligned, 2 off-lattice, 3 lattice hull

RULE = ("family F-RC: closed paths on the 5x5 lattice (step 8 units) against rectangle [8,24]^2 (vertices on sides/corners), plus a narrow aligned, an "
        "off-lattice and the hull rectangle; ALL 15 625 three-vertex paths are enumerated by TLC (GenRC.tla) and replayed; four-vertex paths sampled "
        "(quick) or all 390 625 enumerated by index (thorough); 5-9-vertex random paths and ring walks that enclose the rectangle or wind round it "
        "several times; random paths with arbitrary integer vertices (off the lattice); simple 6-14-vertex bands wrapped round 2-4 sides outside the "
        "rectangle (running along the sides, touching corners, returning further out); embeddings: identity, translation to |coordinate| = 2^40, scale 3 and 7 with translation (exact: TLC sees real - t and recomputes "
        "every measurement from the raw result), scale 2^13 and 2^35 (coarse: TLC judges harness measurements taken on the real coordinates); every path "
        "is clipped alone and in batches of 3; per call TLC decides simple / edge-along-side / inside / outside and evaluates the winding clause at up to "
        "100 interior sample points clear of the path, vertex clauses, orientation, unchanged/vanish clauses; non-trivial = the library returned a "
        "non-empty result different from the input path, distinct by (embedding, rectangle, path)")

def job(ctx, idx, sub, args, variant="plain"):
    return {"idx": idx, "sub": sub, "variant": variant, "args": dict(args), "out": ctx.path("%s_%03d.ndjson" % (sub, idx))}

def run_jobs(jobs):
    exes = {v: core.build(v, FAMS) for v in sorted({j["variant"] for j in jobs})}
    def one(j):
        cmd = [exes[j["variant"]], j["sub"]]
        for k, v in j["args"].items():
            cmd += ["--" + k, str(v)]
        cmd += ["--out", j["out"]]
        p = core.sh(cmd, timeout=400)
        if p.returncode != 0:
            raise core.ModelFailure("harness failed (%d): %s\n%s" % (p.returncode, " ".join(cmd), p.stderr.decode(errors="replace")[-2000:]))
        return j
    return core.run_parallel(one, jobs)

def tally(ctx, jobs, pathkey):
    """Measured counts from the traces: library calls judged, distinct non-trivial cases."""
    for j in jobs:
        fam = None
        for line in open(j["out"]):
            ev = json.loads(line); e = ev["e"]
            if e == "Fam":
                fam = ev; ctx.traces += 1
            elif e == "Case":
                ctx.evaluations += 1
                nontriv = ev["n"] > 0 and ev.get("same", 0) == 0
                if nontriv:
                    ctx.nontrivial.add(hash((fam["emb"], fam["rid"], json.dumps(ev[pathkey]))))
                    if len(ctx.samples) < 3 and ev["id"] % 97 == 5:
                        s = {"emb": fam["emb"], "rect": fam["rect"], pathkey: ev[pathkey], "n_result_paths": ev["n"]}
                        if "raw" in ev: s["result"] = ev["raw"]
                        if "Q" in ev: s["result"] = ev["Q"]
                        ctx.sample(s)
            elif e == "Batch":
                ctx.evaluations += 1

def slice_for(lines, lno):
    """Fam line + the events needed to replay the failing line lno (1-based): the Case itself, or the k Cases of a Batch."""
    fam = json.loads(lines[0]); ev = json.loads(lines[lno - 1])
    if ev["e"] == "Batch" and "idx" in ev:      # C09: the whole group since the last reset, filler paths left out (the harness regenerates them)
        cases = []; i = lno - 2
        while i >= 1:
            x = json.loads(lines[i])
            if x["e"] == "Fam" or (x["e"] == "Batch" and x.get("last") == 1):
                break
            if x["e"] == "Case" and not x.get("fill"):
                cases.insert(0, x)
            i -= 1
    elif ev["e"] == "Batch":
        cases = [json.loads(x) for x in lines[lno - 1 - ev["k"]:lno - 1]]
    else:
        cases = [ev]
    return fam, cases, ev

def validate(ctx, jobs, module, cfg, pathkey, stat_names):
    files = [j["out"] for j in jobs]
    res = core.validate_traces(module, cfg, files, timeout=3000)
    byfile = {j["out"]: j for j in jobs}
    stats = [0] * len(stat_names)
    for f, r in res:
        ctx.add_tlc(r)
        j = byfile[f]
        for n in r.notes:
            if n["kind"] == "STATS":
                vals = [int(x) for x in n["detail"].strip("<>").split(",")]
                stats = [a + b for a, b in zip(stats, vals)]
            elif n["kind"] == "EQCAT0":
                ctx.extra["batches_differing_from_concatenation"] = ctx.extra.get("batches_differing_from_concatenation", 0) + 1
            elif n["kind"] == "DROP":
                ctx.extra["cases_dropped"] = ctx.extra.get("cases_dropped", 0) + 1
        if not r.fails:
            continue
        lines = core.read_lines(f)
        for fl in r.fails:
            if fl["prop"] == "HARNESS":
                raise core.ModelFailure("harness measurement disagrees with TLC's own (%s) at %s:%d\n%s" % (fl["clause"], f, fl["line"], lines[fl["line"] - 1][:1500]))
            fam, cases, ev = slice_for(lines, fl["line"])
            rec = {"prop": fl["prop"], "clause": fl["clause"], "detail": fl["detail"],
                   "case": {"emb": fam["emb"], "rid": fam["rid"], "m": fam["m"], "paths": [c[pathkey] for c in cases]},
                   "event": ev, "harness": {"variant": j["variant"], "sub": j["sub"]}, "module": module, "cfg": cfg}
            (ctx.fails if fl["prop"] == ctx.prop else ctx.other).append(rec)
    ctx.extra["census"] = dict(zip(stat_names, stats))
    return res, stats

def replay_rec(rec, prop):
    """Re-run the recorded path(s) alone through harness + TLC; True if the same clause fails again."""
    work = os.path.join(core.CACHE, "work", "replay_%s_%d" % (prop, os.getpid())); os.makedirs(work, exist_ok=True)
    inf = os.path.join(work, "in.ndjson"); out = os.path.join(work, "out.ndjson")
    m = rec["case"]["m"]; paths = rec["case"]["paths"]
    with open(inf, "w") as f:
        for p in paths:
            f.write(json.dumps({"P": [[x // m, y // m] for x, y in p]}) + "\n")
    exe = core.build(rec["harness"]["variant"], FAMS)
    batch = len(paths) if rec["event"]["e"] == "Batch" else 0
    cmd = [exe, rec["harness"]["sub"], "--fam", "in", "--in", inf, "--emb", str(rec["case"]["emb"]), "--rect", str(rec["case"]["rid"]), "--batch", str(batch), "--out", out]
    p = core.sh(cmd, timeout=600)
    if p.returncode != 0:
        raise core.ModelFailure("replay harness failed: " + p.stderr.decode(errors="replace")[-1000:])
    res = core.validate_traces(rec["module"], rec["cfg"], [out])
    return any(fl["prop"] == prop and fl["clause"] == rec["clause"] for _, r in res for fl in r.fails)

def replay_file(path, prop):
    rec = json.load(open(path))
    if replay_rec(rec, prop):
        print("VIOLATION property=%s replay=%s" % (prop, path)); return 1
    print("replay: no violation reproduced"); return 0

def generate(ctx, cfg, name):
    out = ctx.path(name)
    g = core.tlc_ok(core.tlc("GenRC", cfg, env={"OUT": out}, timeout=600), "GenRC/" + cfg); ctx.add_tlc(g)
    return out, core.count_lines(out)

def plan(ctx, sub, gen, nshort):
    """Job list shared by C08 (sub rc, closed paths) and C09 (sub rcl, polylines).  gen: TLC-enumerated short paths."""
    q = ctx.quick; s = ctx.seed; J = []
    def add(**a):
        # sampled families alternate between the default build and CLIPPER2_HI_PRECISION (other intersection-point code); the enumerated ones use the default
        variant = "hi" if a["fam"] in ("samp", "rand", "orbit", "free", "band") and len(J) % 2 == 1 else "plain"
        J.append(job(ctx, len(J), sub, a, variant))
    # (1) TLC-enumerated short paths, complete, on F-RC's rectangle at the identity embedding (sub-unit rounding visible)
    nsh = 16
    for k in range(nsh):
        add(fam="in", **{"in": gen}, skip=k, stride=nsh, emb=0, rect=0, batch=3, seed=s)
    # (2) the same enumeration on the other rectangles / embeddings: complete in thorough, every 8th path (rotating offset) in quick
    combos = [(0, r) for r in range(1, NRECT)] + [(e, 0) for e in range(1, NEMB)]
    for ci, (e, r) in enumerate(combos):
        if q:
            add(fam="in", **{"in": gen}, skip=(s + ci) % 8, stride=8, emb=e, rect=r, batch=3, seed=s)
        else:
            for k in range(4):
                add(fam="in", **{"in": gen}, skip=k, stride=4, emb=e, rect=r, batch=3, seed=s)
    # (3) four-vertex paths: all 390 625 by index (thorough, F-RC rectangle, identity) / uniform samples elsewhere
    if not q:
        for k in range(48):
            add(fam="all", nv=4, skip=k, stride=48, emb=0, rect=0, batch=3, seed=s)
    allc = [(e, r) for e in range(NEMB) for r in range(NRECT)]
    for k in range(16 if q else 48):
        e, r = allc[(k * 7 + s) % len(allc)]
        add(fam="samp", nv=4, n=500 if q else 1500, emb=e, rect=r, batch=3, seed=s * 1000 + k)
    # (4) 5-7-vertex random paths and 5-9-vertex ring walks (enclosing / winding round the rectangle several times)
    for k in range(8 if q else 32):
        e, r = allc[(k * 5 + 3 * s) % len(allc)]
        add(fam="rand", n=250 if q else 1000, nvlo=5, nvhi=7, emb=e, rect=r, batch=3, seed=s * 1000 + 100 + k)
    for k in range(8 if q else 32):
        e, r = allc[(k * 11 + 1 + s) % len(allc)]
        add(fam="orbit", n=250 if q else 1000, nvlo=5, nvhi=9, emb=e, rect=r if r != 3 else 0, batch=3, seed=s * 1000 + 200 + k)
    # (5) arbitrary integer vertices (off the lattice; clustered near the sides now and then): every crossing point is rounded
    for k in range(8 if q else 32):
        e, r = allc[(k * 13 + 2 + s) % len(allc)]
        add(fam="free", n=300 if q else 1200, nvlo=3 if sub == "rc" else 2, nvhi=7, emb=e, rect=r, batch=3, seed=s * 1000 + 300 + k)
    # (6) C08 only: simple polygons with 6-14 vertices wrapped round 2-4 sides of the rectangle OUTSIDE it (bands running along / one to three
    #     units off the sides and returning further out, jogs, bulges that only touch the corners) - the class where known finding C08-S1 lives
    if sub == "rc":
        for k in range(8 if q else 32):
            e, r = allc[(k * 17 + 5 + s) % len(allc)]
            add(fam="band", n=300 if q else 1500, emb=e, rect=r, batch=3, seed=s * 1000 + 400 + k)
    return J

def fsm(ctx):
    """Design level: model-check the Location automaton (RectClipFSM.tla) exhaustively in small scope against Geom!Wind, then replay
    every behaviour it enumerated into the library and validate the recorded results against the model's rings (RectClipFSMTrace)."""
    runs = [("RectClipFSM_3_emit.cfg", "12,12,36,36")]
    if not ctx.quick:
        runs.append(("RectClipFSM_3n_emit.cfg", "12,12,24,36"))
    jobs = []; info = []
    for cfg, rect4 in runs:
        r = core.tlc_ok(core.tlc("RectClipFSM", cfg, workers=min(8, core.NCPU), timeout=1800), "RectClipFSM/" + cfg); ctx.add_tlc(r)
        beh = [json.loads(json.loads(x)[7:]) for x in r.out.splitlines() if x.startswith('"FSMOUT ')]
        if not beh:
            raise core.ModelFailure("RectClipFSM emitted no behaviours (%s)" % cfg)
        f = ctx.path("fsm_%s.ndjson" % cfg.split(".")[0])
        with open(f, "w") as fh:
            for b in beh:
                fh.write(json.dumps(b) + "\n")
        info.append({"cfg": cfg, "distinct_states": r.distinct, "behaviours": len(beh), "wall_s": round(r.wall, 1)})
        for k in range(8):
            jobs.append(job(ctx, 900 + len(jobs), "rcfsm", {"in": f, "rect4": rect4, "skip": k, "stride": 8}))
    if not ctx.quick:   # all 390 625 four-vertex paths through the automaton (model checking only)
        r = core.tlc_ok(core.tlc("RectClipFSM", "RectClipFSM_4.cfg", workers=core.NCPU, timeout=6000, heap="6g"), "RectClipFSM_4"); ctx.add_tlc(r)
        info.append({"cfg": "RectClipFSM_4.cfg", "distinct_states": r.distinct, "wall_s": round(r.wall, 1)})
    jobs = run_jobs(jobs)
    res = core.validate_traces("RectClipFSMTrace", "RectClipFSMTrace.cfg", [j["out"] for j in jobs], timeout=3000)
    div = []; nb = 0
    for f, r in res:
        ctx.add_tlc(r); nb += r.depth - 2
        lines = core.read_lines(f)
        for fl in r.fails:
            div.append({"clause": fl["clause"], "behaviour": json.loads(lines[fl["line"] - 1])})
    ctx.extra["design_model"] = {"runs": info, "behaviours_replayed_into_library": nb, "divergences": len(div), "divergence_examples": div[:3]}
    if div:
        core.log("[C08] %d divergence(s) between RectClipFSM and the library (recorded in the evidence; not a verdict, see DESIGN.md 3.6)" % len(div))
    return nb

STAT_NAMES = ["cases", "simple", "edge_along_side", "all_inside", "entirely_outside", "judged_sample_points", "batches", "class_C08_S1_corners_on_path"]

def run(ctx):
    nbeh = fsm(ctx)
    gen, n3 = generate(ctx, "GenRC_closed.cfg", "gen_closed.ndjson")
    ctx.extra["three_vertex_paths_enumerated_by_tlc"] = n3
    jobs = run_jobs(plan(ctx, "rc", gen, n3))
    tally(ctx, jobs, "P")
    ctx.traces += nbeh          # model behaviours replayed into the library and validated
    res, stats = validate(ctx, jobs, "RectClipTrace", "RectClipTrace.cfg", "P", STAT_NAMES)
    st = dict(zip(STAT_NAMES, stats))
    # vacuity guards (model failure, not a verdict): every class of the statement must have been exercised
    if st["cases"] != ctx.evaluations - st["batches"] or min(st["simple"], st["edge_along_side"], st["all_inside"], st["entirely_outside"], st["judged_sample_points"]) == 0:
        raise core.ModelFailure("vacuity guard: census %r vs %d calls" % (st, ctx.evaluations))
    ctx.trusted.append("affine embedding invariance (harness maps rectangle, paths and sample points with the same exact integer map)")
    ctx.trusted.append("coarse embeddings (scale >= 2^13): per-vertex distances and windings are harness measurements, cross-checked by TLC only on the exact embeddings")
    ctx.assumptions.append("builds: default and CLIPPER2_HI_PRECISION (sampled families alternate); USINGZ off")
    return core.finish(ctx, "model_checking", RULE, confirm=lambda rec: replay_rec(rec, "C08"), exhaustive=not ctx.quick)

def replay(path, seed):
    return replay_file(path, "C08")
