"""C03 - closed solution paths are well formed (DESIGN.md 5/C03)."""
from . import core, boolfam

RULE = ("structural clauses (>=3 vertices, no equal neighbours, inside the input bounding box) on every Execute of arbitrary/degenerate inputs "
        "(family degen: empty, 1-2 point, duplicate, spike, coincident paths) under embeddings up to 2^61; geometric clauses (zero area, spike, "
        "proper crossing, orientation = nesting parity, collinear triples with PreserveCollinear off, vertex within 2 units of an input edge, "
        "re-Union idempotence) evaluated by TLC on the raw solution paths of TLC-certified general-position inputs and rectilinear inputs "
        "(all 4x4 rectangle pairs sampled 1/8 + random walks); non-trivial = non-empty solution, distinct by (input, embedding, solution)")

def run(ctx):
    q = ctx.quick; s = ctx.seed; J = []; i = 0
    def add(variant, **a):
        nonlocal i
        J.append(boolfam.harness_job(ctx, i, variant, a)); i += 1
    gen = ctx.path("rectpairs.ndjson")
    g = core.tlc_ok(core.tlc("GenRect", "GenRect.cfg", env={"OUT": gen}, timeout=300), "GenRect"); ctx.add_tlc(g)
    for k in range(8 if q else 32):
        add("plain" if k % 2 == 0 else "hi", fam="gps", n=25 if q else 120, emb="0", npts=60, cfg="batch", reunion=1, seed=s * 1000 + k,
            R=[32, 48, 64][k % 3], maxpaths=2 if k % 4 else 3, maxv=[5, 6, 7][k % 3])
    for k in range(4 if q else 16):
        add("plain", fam="in", **{"in": gen}, n=0, skip=k + (s % 7), stride=(64 if q else 16), emb="0", cfg="batch", reunion=1, seed=s)
    for k in range(2 if q else 8):
        add("plain", fam="walk", n=150 if q else 900, grid=6, emb="0", cfg="batch", reunion=1, seed=s * 100 + k)
    for k in range(2 if q else 8):
        add("plain" if k % 2 else "hi", fam="degen", n=300 if q else 1500, emb="0,1,3,4", npts=30, cfg="batch", reunion=0, seed=s * 100 + 50 + k)
    add("plain", fam="ladder", emb="0", npts=40, cfg="batch", reunion=1, seed=s)
    for k in range(6 if q else 24):    # larger and negative coordinates (R = 128, lattice shifted by -64 / -128): thin crossings, truncation of negative values
        add("plain" if k % 2 == 0 else "hi", fam="gps", n=25 if q else 120, emb="0", npts=40, cfg="batch", reunion=1, seed=s * 1000 + 300 + k, R=128, off=[-64, -128, -100][k % 3], maxpaths=2, maxv=[4, 5, 6][k % 3])
    for k in range(8 if q else 32):    # coordinates ~1000 incl. negative ones (general position certified natively, see BoolTrace): rounding of thin crossings
        add("plain" if k % 2 == 0 else "hi", fam="gps", n=500 if q else 2000, emb="0", npts=24, cfg="batchlite", reunion=0, seed=s * 1000 + 600 + k, R=1000, off=-500, gpcert=1, maxpaths=1, maxv=[3, 4, 4][k % 3])
    for k in range(4 if q else 16):    # many rectangles with coincident horizontals (horizontal joins)
        add("plain", fam="rects", n=1200 if q else 6000, grid=[3, 4, 5][k % 3], emb="0", cfg="batchlite", reunion=1, seed=s * 100 + 70 + k)
    jobs = boolfam.run_jobs(ctx, J)
    boolfam.tally(ctx, jobs)
    boolfam.validate(ctx, jobs)
    sweep_intersections(ctx, i)
    return core.finish(ctx, "model_checking", RULE, confirm=boolfam.confirm("C03"))

def sweep_intersections(ctx, i0):
    """Layer 2 as a search director (DESIGN.md 3.6): a wide native sweep of natively general-position inputs with coordinates around +-500
    records every intersection the sweep processes (hook H2); VattiTrace!TIsBig states what must hold for ANY input (the point lies in the
    scanbeam being processed).  A failure is an engine-level divergence, never a verdict: the inputs concerned are ESCALATED to the
    observable clauses above."""
    import json
    q = ctx.quick; exe = core.build("plain", ("vatti",))
    sj = [{"seed": ctx.seed * 1000 + 400 + k, "n": 15000 if q else 150000, "R": 1000, "off": -500, "maxv": 3 + k % 2, "out": ctx.path("isects_%02d.ndjson" % k)} for k in range(8 if q else 16)]
    def one(j):
        cmd = [exe, "isects"]
        for k, v in j.items():
            cmd += ["--" + k, str(v)]
        p = core.sh(cmd, timeout=3000)
        if p.returncode != 0:
            raise core.ModelFailure("harness isects failed: " + p.stderr.decode(errors="replace")[-1000:])
    core.run_parallel(one, sj)
    res = core.validate_traces("VattiTrace", "VattiTrace.cfg", [j["out"] for j in sj], timeout=1500)
    nis = 0; div = []; cases = []
    for f, r in res:
        ctx.add_tlc(r); lines = core.read_lines(f)
        nis += sum(ln.count("],[") + 1 for ln in lines if ln.startswith('{"e":"IsBig"'))
        for fl in r.fails:
            if fl["prop"] == "ANY":
                core.fail_rec(ctx, lines, fl, {"harness": {"variant": "plain", "args": {"cfg": "batch", "npts": 24, "gpcert": 1, "reunion": 0, "seed": ctx.seed}}})
                continue
            c = json.loads(lines[fl["line"] - 1]); div.append({"clause": fl["clause"], "detail": fl["detail"], "subj": c["subj"], "clip": c["clip"]})
            cases.append(json.dumps({"subj": c["subj"], "clip": c["clip"]}))
    ctx.extra["sweep_intersections_validated"] = nis
    ctx.extra["engine_divergences_intersections"] = {"count": len(div), "clauses": sorted({d["clause"] for d in div}), "sample": div[:2]}
    if cases:
        core.log("[C03] %d engine-level divergence(s) (%s): escalating to the observable clauses on those inputs" % (len(div), ", ".join(sorted({d["clause"] for d in div}))))
        inf = ctx.path("escalate_isects.ndjson")
        with open(inf, "w") as fh:
            fh.write("\n".join(sorted(set(cases))[:1500]) + "\n")
        ej = [boolfam.harness_job(ctx, i0 + 100 + k, "plain", {"fam": "in", "in": inf, "n": 0, "skip": k, "stride": 4, "emb": "0", "cfg": "batch", "npts": 24, "gpcert": 1, "reunion": 0, "seed": ctx.seed}) for k in range(4)]
        ej = boolfam.run_jobs(ctx, ej); boolfam.tally(ctx, ej); boolfam.validate(ctx, ej)

def replay(path, seed):
    return boolfam.replay_file(path, "C03")
