"""C11 - execution always succeeds on valid input; invalid arguments are reported (DESIGN.md 5/C11).

  1. TLC model-checks the decision table C11ErrTable!ErrTable against the statement (C11ErrTableMC: one state per
     abstract call, every observation the entry point's channels can produce).
  2. TLC (GenC11) enumerates the concrete rows refining the whole table and certifies the refinement (CoverDom).
  3. harness/fam_c11.cpp replays every row in a build WITH and a build WITHOUT C++ exceptions and records what
     happened; C11Trace (TLC) abstracts each recorded call, looks the requirement up in ErrTable and judges it,
     and checks at the End event that the trace covered the table's whole domain for that build.
  4. part (a): degenerate / huge inputs x all clip types x fill rules through the C exports (c11exec, judged by
     C11Trace) and through Clipper64 (BoolTrace's C11 clauses on the degen family).
"""
import concurrent.futures as cf
import hashlib, json, os, re, time
from . import core, boolfam

RULE = ("reporting part: TLC enumerates every row of ErrTable's domain (46 entry points x precision -12..12 and +-100, +-(2^31-1) x magnitude class of "
        "the scaled coordinates x zero scale x odd count x clip-type / fill-rule bytes 0..255) as concrete calls (probe magnitudes 9e17 | 1e19, 1e60, "
        "1e300 after scaling, on every side / axis / path position, in 4 fixture shapes: square + spike, axis-parallel 2-point segment, flat 3-point path, single point); each row is replayed in a build with and a build without C++ exceptions "
        "and judged by TLC against ErrTable; End events certify that the whole domain was covered. Success part: seeded degenerate inputs "
        "(empty, 1-2 point, duplicate, spike, coincident paths, open subjects) in 7 magnitude classes up to +-(2^62-1) x 5 clip types x 4 fill rules "
        "through BooleanOp64, BooleanOp_PolyTree64, BooleanOpD, BooleanOp_PolyTreeD and Clipper64, plus BoolTrace's C11 clauses on its degen family. "
        "non-trivial = a table row (distinct by arguments and build) whose observed outcome is a report (exception, error code, negative return, "
        "null or empty result), or a success-part input (distinct by seed, id, build) with a non-empty solution for some clip type")

NOEXC = ("-fno-exceptions",)

def _builds(ctx):
    """(tag, variant, extra_flags, want_exc)"""
    b = [("exc", "plain", (), "1"), ("noexc", "plain", NOEXC, "0")]
    if not ctx.quick:
        b += [("exc_hi", "hi", (), "1"), ("noexc_hi", "hi", NOEXC, "0"), ("exc_O0", "plain", ("-O0",), "1"), ("noexc_O0", "plain", NOEXC + ("-O0",), "0")]
    return b

def _exe(variant, flags):
    return core.build(variant, ("c11",), extra_flags=tuple(flags))

def _run(cmd, timeout=900):
    p = core.sh(cmd, timeout=timeout)
    if p.returncode != 0:
        raise core.ModelFailure("harness failed (%d): %s\n%s" % (p.returncode, " ".join(map(str, cmd)), p.stderr.decode(errors="replace")[-2000:]))
    return p

def _validate(job):
    """one trace file -> (job, TlcResult); the whole trace must be consumed."""
    env = {"WANT_EXC": job["want"], "COVER": "1" if job["kind"] == "rows" else "0"}
    mod = "C11Trace" if job["kind"] == "rows" else "C11ExecTrace"
    (f, res), = core.validate_traces(mod, mod + ".cfg", [job["out"]], timeout=1500, env=env)
    _no_wrapped_fail(res)
    return job, res

def _no_wrapped_fail(res):
    """TLC's pretty printer wraps tuples longer than 80 columns; a wrapped FAIL line would not be parsed by core.tlc."""
    n = sum(1 for ln in res.out.splitlines() if re.match(r'^<<\s*"FAIL"', ln))
    if n != len(res.fails):
        raise core.ModelFailure("%d FAIL lines printed by TLC but %d parsed (wrapped line?)" % (n, len(res.fails)))

def _mkrec(fl, lines, job):
    sl = core.case_slice(lines, fl["line"], ("Row", "CCase"))
    return {"prop": fl["prop"], "clause": fl["clause"], "detail": fl["detail"], "case": json.loads(sl[0]), "event": json.loads(sl[-1]),
            "kind": job["kind"], "build": {"variant": job["variant"], "flags": list(job["flags"]), "want": job["want"]}, "args": job.get("args", {})}

def run(ctx):
    q = ctx.quick; s = ctx.seed
    rows = ctx.path("c11_rows.ndjson")
    builds = _builds(ctx)
    # ---- 1+2: table model check, row generation and the builds, concurrently
    with cf.ThreadPoolExecutor(4) as ex:
        f_gen = ex.submit(core.tlc, "GenC11", "GenC11.cfg", {"OUT": rows}, 1, 600)
        f_mc = ex.submit(core.tlc, "C11ErrTableMC", "C11ErrTableMC.cfg", None, 1, 600)
        def build_all():     # sequential: core.build's temp names are per process, not per thread
            e = {b[0]: _exe(b[1], b[2]) for b in builds}
            core.build("plain", ("bool",))
            return e
        f_b = ex.submit(build_all)
        gen = core.tlc_ok(f_gen.result(), "GenC11"); mc = core.tlc_ok(f_mc.result(), "C11ErrTableMC")
        exes = f_b.result()
    ctx.add_tlc(gen); ctx.add_tlc(mc)
    core.log("[c11] GenC11 %.1fs (%d rows), C11ErrTableMC %.1fs (%d states); t=%.1fs" % (gen.wall, core.count_lines(rows), mc.wall, mc.distinct, time.time() - ctx.t0))
    nrows = core.count_lines(rows)
    if not gen.outs or int(gen.outs[0].split(",")[0]) != nrows or nrows < 1000:
        raise core.ModelFailure("GenC11 wrote %d rows, reported %r" % (nrows, gen.outs))
    ctx.extra["table_rows_enumerated_by_tlc"] = nrows
    ctx.extra["table_abstract_calls_model_checked"] = mc.distinct
    # ---- 3: replay
    jobs = []
    for tag, variant, flags, want in builds:
        jobs.append({"kind": "rows", "tag": tag, "variant": variant, "flags": flags, "want": want, "out": ctx.path("c11_rows_%s.ndjson" % tag),
                     "cmd": [exes[tag], "c11rows", "--in", rows]})
    nex = 2 if q else 7
    ncase = 1500 if q else 20000
    for tag, variant, flags, want in builds[:2]:
        for k in range(nex):
            a = {"seed": s * 100 + k + (50 if want == "0" else 0), "n": ncase}
            jobs.append({"kind": "exec", "tag": "%s_%d" % (tag, k), "variant": variant, "flags": flags, "want": want, "args": a,
                         "out": ctx.path("c11_exec_%s_%d.ndjson" % (tag, k)), "cmd": [exes[tag], "c11exec", "--seed", str(a["seed"]), "--n", str(a["n"])]})
    def harness(j):
        _rows_harness(j["cmd"], j["out"]); return j
    core.run_parallel(harness, jobs)
    # BoolTrace's C11 clauses (execute_returned_false, noclip_not_empty) on the Clipper64 degen family
    bj = [boolfam.harness_job(ctx, 900 + k, "plain", {"fam": "degen", "n": 60 if q else 400, "emb": "0,3,4", "npts": 12, "cfg": "batch", "reunion": 0, "seed": s * 100 + 70 + k})
          for k in range(2 if q else 6)]
    bj = boolfam.run_jobs(ctx, bj)
    core.log("[c11] harness done; t=%.1fs" % (time.time() - ctx.t0))
    # ---- judge
    with cf.ThreadPoolExecutor(core.NCPU) as ex:
        fut_b = ex.submit(boolfam.validate, ctx, bj)
        results = list(ex.map(_validate, jobs))
        fut_b.result()
    core.log("[c11] traces judged: " + ", ".join("%s %.0fs" % (j["tag"], r.wall) for j, r in results) + "; t=%.1fs" % (time.time() - ctx.t0))
    if "cases_dropped_not_in_input_class" in ctx.extra:      # BoolTrace DROP notes: outside general position, i.e. judged for the C11 clauses only
        ctx.extra["booltrace_cases_judged_for_C11_clauses_only"] = ctx.extra.pop("cases_dropped_not_in_input_class")
    outcomes = {}; kinds = {}; seen_oc = set()
    for j, res in results:
        ctx.add_tlc(res)
        lines = core.read_lines(j["out"])
        hdr = json.loads(lines[0])
        if str(hdr.get("exc")) != j["want"]:
            raise core.ModelFailure("build %s reports exc=%r" % (j["tag"], hdr.get("exc")))
        for n in res.notes:
            if n["kind"] == "DROP":
                ctx.extra["cases_dropped_not_in_input_class"] = ctx.extra.get("cases_dropped_not_in_input_class", 0) + 1
            elif n["kind"] == "STATS":
                ctx.extra.setdefault("tlc_cover_stats(rows,abstract_calls,invalid_calls)", {})[j["tag"]] = n["detail"]
        if j["kind"] == "rows":
            st = [n for n in res.notes if n["kind"] == "STATS"]
            if not st or count_rows(lines) != nrows:
                raise core.ModelFailure("table replay incomplete for build %s" % j["tag"])
        for ln in lines:
            ev = json.loads(ln)
            if ev["e"] == "Row":
                ctx.evaluations += 1; ctx.traces += 1
                rep = ev["th"] != 0 or ev["err"] > 0 or ev["ret"] < 0 or ev["nul"] == 1 or ev["n"] == 0
                oc = "exception" if ev["th"] else "errcode" if ev["err"] > 0 else "negative" if ev["ret"] < 0 else "null" if ev["nul"] else "empty" if ev["n"] == 0 else "normal"
                outcomes[oc] = outcomes.get(oc, 0) + 1
                if ev["th"]:
                    kinds[str(ev["th"])] = kinds.get(str(ev["th"]), 0) + 1
                if ev["ret"] < 0:
                    kinds["ret%d" % ev["ret"]] = kinds.get("ret%d" % ev["ret"], 0) + 1
                if rep:
                    key = json.dumps([ev[k] for k in ("ep", "p", "q", "zs", "cnt", "ct", "fr", "b", "m", "x", "sg", "ax", "pos", "sh", "exc")] + [j["tag"]])
                    ctx.nontrivial.add(hash(key))
                    if oc not in seen_oc and len(ctx.samples) < 4:
                        seen_oc.add(oc)
                        ctx.sample({"build": j["tag"], "observed": oc, "row": {k: ev[k] for k in ("ep", "p", "q", "zs", "cnt", "ct", "fr", "b", "m", "x", "sg", "ax", "pos", "sh")},
                                    "obs": {k: ev[k] for k in ("th", "err", "ret", "n", "nul", "unt", "ok")}})
            elif ev["e"] == "CCase":
                ctx.traces += 1; cur = ev
            elif ev["e"] == "CExecs":
                ctx.evaluations += len(ev["x"])
                if any(x[4] or x[5] for x in ev["x"]):
                    ctx.nontrivial.add(hash(("exec", j["tag"], j["args"]["seed"], ev["id"])))
        for fl in res.fails:
            rec = _mkrec(fl, lines, j)
            (ctx.fails if fl["prop"] == ctx.prop else ctx.other).append(rec)
    boolfam.tally(ctx, bj)
    harness_fails = [r for r in ctx.other if r["prop"] == "HARNESS"]
    if harness_fails:
        raise core.ModelFailure("trace spec rejected the harness itself: %s" % json.dumps(harness_fails[0])[:600])
    ctx.extra["observed_outcomes"] = outcomes
    ctx.extra["observed_exception_kinds_and_return_codes"] = kinds
    ctx.extra["builds"] = [b[0] for b in builds]
    ctx.assumptions += ["the harness performs the call its log line describes (fixture of spec/C11Abs.tla) in the build its Hdr line names",
                        "which exception type / message, error-code bit and negative value is used is not prescribed by the statement (recorded only)",
                        "range class judged only for scaled magnitudes <= 9e17 (in) or >= 1e19 (beyond); 2^61..2^63 is left unjudged"]
    ctx.trusted += ["harness/fam_c11.cpp (fixture construction, exception capture, C array marshalling)", "g++ -fno-exceptions as the 'exceptions disabled' build"]
    return core.finish(ctx, "model_checking", RULE, confirm=confirm, exhaustive=True)

def _rows_harness(cmd, out):
    """run `c11rows` / `c11exec`; a row whose call kills the process is logged by the harness with crash=1 (exit code 42) and the
    replay resumes after it."""
    extra = []
    for restart in range(4000):
        p = core.sh(cmd + ["--out", out] + extra, timeout=900)
        if p.returncode == 0:
            return
        if p.returncode != 42:
            raise core.ModelFailure("harness failed (%d): %s\n%s" % (p.returncode, " ".join(map(str, cmd)), p.stderr.decode(errors="replace")[-2000:]))
        with open(out, "rb") as f:
            f.seek(max(0, os.path.getsize(out) - 4096))
            last = f.read().splitlines()[-1]
        ev = json.loads(last)
        if ev.get("crash") != 1 and not (ev.get("e") == "CExecs" and ev["x"][-1][3] == -99):
            raise core.ModelFailure("harness died without logging the call it was in")
        if "--only" in cmd:
            return
        extra = ["--from", str(ev["id"] + 1)]
    raise core.ModelFailure("more than 4000 rows crashed the harness")

def count_rows(lines):
    return sum(1 for ln in lines if ln.startswith('{"e":"Row"'))

# ------------------------------------------------------------------ replay of a single case
def _replay(rec):
    if rec.get("kind") not in ("rows", "exec"):
        return boolfam.replay_rec(rec, "C11")
    work = os.path.join(core.CACHE, "work", "replay_c11_%d" % os.getpid()); os.makedirs(work, exist_ok=True)
    b = rec["build"]; exe = _exe(b["variant"], b["flags"])
    out = os.path.join(work, "out.ndjson")
    if rec["kind"] == "rows":
        inf = os.path.join(work, "in.ndjson")
        with open(inf, "w") as f:
            f.write(json.dumps({k: rec["case"][k] for k in ("ep", "p", "q", "zs", "cnt", "ct", "fr", "b", "m", "x", "sg", "ax", "pos", "sh")}) + "\n")
        _rows_harness([exe, "c11rows", "--in", inf], out)
    else:
        _rows_harness([exe, "c11exec", "--seed", str(rec["args"]["seed"]), "--n", str(rec["args"]["n"]), "--only", str(rec["case"]["id"])], out)
    mod = "C11Trace" if rec["kind"] == "rows" else "C11ExecTrace"
    res = core.validate_traces(mod, mod + ".cfg", [out], env={"WANT_EXC": b["want"], "COVER": "0"})
    for _, r in res:
        _no_wrapped_fail(r)
    return any(fl["prop"] == "C11" and fl["clause"] == rec["clause"] for _, r in res for fl in r.fails)

def confirm(rec):
    return _replay(rec)

def replay(path, seed):
    rec = json.load(open(path))
    if _replay(rec):
        print("VIOLATION property=C11 replay=%s" % path); return 1
    print("replay: no violation reproduced"); return 0
