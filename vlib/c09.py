"""C09 - RectClipLines returns exactly the parts of each polyline inside the rectangle (DESIGN.md 5/C09).
Shares harness family fam_c08.cpp (subcommand rcl) and the driver helpers of vlib/c08.py."""
from . import core, c08

RULE = ("family F-RC: open polylines on the 5x5 lattice (step 8 units) against rectangle [8,24]^2 (ends on the boundary, corner grazing, full "
        "crossings, segments along sides), plus a narrow aligned, an off-lattice and the hull rectangle; ALL 16 250 two- and three-vertex polylines "
        "are enumerated by TLC (GenRC.tla) and replayed; four-vertex polylines sampled (quick) or all 390 625 enumerated by index (thorough); 5-7-vertex "
        "random polylines, 5-9-vertex ring walks and polylines with arbitrary integer vertices (off the lattice); embeddings: identity, translation to |coordinate| = 2^40, scale 3 and 7 with translation (exact: "
        "TLC sees real - t), scale 2^13 and 2^35 (coarse: vertices reported to the nearest lattice unit, tolerances widened accordingly); every polyline "
        "is clipped alone; groups of 3 polylines, with one-vertex paths (inside / on / outside the rectangle) and empty paths mixed in after polylines "
        "that produce output, are clipped by one multi-path Execute and then a second Execute on the same RectClipLines64 object (an in-rectangle "
        "one-vertex path first) - the pieces must be attributable path by path, in call order; TLC computes the exact inside length (rational Liang-Barsky parameters, integer square-root brackets at "
        "1/16 unit), the crossing count, and decides on-polyline / in-rectangle / order-and-direction / length; non-trivial = the library returned at "
        "least one piece and not the unchanged polyline, distinct by (embedding, rectangle, polyline)")

STAT_NAMES = ["cases", "polylines_crossing_boundary", "crossings", "segment_on_side_line_inside", "cases_with_pieces", "pieces", "batches"]

def run(ctx):
    gen, n = c08.generate(ctx, "GenRC_open.cfg", "gen_open.ndjson")
    ctx.extra["two_and_three_vertex_polylines_enumerated_by_tlc"] = n
    jobs = c08.run_jobs(c08.plan(ctx, "rcl", gen, n))
    c08.tally(ctx, jobs, "L")
    res, stats = c08.validate(ctx, jobs, "RectClipLinesTrace", "RectClipLinesTrace.cfg", "L", STAT_NAMES)
    st = dict(zip(STAT_NAMES, stats))
    if st["cases"] != ctx.evaluations - st["batches"] or min(st["polylines_crossing_boundary"], st["segment_on_side_line_inside"], st["pieces"]) == 0:
        raise core.ModelFailure("vacuity guard: census %r vs %d calls" % (st, ctx.evaluations))
    ctx.trusted.append("affine embedding invariance (harness maps rectangle and polylines with the same exact integer map)")
    ctx.trusted.append("coarse embeddings (scale >= 2^13): result vertices are rounded to the nearest lattice unit by the harness before TLC judges them")
    ctx.assumptions.append("builds: default and CLIPPER2_HI_PRECISION (sampled families alternate); USINGZ off")
    return core.finish(ctx, "model_checking", RULE, confirm=lambda rec: c08.replay_rec(rec, "C09"), exhaustive=not ctx.quick)

def replay(path, seed):
    return c08.replay_file(path, "C09")
