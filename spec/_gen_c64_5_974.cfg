CONSTANTS Kind = "c64" N = 5 K = 2 G = 1
SPECIFICATION Spec
INVARIANTS Emit
CHECK_DEADLOCK FALSE
