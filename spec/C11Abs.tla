------------------------------ MODULE C11Abs ------------------------------
(* C11: concrete calls (rows replayed by harness/fam_c11.cpp) and their abstraction   *)
(* to the domain of C11ErrTable!ErrTable.                                             *)
(*                                                                                    *)
(* A concrete row is a record                                                         *)
(*   ep   entry point (C11ErrTable!AllEPs)                                            *)
(*   p    decimal precision passed (0 where the entry point has none)                 *)
(*   q    ScalePath(s) only: the scale passed is 10^q (on the axes that are not zero) *)
(*   zs   ScalePath(s) only: 0 no zero scale, 1 scale_x = 0, 2 scale_y = 0, 3 both    *)
(*   cnt  MakePath(D) only: number of values in the vector                            *)
(*   ct, fr  C exports only: the clip-type and fill-rule bytes                        *)
(*   b    the fixture's unit is U = 10^b                                              *)
(*   m, x, sg, ax, pos   the probe coordinate sg * m * 10^x on axis ax (0 = x, 1 = y);*)
(*        m = 0: no probe vertex; pos = 1: the probe path is the second of two paths  *)
(*   sh   shape of the probe path (the bounding box of shapes 1-3 has no area):       *)
(*        0 square + spike, 1 axis-parallel 2-point segment with the probe coordinate *)
(*        on the parallel axis, 2 flat 3-point path, 3 a single point                 *)
(* Fixture (documented here, built by the harness from these numbers only):           *)
(*   S0 = (0,0) (10U,0) (10U,10U) (0,10U); the probe path is S0 with one extra vertex *)
(*   forming an outward spike: (sg*M, 5U) or (5U, sg*M) with M = m * 10^x, inserted   *)
(*   on the side it points away from; S1 = S0 + (20U,20U); rectangle (-2U,-2U,12U,5U); *)
(*   offset delta U; Minkowski pattern S0; boolean partner operand S0 + (5U,5U).      *)
(*   sh = 1: (0,5U) (P,5U)   sh = 2: (0,5U) (10U,5U) (P,5U)   sh = 3: (P,5U)   with   *)
(*   P = sg*M (20U when m = 0), x and y swapped for ax = 1; pos = 2 (sh = 1 only):    *)
(*   preceded by a second collinear segment (20U,5U) (30U,5U).  A valid call on a     *)
(*   degenerate shape may legitimately return nothing, so its size is not bounded     *)
(*   below; an out-of-range coordinate in it must be reported like any other.         *)
(* Every valid call on the sh = 0 fixture has a non-empty result (between 1 and 99 paths)   *)
(* provided the unit does not vanish under the scaling (b + s >= 0), which AbsOK      *)
(* checks.  TLC never forms 10^x: magnitudes are compared through decimal exponents.  *)
EXTENDS C11ErrTable

Clamp(p) == IF p > MaxPrec THEN MaxPrec ELSE IF p < -MaxPrec THEN -MaxPrec ELSE p
(* decimal exponent of the scale applied to the coordinates *)
ScaleExp(r) == IF r.ep \in EcEPs THEN r.q ELSE IF TakesPrecision(r.ep) THEN Clamp(r.p) ELSE 0
K(r) == r.x + ScaleExp(r)

(* scaled probe magnitude m*10^K is >= 10^19 > 2^63: it cannot be an int64 *)
Beyond(r)  == r.m >= 1 /\ K(r) >= 19
(* all scaled coordinates are <= 9*10^17 < 2^60: inside every reading of "the integer range" *)
(* (also under ClipperD's power-of-two scale, which is < 2 * 10^p); 30U is the largest base coordinate *)
InRange(r) == /\ r.m = 0 \/ (r.m <= 9 /\ K(r) <= 17)
              /\ r.b + 1 + ScaleExp(r) <= 17
MagClass(r) == IF Beyond(r) THEN "beyond" ELSE IF InRange(r) THEN "in" ELSE "unjudged"

(* the fixture is meaningful: the unit survives the scaling, fields are in their ranges *)
AbsOK(r) == /\ r.ep \in AllEPs
            /\ r.b >= 0 /\ r.b + ScaleExp(r) >= 0
            /\ r.m \in 0..9 /\ r.sg \in {1, -1} /\ r.ax \in {0, 1} /\ r.pos \in 0..2 /\ r.sh \in 0..3 /\ (r.pos = 2 => r.sh = 1) /\ r.zs \in 0..3 /\ r.cnt \in 0..64
            /\ MagClass(r) # "unjudged"

Abs(r, exc) == Call(r.ep, r.p, MagClass(r), r.zs # 0, r.cnt % 2 = 1, r.ct, r.fr, exc)

(* size of a normal result on the fixture: [min, max] *)
NMin(r) == IF r.ep \in MkEPs THEN r.cnt \div 2
           ELSE IF r.ep \in CIntEPs THEN (IF r.ct \in 1..4 /\ r.fr \in 0..2 THEN 1 ELSE 0)   \* both operands are positively oriented: Negative fills nothing
           ELSE IF r.sh # 0 THEN 0
           ELSE 1
NMax(r) == IF r.ep \in MkEPs THEN r.cnt \div 2 ELSE IF r.ep \in CIntEPs /\ r.ct = 0 THEN 0 ELSE 99   \* NoClip yields empty solutions
=============================================================================
