----------------------------- MODULE C16Trace -----------------------------
(* Trace specification for C16: every PathsD entry point against its integer            *)
(* counterpart.  One event per pair of library calls (harness/fam_c16.cpp):               *)
(*   Call - op, precision p, the dyadic inputs (groups of paths of [nx, ex, ny, ey], n    *)
(*          a signed wide integer of C16Big), the integers `fed` the harness passed to    *)
(*          the integer overload, the plain / dyadic parameters (ip, dp) and the dyadic   *)
(*          form of the scaled parameters passed to the integer overload (fp), the        *)
(*          integer overload's result r64, the integers rD recovered (exactly) from the   *)
(*          doubles the PathsD overload returned, both polytree parent vectors, success   *)
(*          flags, and two native relations: robust (the integer result does not depend   *)
(*          on the last bit of an inexactly scaled parameter) and ud (largest distance in *)
(*          ulps between a returned double and the closer of v * (1/S), v / S).           *)
(* TLC decides: (i) fed = ScaleRound(in) for the DOCUMENTED scale of op and the           *)
(* documented rounding - a mismatch is a defect of the harness (prop "HARNESS"), and a    *)
(* call with a coordinate in the ambiguity band or outside the input class is dropped;    *)
(* (ii) parameters scaled alike; (iii) rD = r64, tree shapes equal, success flags equal,  *)
(* ud <= 1.  Classes of genuine defects of the unchanged tree get their own clause.       *)
EXTENDS C16Scale, TLC, Json, IOUtils, FiniteSets

VARIABLES l
vars == <<l>>

Tr == ndJsonDeserialize(IOEnv.TRACE)
Ev == Tr[l]

Report(prop, clause, d) == PrintT(<<"FAIL", prop, l, clause, d>>)
Chk(c, prop, clause, d) == IF c THEN TRUE ELSE Report(prop, clause, d)
Note(kind, d) == PrintT(<<"NOTE", kind, l, d>>)

RECURSIVE FlatS(_)
FlatS(ss) == IF ss = <<>> THEN <<>> ELSE Head(ss) \o FlatS(Tail(ss))

(* same shape: groups, paths, points *)
ShapeOK(in, fed) ==
  /\ Len(in) = Len(fed)
  /\ \A g \in 1..Len(in) : /\ Len(in[g]) = Len(fed[g])
                           /\ \A k \in 1..Len(in[g]) : Len(in[g][k]) = Len(fed[g][k])
(* all coordinates as <<w, e, m>> *)
Coords(in, fed) ==
  FlatS([g \in 1..Len(in) |-> FlatS([k \in 1..Len(in[g]) |-> FlatS([i \in 1..Len(in[g][k]) |->
     << <<in[g][k][i][1], in[g][k][i][2], fed[g][k][i][1]>>, <<in[g][k][i][3], in[g][k][i][4], fed[g][k][i][2]>> >>])])])
WidePaths(gs) == \A g \in 1..Len(gs) : \A k \in 1..Len(gs[g]) : \A i \in 1..Len(gs[g][k]) : IsWide(gs[g][k][i][1]) /\ IsWide(gs[g][k][i][2])

(* ---- per-op structure of the inputs (what the documented signature takes) ---- *)
NGroups(op) == CASE op \in {"clipperd", "clipperd_tree"} -> 3
                 [] op \in {"boolop", "boolop_tree", "rectclip", "rectcliplines", "minksum", "minkdiff"} -> 2
                 [] OTHER -> 1
IsTreeOp(op) == op \in {"clipperd_tree", "boolop_tree"}

(* ---- signed comparison helpers on wide integers ---- *)
DiffMag(a, b) == IF Sg(a) = Sg(b) THEN AbsDiff(Mag(a), Mag(b)) ELSE Add(Mag(a), Mag(b))     \* |a - b|
Close(p, q) == Lt(DiffMag(p[1], q[1]), <<2>>) /\ Lt(DiffMag(p[2], q[2]), <<2>>)
(* class S16a (known_findings.json): an OPEN solution path of three vertices two of which are less than 2 apart in both axes *)
SmallTri(P) == Len(P) = 3 /\ (Close(P[1], P[2]) \/ Close(P[2], P[3]) \/ Close(P[1], P[3]))
RECURSIVE DropsOnly(_, _, _, _)
DropsOnly(A, Bq, i, j) ==       \* Bq is A with some SmallTri paths removed
  IF i > Len(A) THEN j > Len(Bq)
  ELSE \/ (j <= Len(Bq) /\ A[i] = Bq[j] /\ DropsOnly(A, Bq, i + 1, j + 1))
       \/ (SmallTri(A[i]) /\ DropsOnly(A, Bq, i + 1, j))

IsZeroDy(v) == Sg(v[1]) = 0

Post(ev) ==
  LET op == ev.op
      same == ev.recfail = 0 /\ ev.rD = ev.r64
  IN /\ Chk(ev.okD = ev.ok64, "C16", "success_flag_differs", op)
     /\ IF same THEN TRUE
        ELSE IF /\ op \in {"clipperd", "clipperd_tree"} /\ ev.recfail = 0 /\ Len(ev.rD) = 2 /\ Len(ev.r64) = 2
                /\ ev.rD[1] = ev.r64[1] /\ DropsOnly(ev.r64[2], ev.rD[2], 1, 1)
             THEN Report("C16", "open_small_triangle_dropped", op)          \* known finding
        ELSE Report("C16", "int_result_differs", op)
     /\ (IsTreeOp(op) => Chk(ev.parD = ev.par64, "C16", "tree_shape_differs", op))
     /\ IF ev.ud <= 1 THEN TRUE
        ELSE IF op = "inflate" /\ IsZeroDy(ev.dp.delta) /\ same
             THEN Report("C16", "inflate_zero_delta_not_rounded", op)       \* known finding
        ELSE Report("C16", "descale_not_within_1ulp", op)

TCall ==
  /\ Ev.e = "Call"
  /\ LET ev == Ev  op == ev.op  p == ev.p
     IN IF ~(op \in Ops /\ Len(ev.in) = NGroups(op) /\ ShapeOK(ev.in, ev.fed) /\ WidePaths(ev.fed) /\ WidePaths(ev.r64) /\ WidePaths(ev.rD))
        THEN Report("HARNESS", "malformed_event", ev.id)
        ELSE IF p \notin PrecRange THEN Note("DROP", <<"precision", ev.id>>)
        ELSE
          LET fam == FamOf(op)
              cs == Coords(ev.in, ev.fed)
              incl == \A i \in 1..Len(cs) : InClass(cs[i][1], cs[i][2], fam, p)
          IN IF ~incl THEN Note("DROP", <<"class", ev.id>>)
             ELSE
               LET js == [i \in 1..Len(cs) |-> Judge(cs[i][1], cs[i][2], fam, p, cs[i][3])]
                   bad == {i \in 1..Len(cs) : js[i] = "bad"}
                   amb == {i \in 1..Len(cs) : js[i] = "amb"}
                   ml  == SameDyadic(ev.dp.ml, ev.fp.ml)
                   pd  == IF op = "inflate" THEN ParamScaled(ev.dp.delta, ev.fp.delta, p) ELSE "exact"
                   pa  == IF op = "inflate" THEN ParamScaled(ev.dp.at, ev.fp.at, p) ELSE "exact"
               IN IF bad # {} THEN Report("HARNESS", "fed_input_is_not_ScaleRound", <<ev.id, CHOOSE i \in bad : TRUE>>)
                  ELSE IF amb # {} THEN Note("DROP", <<"ambiguous", ev.id>>)
                  ELSE IF ~ml \/ pd = "bad" \/ pa = "bad" THEN Report("HARNESS", "parameter_not_scaled_alike", ev.id)
                  ELSE IF (pd = "close" \/ pa = "close") /\ ev.robust # 1 THEN Note("DROP", <<"lastbit", ev.id>>)
                  ELSE Post(ev)

Init == l = 1
Next == /\ l <= Len(Tr)
        /\ l' = l + 1
        /\ TCall
Spec == Init /\ [][Next]_vars
=============================================================================
