----------------------------- MODULE OpenTrace -----------------------------
(* Layer 3 (C05): open subject paths are cut exactly at the clip region boundary.        *)
(* Extends BoolTrace: a Case may carry "open" polylines; "OOut" records one distinct open *)
(* solution (raw polylines); "OExec" one Execute with open subjects present: k = closed    *)
(* solution, k0 = closed solution of the same call WITHOUT the open subjects, ko = open    *)
(* solution.  All open-path geometry is done in coordinates scaled by 8 so that the sample *)
(* points q = a + (j/8)(b - a) on every open subject segment and the 1.5-unit bands are     *)
(* integral.  Clauses (property C05):                                                       *)
(*  (i)   every solution vertex and segment midpoint lies within 1.5 of an open subject     *)
(*        segment (reported only when it is certainly farther: Geom!FarSeg)                 *)
(*  (ii)  for sample points q farther than 2 + 1.5 units from every closed input edge:      *)
(*        q is within 1.5 of the open solution iff KeepOpen(ct, fr, ws(q), wc(q))            *)
(*  (iii) total length of the solution within 3 units per cut of the exact kept length,      *)
(*        both bracketed with integer square roots (scaled by 8)                            *)
(*  (iv)  the closed solution's cover with and without open subjects is identical           *)
EXTENDS BoolTrace

VARIABLES oq, oouts
vars3 == <<l, cs, outs, oq, oouts>>

SC == 8
BAND == 12                     \* 1.5 units
CLR == 28                      \* 2 + 1.5 units

SamplePts(P) == Flat([j \in 1..(Len(P) - 1) |->
                  [k \in 1..(SC + 1) |-> <<SC * P[j][1] + (k - 1) * (P[j + 1][1] - P[j][1]), SC * P[j][2] + (k - 1) * (P[j + 1][2] - P[j][2])>>]])

AnalyseOpen(ev) ==
  LET O == ev.open
      ES == AllEdges(ScalePaths(ev.subj, SC))  EC == AllEdges(ScalePaths(ev.clip, SC))
      EA == ES \o EC
      q == Flat([p \in 1..Len(O) |-> IF Len(O[p]) < 2 THEN <<>> ELSE SamplePts(O[p])])
  IN [ open |-> O, segs |-> AllOEdges(ScalePaths(O, SC)), q |-> q,
       ws |-> [i \in 1..Len(q) |-> Wind(ES, q[i])], wc |-> [i \in 1..Len(q) |-> Wind(EC, q[i])],
       clear |-> [i \in 1..Len(q) |-> ClearOf(EA, q[i], CLR)],
       \* the 8 sub-segments of every open subject segment: index of the start sample point, length bracket in 1/64
       \* units, and whether any closed edge meets it (then its kept/dropped status is uncertain)
       subs |-> LET nseg == Len(q) \div (SC + 1)
                IN Flat([sg \in 1..nseg |-> [k \in 1..SC |->
                     LET i == (sg - 1) * (SC + 1) + k
                         d2 == (Dist2(q[i], q[i + 1]))                    \* = |b - a|^2 (the sub-segment is (b - a) in x8 coordinates)
                     IN [i |-> i, lo |-> ISqrtLo(64 * d2), hi |-> ISqrtHi(64 * d2),
                         \* "meets": some closed edge crosses the sub-segment OR comes within the clearance of it (the distance of two segments
                         \* that do not meet is attained at an end point of one of them); inside the tolerance band the library may decide either way
                         meets |-> \E j \in 1..Len(EA) : \/ SegMeet(<<q[i], q[i + 1]>>, EA[j])
                                                          \/ ~(/\ FarSeg(q[i], EA[j][1], EA[j][2], CLR) /\ FarSeg(q[i + 1], EA[j][1], EA[j][2], CLR)
                                                                /\ FarSeg(EA[j][1], q[i], q[i + 1], CLR) /\ FarSeg(EA[j][2], q[i], q[i + 1], CLR))]]]),
       \* number of crossings of open segments with closed edges = number of cuts
       ncuts |-> Cardinality({<<i, j>> \in (1..Len(AllOEdges(ScalePaths(O, SC)))) \X (1..Len(EA)) :
                               SegMeet(AllOEdges(ScalePaths(O, SC))[i], EA[j])}) ]

TCase3 == TCase /\ oq' = AnalyseOpen(Ev) /\ oouts' = <<>>
TOut3 == TOut /\ UNCHANGED <<oq, oouts>>

AnalyseOOut(ev) ==
  LET P == ScalePaths(ev.paths, SC)
      E == AllOEdges(P)
      verts == UNION {{P[k][i] : i \in 1..Len(P[k])} : k \in 1..Len(P)}
      mids == {<<(E[i][1][1] + E[i][2][1]) \div 2, (E[i][1][2] + E[i][2][2]) \div 2>> : i \in 1..Len(E)}
  IN [ n |-> Len(ev.paths), paths |-> ev.paths,
       stray |-> {v \in verts \cup mids : \A j \in 1..Len(oq.segs) : FarSeg(v, oq.segs[j][1], oq.segs[j][2], BAND)},
       near |-> [i \in 1..Len(oq.q) |-> \E j \in 1..Len(E) : NearSeg(oq.q[i], E[j][1], E[j][2], BAND)],
       far  |-> [i \in 1..Len(oq.q) |-> \A j \in 1..Len(E) : FarSeg(oq.q[i], E[j][1], E[j][2], BAND)],
       short |-> \E k \in 1..Len(P) : Len(P[k]) < 2,
       \* solution length bracket in 1/64 units, from the unscaled vertices
       lenLo |-> LET U == AllOEdges(ev.paths) IN SumF([i \in 1..Len(U) |-> ISqrtLo(4096 * Dist2(U[i][1], U[i][2]))], Len(U)),
       lenHi |-> LET U == AllOEdges(ev.paths) IN SumF([i \in 1..Len(U) |-> ISqrtHi(4096 * Dist2(U[i][1], U[i][2]))], Len(U)) ]

TOOut == /\ Ev.e = "OOut"
         /\ Ev.k = Len(oouts) + 1
         /\ oouts' = Append(oouts, AnalyseOOut(Ev))
         /\ UNCHANGED <<cs, outs, oq>>

(* kept-length bracket: a sub-segment [q_i, q_i+1] (1/8 of an open subject segment) that no closed edge   *)
(* meets has constant windings, so it is entirely kept or entirely dropped by KeepOpen at q_i; a sub-segment *)
(* some closed edge meets or approaches within the clearance is uncertain: it counts for the upper bound only *)
TOExec ==
  /\ Ev.e = "OExec"
  /\ UNCHANGED <<cs, outs, oq, oouts>>
  /\ ExecPost(Ev.ct, Ev.fr, Ev.pc, Ev.rs, Ev.ok, Ev.k)
  /\ LET o == oouts[Ev.ko]  ct == Ev.ct  fr == Ev.fr
         keep(i) == KeepOpen(ct, fr, oq.ws[i], oq.wc[i])
         lost == {i \in 1..Len(oq.q) : oq.clear[i] /\ keep(i) /\ o.far[i]}
         extra == {i \in 1..Len(oq.q) : oq.clear[i] /\ ~keep(i) /\ o.near[i]}
         closedOnly == "noopen" \in DOMAIN Ev     \* the Execute overload without an open-solution argument: only the closed-region clause applies
     IN IF closedOnly
        THEN cs.gp => Chk(\A i \in 1..Len(cs.pts) : cs.clearT[i] => outs[Ev.k].cover[i] = outs[Ev.k0].cover[i], "C05", "open_subjects_change_closed_region", Ev.k)
        ELSE
        /\ Chk(o.stray = {}, "C05", "solution_not_on_open_subject", Ev.ko)
        /\ IF o.short THEN Note("open_solution_path_with_fewer_than_2_points", Ev.ko) ELSE TRUE   \* observation only: not demanded by C05
        /\ (cs.gp => /\ Chk(lost = {}, "C05", "kept_part_missing", IF lost = {} THEN 0 ELSE CHOOSE i \in lost : TRUE)
                     /\ Chk(extra = {}, "C05", "dropped_part_present", IF extra = {} THEN 0 ELSE CHOOSE i \in extra : TRUE)
                     /\ LET kLo == SumF([j \in 1..Len(oq.subs) |-> IF ~oq.subs[j].meets /\ keep(oq.subs[j].i) THEN oq.subs[j].lo ELSE 0], Len(oq.subs))
                            kHi == SumF([j \in 1..Len(oq.subs) |-> IF oq.subs[j].meets \/ keep(oq.subs[j].i) THEN oq.subs[j].hi ELSE 0], Len(oq.subs))
                        IN Chk(o.lenLo <= kHi + 192 * oq.ncuts /\ o.lenHi >= kLo - 192 * oq.ncuts, "C05", "total_length", <<o.lenLo, o.lenHi, kLo, kHi, oq.ncuts>>)
                     /\ Chk(\A i \in 1..Len(cs.pts) : cs.clearT[i] => outs[Ev.k].cover[i] = outs[Ev.k0].cover[i],
                            "C05", "open_subjects_change_closed_region", Ev.k))
        /\ Chk(ct # 0 \/ o.n = 0, "C11", "noclip_not_empty", Ev.ko)

Init3 == Init /\ oq = <<>> /\ oouts = <<>>
Next3 == /\ l <= Len(Tr)
         /\ l' = l + 1
         /\ (TCase3 \/ TOut3 \/ TOOut \/ TOExec \/ (TCrash /\ UNCHANGED <<oq, oouts>>))
Spec3 == Init3 /\ [][Next3]_vars3
=============================================================================
