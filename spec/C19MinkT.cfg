CONSTANT N = 3
CONSTANT PLENS = {2, 3}
CONSTANT ANCHOR = TRUE
CONSTANT FINE = {2}
CONSTANT NORMALISE = TRUE
SPECIFICATION Spec
CHECK_DEADLOCK FALSE
INVARIANT QuadsAreParas
INVARIANT NonNegative
INVARIANT CoverOK
