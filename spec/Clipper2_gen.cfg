CONSTANTS Kind = "c64" N = 3 K = 2 G = 1
SPECIFICATION Spec
INVARIANTS Emit
