--------------------------- MODULE C18BigIntTest ---------------------------
(* Self-test of C18BigInt: with a tiny limb base (LB = 2 or 3) every operation is     *)
(* compared with TLC's own integer arithmetic for ALL operands in -R..R, so that all  *)
(* carry / borrow / multi-limb paths are exercised exhaustively; the algorithms do    *)
(* not depend on the base.                                                            *)
EXTENDS C18BigInt, TLC
CONSTANT R
VARIABLES a, b
Canon(x) == /\ x[1] \in {-1, 0, 1} /\ (x[1] = 0) = (x[2] = <<>>)
            /\ (x[2] # <<>> => x[2][Len(x[2])] # 0) /\ \A i \in 1..Len(x[2]) : x[2][i] \in 0..(B - 1)
Sgn(n) == IF n > 0 THEN 1 ELSE IF n < 0 THEN -1 ELSE 0
Init == a \in -R..R /\ b \in -R..R
Next == UNCHANGED <<a, b>>
Spec == Init /\ [][Next]_<<a, b>>
OK == LET x == FromInt(a) y == FromInt(b)
      IN /\ Canon(x) /\ ToInt(x) = a
         /\ Canon(Add(x, y)) /\ ToInt(Add(x, y)) = a + b
         /\ Canon(Sub(x, y)) /\ ToInt(Sub(x, y)) = a - b
         /\ Canon(Mul(x, y)) /\ ToInt(Mul(x, y)) = a * b
         /\ Cmp(x, y) = Sgn(a - b) /\ Sg(x) = Sgn(a)
         /\ (a >= 0 /\ a <= 20) => ToInt(Shl(y, a)) = b * (2 ^ a)
         /\ FromWire(<<Sgn(a)>> \o x[2] \o <<0, 0>>) = x
=============================================================================
