------------------------------ MODULE C19Trace ------------------------------
(* C19 trace specification.  Consumes an ndjson log of the real library (env TRACE), one     *)
(* event per call of MinkowskiSum / MinkowskiDiff:                                           *)
(*   Mink  op (1 sum, 0 diff), closed, the lattice-level pattern and path, the embedding id  *)
(*         applied natively (pattern -> m*pattern + Tp, path -> m*path + Tq; the result is    *)
(*         then m*R + Tq +- Tp), the sample points chosen by the driver in ps-scaled lattice  *)
(*         coordinates, and the harness's MEASUREMENTS of the library's output: number of    *)
(*         paths, winding of the output at every sample point (99 = on an output edge), the   *)
(*         largest |input coordinate| handed to the library (split base 2^20), the raw        *)
(*         output when it maps back to small lattice points, and the natively compared        *)
(*         relation between the PathD overload and the Path64 result.                         *)
(* The verdict is computed here from C19Def (written from the property statement): which     *)
(* sample points are clear of every parallelogram edge, which lie inside some parallelogram, *)
(* what the winding must be there.  The step is always taken; failed clauses print FAIL.      *)
EXTENDS C19Def, TLC, Json, IOUtils

VARIABLES l, st
vars == <<l, st>>

Tr == ndJsonDeserialize(IOEnv.TRACE)
Ev == Tr[l]

Report(prop, clause, d) == PrintT(<<"FAIL", prop, l, clause, d>>)
Chk(c, prop, clause, d) == IF c THEN TRUE ELSE Report(prop, clause, d)
Note(kind, d) == PrintT(<<"NOTE", kind, l, d>>)
Pick(S) == IF S = {} THEN 0 ELSE CHOOSE x \in S : TRUE

(* embedding table (harness/fam_c19.cpp c19_embs): scale m and whether a large translation is used *)
EmbM(id) == CASE id = 0 -> 1 [] id = 1 -> 1 [] id = 2 -> 3 [] id = 3 -> 1000 [] id = 4 -> 8192 [] id = 5 -> 1073741824
EmbBig(id) == id \in {1, 2, 4}
(* the property's tolerance is 2 units of the embedded space (+1 where coordinates reach 2^40: rounding  *)
(* slack, outward); in ps-scaled lattice units that is (2 + big) * ps / m, rounded up                      *)
Tol(id, ps) == LET m == EmbM(id) IN ((IF EmbBig(id) THEN 3 ELSE 2) * ps + m - 1) \div m
XN == 24

Analyse(ev) ==
  LET ps == ev.ps
      pat == ScalePath(ev.pat, ps)  path == ScalePath(ev.path, ps)
      Q == Paras(pat, path, ev.closed = 1, ev.op = 1)
      E == ParaSegs(Q)
      t == Tol(ev.emb, ps)
      pts == ev.pts
  IN [ Q |-> Q, E |-> E, t |-> t,
       inn |-> [k \in 1..Len(pts) |-> InSomePara(pts[k], Q)],
       clr |-> [k \in 1..Len(pts) |-> ClearE(pts[k], E, t)],
       cls |-> InClass(ev.pat, ev.path),
       empty |-> Len(ev.pat) = 0 \/ Len(ev.path) = 0,
       inrange |-> ev.inmax[1] < 1048576 \/ (ev.inmax[1] = 1048576 /\ ev.inmax[2] = 0) ]   \* |coordinate| <= 2^40

Post(ev, a) ==
  LET pts == ev.pts  cov == ev.cover  np == Len(pts)
      lat == ev.lat = 1
      EP == IF lat THEN AllEdges(ScalePaths(ev.paths, ev.ps)) ELSE <<>>
      un == {k \in 1..np : a.clr[k] /\ a.inn[k] /\ cov[k] = 0}
      ov == {k \in 1..np : a.clr[k] /\ ~a.inn[k] /\ cov[k] \notin {0, 99}}
      w1 == {k \in 1..np : a.clr[k] /\ a.inn[k] /\ cov[k] \notin {0, 1, 99}}
  IN \* harness self-checks: the table entry used, and the winding measurement re-done on the raw paths
     /\ Chk(ev.m = EmbM(ev.emb) /\ Len(cov) = np, "HARNESS", "embedding_table", ev.id)
     /\ Chk(lat => \A k \in 1..Min2(XN, np) : (cov[k] = 99 /\ OnAny(EP, pts[k])) \/ cov[k] = Wind(EP, pts[k]),
            "HARNESS", "projection_crosscheck", ev.id)
     \* empty pattern or path gives an empty result (every input)
     /\ (a.empty => Chk(ev.n = 0, "C19", "empty_input_nonempty_result", ev.id))
     \* PathD overloads return the Path64 result of the scaled input, descaled (relation measured natively)
     /\ ((ev.dn >= 0 /\ (a.cls \/ a.empty)) => Chk(ev.deq = 1 /\ ev.dn = ev.n, "C19", "pathd_differs_from_path64", ev.id))
     \* the swept region, at every clear sample point
     /\ ((a.cls /\ a.inrange) =>
           /\ Chk(un = {}, "C19", "uncovered", <<ev.id, Pick(un)>>)
           /\ Chk(ov = {}, "C19", "overcovered", <<ev.id, Pick(ov)>>)
           /\ Chk(w1 = {}, "C19", "winding_not_one", <<ev.id, Pick(w1)>>)
           \* output vertices lie within the tolerance of a parallelogram edge (raw output, m = 1 embeddings)
           /\ ((lat /\ ev.m = 1) =>
                 LET far == {v \in UNION {{ev.paths[k][i] : i \in 1..Len(ev.paths[k])} : k \in 1..Len(ev.paths)} :
                               ClearE(ScaleP(v, ev.ps), a.E, a.t)}
                 IN Chk(far = {}, "C19", "vertex_far_from_parallelogram_edges", <<ev.id, Pick(far)>>)))

(* st: <<judged, dropped, clear points inside, clear points outside, convex, simple non-convex,     *)
(*       self-intersecting patterns, empty-input calls, PathD relations checked>>                   *)
Bump(ev, a) ==
  LET np == Len(ev.pts)  j == a.cls /\ a.inrange
      ci == Cardinality({k \in 1..np : a.clr[k] /\ a.inn[k]})
      co == Cardinality({k \in 1..np : a.clr[k] /\ ~a.inn[k]})
      sc == ShapeClass(ev.pat)
  IN <<st[1] + (IF j THEN 1 ELSE 0), st[2] + (IF j \/ a.empty THEN 0 ELSE 1),
       st[3] + (IF j THEN ci ELSE 0), st[4] + (IF j THEN co ELSE 0),
       st[5] + (IF j /\ sc = 1 THEN 1 ELSE 0), st[6] + (IF j /\ sc = 2 THEN 1 ELSE 0), st[7] + (IF j /\ sc = 3 THEN 1 ELSE 0),
       st[8] + (IF a.empty THEN 1 ELSE 0), st[9] + (IF ev.dn >= 0 /\ (a.cls \/ a.empty) THEN 1 ELSE 0)>>

TMink == /\ Ev.e = "Mink"
         /\ LET a == Analyse(Ev)
            IN /\ st' = Bump(Ev, a)
               /\ Post(Ev, a)
               /\ IF a.cls \/ a.empty THEN TRUE ELSE Note("DROP", Ev.id)
               /\ IF a.inrange THEN TRUE ELSE Note("DROP_RANGE", Ev.id)
         /\ IF l = Len(Tr) THEN PrintT(<<"OUT", st'>>) ELSE TRUE

Init == l = 1 /\ st = <<0, 0, 0, 0, 0, 0, 0, 0, 0>>
Next == /\ l <= Len(Tr)
        /\ l' = l + 1
        /\ TMink
Spec == Init /\ [][Next]_vars
=============================================================================
