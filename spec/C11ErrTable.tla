---------------------------- MODULE C11ErrTable ----------------------------
(* C11, reporting part.  ErrTable is a function from an ABSTRACT CALL                 *)
(*   (entry point, decimal precision, magnitude class of the scaled coordinates,      *)
(*    zero scale?, odd coordinate count?, clip-type byte, fill-rule byte,             *)
(*    exceptions on/off)                                                               *)
(* to the outcome the property statement REQUIRES of that call:                       *)
(*   "normal"    the call succeeds (no exception, no error code, return 0, result)    *)
(*   "exception" a C++ exception reaches the caller                                   *)
(*   "errcode"   (exceptions disabled) the error code of the object / of the          *)
(*               int& error_code argument is non-zero after the call                  *)
(*   "empty"     (exceptions disabled, entry point without an error-code channel)     *)
(*               the result is empty                                                  *)
(*   "negative"  (C export returning int) negative return value, solutions untouched  *)
(*   "null"      (C export returning an array) null result                            *)
(* It is written from the property statement and the documented interface             *)
(* (clipper.h / clipper.core.h / clipper.export.h signatures), not from the code:     *)
(* which channels an entry point HAS is read off its signature (a ClipperD object     *)
(* has ErrorCode(); ScalePath(s) take int& error_code; a free function returning      *)
(* paths has only its result; the C exports have their return value).                 *)
(* The reading is deliberately weak where the statement is silent: which exception    *)
(* type/message, which error-code bit and which negative value are not prescribed     *)
(* (they are recorded as measurements only).                                          *)
EXTENDS Integers, Sequences, FiniteSets

(* ---------------------------------------------------------------- entry points *)
(* ClipperD object: ctor(precision), one Add* call carrying the probe path, Execute   *)
ObjEPs  == {"D_AddSubject", "D_AddOpenSubject", "D_AddClip", "D_TreeSubject"}
(* free functions of clipper.h / clipper.minkowski.h taking PathsD/PathD + precision  *)
BoolFreeEPs == {"BooleanOpD", "BooleanOpTreeD", "IntersectD", "UnionD", "DifferenceD", "XorD"}
FreeEPs == BoolFreeEPs \cup
           {"Union1D", "InflatePathsD", "RectClipD", "RectClipPathD", "RectClipLinesD", "RectClipLinesPathD",
            "TrimCollinearD", "MinkowskiSumD", "MinkowskiDiffD",
            "InflateOpenD", "TrimCollinearOpenD"}     \* InflatePaths with EndType::Round (open paths), TrimCollinear(.., is_open_path = true)
(* ScalePath / ScalePaths <T1,T2>(path(s), scale_x, scale_y | scale, int& error_code): *)
(* name = SP|SPS (path|paths), 1|2 (number of scale arguments), target, source type     *)
EcIntEPs == {"SP2_I_D", "SP1_I_D", "SPS2_I_D", "SPS1_I_D", "SP2_I_I", "SP1_I_I", "SPS2_I_I", "SPS1_I_I"}   \* integer target
EcDblEPs == {"SP2_D_I", "SP1_D_I", "SPS2_D_I", "SPS1_D_I"}                                               \* double target: no integer range to leave
EcEPs   == EcIntEPs \cup EcDblEPs
(* MakePath / MakePathD from a std::vector of values *)
MkEPs   == {"MakePath_int", "MakePath_i64", "MakePathD_dbl", "MakePathD_int"}
(* extern "C" functions of clipper.export.h *)
CInt64EPs == {"X_BooleanOp64", "X_BooleanOp_PolyTree64"}
CIntDEPs  == {"X_BooleanOpD", "X_BooleanOp_PolyTreeD"}
CIntEPs == CInt64EPs \cup CIntDEPs
CPtrEPs == {"X_InflatePathsD", "X_InflatePathD", "X_RectClipD", "X_RectClipLinesD"}
AllEPs  == ObjEPs \cup FreeEPs \cup EcEPs \cup MkEPs \cup CIntEPs \cup CPtrEPs

PrecEPs  == ObjEPs \cup FreeEPs \cup CIntDEPs \cup CPtrEPs
ToIntEPs == ObjEPs \cup FreeEPs \cup EcIntEPs
CEPs     == CIntEPs \cup CPtrEPs
ErrChanEPs == ObjEPs \cup EcEPs                                        \* entry points with an error-code channel
NoChanEPs  == FreeEPs \cup MkEPs                                       \* C++ entry points whose only channel is the result
TakesPrecision(ep) == ep \in PrecEPs
ScalesToInt(ep)    == ep \in ToIntEPs          \* coordinates are converted to int64 after scaling
TakesScale(ep)     == ep \in EcEPs
TakesCount(ep)     == ep \in MkEPs
TakesEnums(ep)     == ep \in CIntEPs

(* ---------------------------------------------------------------- argument classes *)
MaxPrec == 8
PrecOK(p) == -MaxPrec <= p /\ p <= MaxPrec
ClipTypeOK(b) == b \in 0..4        \* NoClip, Intersection, Union, Difference, Xor
FillRuleOK(b) == b \in 0..3        \* EvenOdd, NonZero, Positive, Negative
Mags == {"in", "beyond"}

(* abstract call *)
Call(ep, p, mag, zs, odd, ct, fr, exc) ==
  [ep |-> ep, p |-> p, mag |-> mag, zs |-> zs, odd |-> odd, ct |-> ct, fr |-> fr, exc |-> exc]

(* the invalid arguments of a call (only arguments the entry point has can be invalid) *)
Inv(a) == (IF TakesPrecision(a.ep) /\ ~PrecOK(a.p) THEN {"precision"} ELSE {})
     \cup (IF ScalesToInt(a.ep) /\ a.mag = "beyond" THEN {"range"} ELSE {})
     \cup (IF TakesScale(a.ep) /\ a.zs THEN {"scale"} ELSE {})
     \cup (IF TakesCount(a.ep) /\ a.odd THEN {"nonpair"} ELSE {})
     \cup (IF TakesEnums(a.ep) /\ ~ClipTypeOK(a.ct) THEN {"cliptype"} ELSE {})
     \cup (IF TakesEnums(a.ep) /\ ~FillRuleOK(a.fr) THEN {"fillrule"} ELSE {})

Outcomes == {"normal", "exception", "errcode", "empty", "negative", "null"}

Required(a) ==
  IF Inv(a) = {} THEN "normal"
  ELSE IF a.ep \in CIntEPs THEN "negative"                    \* "rejected with a negative return value"
  ELSE IF a.ep \in CPtrEPs THEN "null"                        \* no int to return: the array result is withheld
  ELSE IF a.exc = 1 THEN "exception"                          \* "reported through an exception"
  ELSE IF a.ep \in ErrChanEPs THEN "errcode"                \* "through the error code" (the entry point has one)
  ELSE "empty"                                                \* "... together with an empty result" (only channel left)

(* ---------------------------------------------------------------- the table's domain *)
(* precisions: the statement's -12..12 plus far-out values (all fit TLC's 32-bit integers) *)
PrecAll == (-12..12) \cup {-2147483647, -100, 100, 2147483647}
PrecFew == {-9, -8, 2, 8, 9}
ByteAll == 0..255
CtFew == {0, 4, 5, 255}
FrFew == {1, 3, 4, 255}
Excs == {0, 1}

Dom ==
  \* precision x magnitude for every PathsD/PathD entry point
       {Call(ep, p, mag, FALSE, FALSE, 2, 1, exc) : ep \in ObjEPs \cup FreeEPs, p \in PrecAll, mag \in Mags, exc \in Excs}
  \* zero scale x magnitude for ScalePath(s)
  \cup {Call(ep, 0, mag, zs, FALSE, 2, 1, exc) : ep \in EcIntEPs, mag \in Mags, zs \in BOOLEAN, exc \in Excs}
  \cup {Call(ep, 0, "in", zs, FALSE, 2, 1, exc) : ep \in EcDblEPs, zs \in BOOLEAN, exc \in Excs}
  \* odd / even number of values
  \cup {Call(ep, 0, "in", FALSE, odd, 2, 1, exc) : ep \in MkEPs, odd \in BOOLEAN, exc \in Excs}
  \* C boundary: every clip-type byte and every fill-rule byte (the other one from a small set)
  \cup {Call(ep, 2, "in", FALSE, FALSE, ct, fr, exc) : ep \in CInt64EPs, ct \in ByteAll, fr \in FrFew, exc \in Excs}
  \cup {Call(ep, 2, "in", FALSE, FALSE, ct, fr, exc) : ep \in CInt64EPs, ct \in CtFew, fr \in ByteAll, exc \in Excs}
  \cup {Call(ep, p, "in", FALSE, FALSE, ct, fr, exc) : ep \in CIntDEPs, p \in {2, 9}, ct \in ByteAll, fr \in FrFew, exc \in Excs}
  \cup {Call(ep, p, "in", FALSE, FALSE, ct, fr, exc) : ep \in CIntDEPs, p \in {2, 9}, ct \in CtFew, fr \in ByteAll, exc \in Excs}
  \cup {Call(ep, p, "in", FALSE, FALSE, ct, fr, exc) : ep \in CIntDEPs, p \in PrecAll, ct \in CtFew, fr \in FrFew, exc \in Excs}
  \cup {Call(ep, p, "in", FALSE, FALSE, 2, 1, exc) : ep \in CPtrEPs, p \in PrecAll, exc \in Excs}

ErrTable == [a \in Dom |-> Required(a)]

(* ---------------------------------------------------------------- observations *)
(* what the harness measures on one call:                                              *)
(*   th  0 no exception, else a code for the exception seen (1,2,4,32,64 = the five     *)
(*       documented Clipper2Exception messages, 98 other Clipper2Exception, 99 other)   *)
(*   err value of ErrorCode() / of the error_code argument after the call, -1 if the    *)
(*       entry point has no such channel                                                *)
(*   ret return value of an int-returning C export (0 otherwise)                        *)
(*   n   size of the result (paths / top-level tree nodes / points), 0 when null        *)
(*   nul 1 iff a C export returned a null array                                         *)
(*   unt 1 iff the solution arguments of an int-returning C export still hold the       *)
(*       sentinel they were initialised with                                            *)
(*   cr  1 iff the call did not return at all (the process died in it: signal)          *)
Obs(th, err, ret, n, nul, unt, cr) == [th |-> th, err |-> err, ret |-> ret, n |-> n, nul |-> nul, unt |-> unt, cr |-> cr]

(* does observation o exhibit outcome oc?  (nmin = least size of a normal result,       *)
(* nmax = greatest: both come from the fixture the call was made on, see GenC11)        *)
Exhibits(oc, o, nmin, nmax) ==
  /\ o.cr = 0      \* a call that kills the process exhibits no outcome at all
  /\ CASE oc = "normal"    -> o.th = 0 /\ o.err <= 0 /\ o.ret = 0 /\ o.nul = 0 /\ o.unt = 0 /\ o.n >= nmin /\ o.n <= nmax
        [] oc = "exception" -> o.th # 0
        [] oc = "errcode"   -> o.th = 0 /\ o.err > 0
        [] oc = "empty"     -> o.th = 0 /\ o.n = 0
        [] oc = "negative"  -> o.th = 0 /\ o.ret < 0 /\ o.unt = 1
        [] oc = "null"      -> o.th = 0 /\ o.nul = 1

(* "reported" in the sense of the statement: some channel the entry point has says so *)
Reported(a, o) == \/ o.th # 0
                  \/ o.err > 0
                  \/ o.ret < 0
                  \/ o.nul = 1
                  \/ (a.exc = 0 /\ a.ep \in NoChanEPs /\ o.n = 0)
=============================================================================
