------------------------------- MODULE Fill -------------------------------
(* Layer 0: fill rules and clip types, written from the documented semantics.       *)
(* Enumerations use the library's numeric values so trace fields bind directly:     *)
(* ClipType  0 NoClip 1 Intersection 2 Union 3 Difference 4 Xor                      *)
(* FillRule  0 EvenOdd 1 NonZero 2 Positive 3 Negative                                *)
EXTENDS Integers

ClipTypes == 0..4
FillRules == 0..3

Filled(fr, w) == CASE fr = 0 -> w % 2 # 0
                   [] fr = 1 -> w # 0
                   [] fr = 2 -> w > 0
                   [] fr = 3 -> w < 0

Combine(ct, s, c) == CASE ct = 0 -> FALSE
                       [] ct = 1 -> s /\ c
                       [] ct = 2 -> s \/ c
                       [] ct = 3 -> s /\ ~c
                       [] ct = 4 -> s # c

InResult(ct, fr, ws, wc) == Combine(ct, Filled(fr, ws), Filled(fr, wc))

(* open subject pieces kept: ws = winding of the CLOSED subjects, wc of the clips *)
KeepOpen(ct, fr, ws, wc) == CASE ct = 0 -> FALSE
                              [] ct = 1 -> Filled(fr, wc)
                              [] ct = 2 -> ~Filled(fr, ws) /\ ~Filled(fr, wc)
                              [] ct = 3 -> ~Filled(fr, wc)
                              [] ct = 4 -> ~Filled(fr, wc)

MirrorFR(fr) == CASE fr = 2 -> 3 [] fr = 3 -> 2 [] OTHER -> fr    \* under negation of all windings

Expected(ct, fr, rs, ws, wc) == IF InResult(ct, fr, ws, wc) THEN (IF rs = 1 THEN -1 ELSE 1) ELSE 0

=============================================================================
