CONSTANT N = 3
CONSTANT K = 4
CONSTANT MinLen = 0
SPECIFICATION Spec
CHECK_DEADLOCK FALSE
INVARIANTS PostOK Bounded DistFresh ShortOK
