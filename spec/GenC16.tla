------------------------------ MODULE GenC16 ------------------------------
(* Generator (C16): for every scale family and every precision -8..8 the pool of        *)
(* rounding-critical input coordinates - the dyadic rationals x = n / 2^e whose scaled   *)
(* value x * S runs over the quarters q/4 (family "D" and "T" with p <= 0) resp.        *)
(* q * 5^p / 4 (family "T", p > 0; the dyadic x = q / 2^(p+2)), q in -Q..Q: integers,    *)
(* quarters, three-quarters and exact halves of both signs, i.e. every rounding case.    *)
(* Coordinates the specification would not judge (ambiguity band of C16Scale: exact ties *)
(* under the inexact scale 10^p, p < 0) are left out here, by the specification itself.  *)
(* The expected scaled integers are NOT written: C16Trace recomputes them.               *)
EXTENDS C16Scale, TLC, Json, IOUtils, FiniteSets, SequencesExt
CONSTANT Q
Qs == (-Q)..Q
CoordOf(fam, p, q) ==
  IF fam = "D" THEN LET k == SDTab[p] IN IF k + 2 >= 0 THEN <<q, k + 2>> ELSE <<q * 2 ^ (-(k + 2)), 0>>
  ELSE IF p >= 0 THEN <<q, p + 2>>
  ELSE <<q * 10 ^ (-p), 2>>
Judged(fam, p, c) == ~Amb(Mag(WideOfInt(c[1])), c[2], fam, p)
Pool(fam, p) == {c \in {CoordOf(fam, p, q) : q \in Qs} : Judged(fam, p, c)}
Cases == {[fam |-> fam, p |-> p, cs |-> SetToSeq(Pool(fam, p))] : fam \in {"D", "T"}, p \in PrecRange}
(* every pool contains exact ties wherever the scale is a double, and quarters everywhere *)
IsTie(fam, p, c) == LET f == Frac(Mag(WideOfInt(c[1])), c[2], fam, p)  D == Den(f)  M == SRMagF(f)
                    IN M # <<>> /\ MulS(f.N, 2) = Mul(Sub(MulS(M, 2), <<1>>), D)        \* x * S = M - 1/2
ASSUME \A fam \in {"D", "T"}, p \in PrecRange : (fam = "D" \/ p >= 0) => \E c \in Pool(fam, p) : IsTie(fam, p, c)
ASSUME \A p \in PrecRange : p < 0 => ~\E c \in Pool("T", p) : IsTie("T", p, c)
ASSUME \A fam \in {"D", "T"}, p \in PrecRange : Cardinality(Pool(fam, p)) >= Q
ASSUME ndJsonSerialize(IOEnv.OUT, SetToSeq(Cases))
ASSUME PrintT(<<"OUT", Cardinality(Cases), Cardinality(UNION {Pool(fam, p) : fam \in {"D", "T"}, p \in PrecRange})>>)
VARIABLE z
Init == z = 0
Next == z' = z
=============================================================================
