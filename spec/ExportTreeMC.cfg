CONSTANTS Z = 0
SPECIFICATION Spec
INVARIANT InvTree
CHECK_DEADLOCK FALSE
