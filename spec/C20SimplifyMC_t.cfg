CONSTANT N = 3
CONSTANT K = 5
CONSTANT MinLen = 4
SPECIFICATION Spec
CHECK_DEADLOCK FALSE
INVARIANTS PostOK Bounded DistFresh ShortOK
