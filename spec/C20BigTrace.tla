---------------------------- MODULE C20BigTrace ----------------------------
(* Layer 3 (C20): TrimCollinear on NEAR-collinear paths with large coordinates (edge     *)
(* components 2^26 .. 2^42), where a corner's exact cross product may be 0, +-1, +-2, ..  *)
(* while the two products forming it need far more than 53 bits.  Coordinates travel in   *)
(* the C18BigInt wire format [sign, 12-bit limbs]; every cross product, dot product and   *)
(* area is formed exactly by C18BigInt / C18Defs (CrossSign3, Area2B).  Event:            *)
(*   Big - closed flag c, input path p, out = TrimCollinear(p, !c), out2 = the second     *)
(*         application, v = which overload (64 / D0 = PathD with precision 0)             *)
(* Clauses (same contract as PathUtils!TrimFails, evaluated with big integers):           *)
(*   result is a subsequence; open paths keep both ends; closed paths keep Area2B;        *)
(*   on the clean class (no repeated neighbours, no 180-degree reversal) the result is    *)
(*   exactly the list of vertices with non-zero exact cross product (ends of an open      *)
(*   path included) and the second application changes nothing.                           *)
EXTENDS C18Defs, Json, IOUtils

VARIABLES l, st
vars == <<l, st>>
Tr == ndJsonDeserialize(IOEnv.TRACE)
Ev == Tr[l]
Report(clause, d) == PrintT(<<"FAIL", "C20", l, clause, d>>)

WirePtOK(w) == Len(w) = 2 /\ WireOK(w[1]) /\ WireOK(w[2])
PathB(ws) == [i \in 1..Len(ws) |-> <<FromWire(ws[i][1]), FromWire(ws[i][2])>>]

RECURSIVE SubseqFrom(_, _, _, _)
SubseqFrom(out, in, i, j) ==
  IF i > Len(out) THEN TRUE
  ELSE IF j > Len(in) THEN FALSE
  ELSE IF out[i] = in[j] THEN SubseqFrom(out, in, i + 1, j + 1)
  ELSE SubseqFrom(out, in, i, j + 1)
Subseq(out, in) == SubseqFrom(out, in, 1, 1)
EndsKept(out, in) ==
  IF Len(in) <= 1 THEN out = in
  ELSE /\ Len(out) >= 2 /\ out[1] = in[1] /\ out[Len(out)] = in[Len(in)]
       /\ Subseq(SubSeq(out, 2, Len(out) - 1), SubSeq(in, 2, Len(in) - 1))

PrvI(i, n) == ((i + n - 2) % n) + 1
NxtI(i, n) == (i % n) + 1
HasNb(n, closed, i) == IF closed THEN n >= 1 ELSE 1 < i /\ i < n
(* exact cross product (b - a) x (c - b) as a big integer *)
CrossB(a, b, c) == LET d == Diffs(a, b, c) IN Sub(Mul(d[1], d[2]), Mul(d[3], d[4]))
(* both neighbours on the same side of b *)
DotPos(a, b, c) == Sg(Add(Mul(Sub(a[1], b[1]), Sub(c[1], b[1])), Mul(Sub(a[2], b[2]), Sub(c[2], b[2])))) > 0

Analyse(P, closed) ==
  LET n == Len(P)
      cr == [i \in 1..n |-> IF HasNb(n, closed, i) THEN CrossB(P[PrvI(i, n)], P[i], P[NxtI(i, n)]) ELSE FromInt(1)]
      rep(i) == IF closed THEN P[i] = P[NxtI(i, n)] ELSE i < n /\ P[i] = P[i + 1]
      rev(i) == HasNb(n, closed, i) /\ Sg(cr[i]) = 0 /\ DotPos(P[PrvI(i, n)], P[i], P[NxtI(i, n)])
  IN [ cr |-> cr,
       clean |-> n >= (IF closed THEN 3 ELSE 2) /\ \A i \in 1..n : ~rep(i) /\ ~rev(i),
       tiny |-> \E i \in 1..n : HasNb(n, closed, i) /\ Sg(cr[i]) # 0 /\ AbsLe(cr[i], FromInt(64)) ]
RECURSIVE CornersFrom(_, _, _)
CornersFrom(P, cr, i) == IF i > Len(P) THEN <<>>
                         ELSE (IF Sg(cr[i]) # 0 THEN <<P[i]>> ELSE <<>>) \o CornersFrom(P, cr, i + 1)

BigFails(P, closed, out, out2, an) ==
  (IF Subseq(out, P) THEN {} ELSE {"trim_big_not_subsequence"})
  \cup (IF closed \/ EndsKept(out, P) THEN {} ELSE {"trim_big_open_end_dropped"})
  \cup (IF closed /\ Area2B(out) # Area2B(P) THEN {"trim_big_area_changed"} ELSE {})
  \cup (IF an.clean /\ out # CornersFrom(P, an.cr, 1) THEN {"trim_big_not_corners"} ELSE {})
  \cup (IF an.clean /\ out2 # out THEN {"trim_big_not_idempotent"} ELSE {})

TBig ==
  /\ Ev.e = "Big"
  /\ IF \A i \in 1..Len(Ev.p) : WirePtOK(Ev.p[i])
     THEN LET P == PathB(Ev.p)  closed == Ev.c = 1  an == Analyse(P, closed)
          IN /\ st' = <<st[1] + 1, st[2] + (IF an.clean THEN 1 ELSE 0), st[3] + (IF an.clean /\ an.tiny THEN 1 ELSE 0)>>
             /\ \A c \in BigFails(P, closed, PathB(Ev.out), PathB(Ev.out2), an) : Report(c, Ev.id)
     ELSE st' = st /\ Report("bad_wire", Ev.id)
  /\ IF l = Len(Tr) THEN PrintT(<<"NOTE", "STATS", l, st'>>) ELSE TRUE

Init == l = 1 /\ st = <<0, 0, 0>>
Next == l <= Len(Tr) /\ l' = l + 1 /\ TBig
Spec == Init /\ [][Next]_vars
=============================================================================
