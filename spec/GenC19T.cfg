CONSTANT N = 3
CONSTANT PLENS = {2, 3}
CONSTANT ANCHOR = TRUE
INIT Init
NEXT Next
