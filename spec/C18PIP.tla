------------------------------- MODULE C18PIP -------------------------------
(* Design-level model (Layer 2) of the scan performed by PointInPolygon                 *)
(* (clipper.core.h): a single pass over the vertices starting at the first vertex that  *)
(* is not on the scanline y = pt.y, with wrap-around to the vertices before it, the      *)
(* `is_above` side flag, the parity `val`, and the closing test after the loop.  One      *)
(* transition = one iteration of the outer loop.  TLC checks, for ALL polygons with N     *)
(* vertices on the G x G grid (doubled coordinates 0, 2, .., 2(G-1)) and ALL grid and     *)
(* half-grid points, that                                                                 *)
(*   - the scan never dereferences an end iterator (index n + 1) and terminates,          *)
(*   - its answer equals the declarative classification C18Defs!Classify (boundary,       *)
(*     else even-odd) whenever the polygon is not contained in one horizontal line.       *)
(* The polygon and the point are chosen in two steps (first vertex + point, then the      *)
(* remaining vertices) so that TLC's workers share the enumeration.                       *)
EXTENDS C18Defs, Sequences
CONSTANTS G, N
VARIABLES P, pt, pc, first, curr, cend, above, start, val, res, k
sv == <<P, pt, pc, first, curr, cend, above, start, val, res>>
vars == <<sv, k>>

Coord == {2 * i : i \in 0..(G - 1)}
Vtx == Coord \X Coord
Pts == (0..(2 * (G - 1))) \X (0..(2 * (G - 1)))
n == Len(P)
Y(i) == P[i][2]
X(i) == P[i][1]
(* CrossProduct(prev, curr, pt) of the library: (curr - prev) x (pt - curr) *)
CP(i, j) == (X(j) - X(i)) * (pt[2] - Y(j)) - (Y(j) - Y(i)) * (pt[1] - X(j))
PrevOf(i) == IF i = 1 THEN n ELSE i - 1

RECURSIVE SkipEq(_)              \* first index >= i whose y differs from pt.y (n + 1 if none)
SkipEq(i) == IF i <= n /\ Y(i) = pt[2] THEN SkipEq(i + 1) ELSE i
RECURSIVE SkipAbove(_, _)         \* while (curr != cend && curr->y < pt.y) ++curr
SkipAbove(i, e) == IF i # e /\ Y(i) < pt[2] THEN SkipAbove(i + 1, e) ELSE i
RECURSIVE SkipBelow(_, _)
SkipBelow(i, e) == IF i # e /\ Y(i) > pt[2] THEN SkipBelow(i + 1, e) ELSE i

Init == /\ P \in {<<v>> : v \in Vtx} /\ pt \in Pts
        /\ pc = "pick" /\ first = 0 /\ curr = 0 /\ cend = 0 /\ above = FALSE /\ start = FALSE /\ val = 0 /\ res = -1 /\ k = 0

Finish(r) == /\ pc' = "done" /\ res' = r
             /\ UNCHANGED <<P, pt, first, curr, cend, above, start, val>>

Pick == /\ pc = "pick"
        /\ \E rest \in [1..(N - 1) -> Vtx] : P' = P \o rest
        /\ pc' = "enter" /\ UNCHANGED <<pt, first, curr, cend, above, start, val, res>>

Enter == /\ pc = "enter"
         /\ IF n < 3 THEN Finish(PipOut)
            ELSE LET f == SkipEq(1)
                 IN IF f = n + 1 THEN Finish(PipOut)
                    ELSE /\ first' = f /\ above' = (Y(f) < pt[2]) /\ start' = (Y(f) < pt[2])
                         /\ curr' = f + 1 /\ cend' = n + 1 /\ pc' = "loop"
                         /\ UNCHANGED <<P, pt, val, res>>

(* after the loop: the closing test *)
Close(cu, ab, v) ==
  IF ab # start
  THEN LET c1 == IF cu = n + 1 THEN 1 ELSE cu
           d == CP(PrevOf(c1), c1)
       IN IF d = 0 THEN Finish(PipOn)
          ELSE LET v2 == IF (d < 0) = ab THEN 1 - v ELSE v
               IN Finish(IF v2 = 0 THEN PipOut ELSE PipIn)
  ELSE Finish(IF v = 0 THEN PipOut ELSE PipIn)

Loop ==
  /\ pc = "loop"
  /\ LET brk0 == curr = cend /\ (cend = first \/ first = 1)
         wrap == curr = cend /\ ~brk0
         ce == IF wrap THEN first ELSE cend
         c0 == IF wrap THEN 1 ELSE curr
         c1 == IF above THEN SkipAbove(c0, ce) ELSE SkipBelow(c0, ce)
     IN IF brk0 THEN Close(curr, above, val)
        ELSE IF c1 = ce                                         \* `continue` with curr = cend
             THEN /\ curr' = c1 /\ cend' = ce /\ UNCHANGED <<P, pt, pc, first, above, start, val, res>>
        ELSE LET pv == PrevOf(c1)
             IN IF Y(c1) = pt[2]
                THEN IF X(c1) = pt[1] \/ (Y(c1) = Y(pv) /\ ((pt[1] < X(pv)) # (pt[1] < X(c1))))
                     THEN Finish(PipOn)
                     ELSE IF c1 + 1 = first THEN Close(c1 + 1, above, val)
                          ELSE /\ curr' = c1 + 1 /\ cend' = ce /\ UNCHANGED <<P, pt, pc, first, above, start, val, res>>
                ELSE IF pt[1] < X(c1) /\ pt[1] < X(pv)
                     THEN /\ curr' = c1 + 1 /\ cend' = ce /\ above' = ~above
                          /\ UNCHANGED <<P, pt, pc, first, start, val, res>>
                ELSE IF pt[1] > X(pv) /\ pt[1] > X(c1)
                     THEN /\ curr' = c1 + 1 /\ cend' = ce /\ above' = ~above /\ val' = 1 - val
                          /\ UNCHANGED <<P, pt, pc, first, start, res>>
                ELSE LET d == CP(pv, c1)
                     IN IF d = 0 THEN Finish(PipOn)
                        ELSE /\ curr' = c1 + 1 /\ cend' = ce /\ above' = ~above
                             /\ val' = IF (d < 0) = above THEN 1 - val ELSE val
                             /\ UNCHANGED <<P, pt, pc, first, start, res>>

Next == ((Pick \/ Enter \/ Loop) /\ k' = k + 1) \/ (pc = "done" /\ UNCHANGED vars)
Spec == Init /\ [][Next]_vars

(* indices that the code dereferences stay inside 1..n; the scan terminates: k counts the transitions and   *)
(* is bounded (Bounded), and only `done` states stutter, so with deadlock checking ON every behaviour      *)
(* reaches `done` within 2n + 4 steps                                                                      *)
InBounds == pc = "loop" => (curr \in 1..(n + 1) /\ cend \in 1..(n + 1) /\ first \in 1..n)
Correct == (pc = "done" /\ PipClass(P)) => res = Classify(P, pt)
(* outside the property's class (fewer than 3 vertices or all on one horizontal line) the documented answer is IsOutside *)
Degenerate == (pc = "done" /\ Len(P) = N /\ ~PipClass(P) /\ (\A i \in 1..n : Y(i) # pt[2])) => res = PipOut
Bounded == k <= 2 * N + 4
=============================================================================
