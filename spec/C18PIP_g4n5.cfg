CONSTANT G = 4
CONSTANT N = 5
CONSTANT LB = 12
SPECIFICATION Spec
INVARIANT InBounds
INVARIANT Correct
INVARIANT Degenerate
INVARIANT Bounded
CHECK_DEADLOCK TRUE
