------------------------------ MODULE C19Scope ------------------------------
(* C19: the small exhaustive scope, shared by the generator (GenC19) and the design-level  *)
(* model (C19Mink): triangle patterns x 2- and 3-vertex paths on the N x N lattice.         *)
(*   Tris      all ordered non-collinear vertex triples (every start vertex, both           *)
(*             orientations)                                                                *)
(*   PathsN(n) all sequences of n pairwise distinct lattice points (collinear and           *)
(*             back-tracking ones included)                                                 *)
(* ANCHOR = TRUE keeps one representative per translation class (least x = least y = 0):    *)
(* a translation of the pattern or the path only translates the result (checked separately  *)
(* by the embeddings of the trace family).                                                  *)
EXTENDS Geom
CONSTANTS N, PLENS, ANCHOR

Lat == (0..(N - 1)) \X (0..(N - 1))
Anchored(P) == (\E i \in 1..Len(P) : P[i][1] = 0) /\ (\E i \in 1..Len(P) : P[i][2] = 0)
Keep(P) == ANCHOR => Anchored(P)
Tris == {t \in Lat \X Lat \X Lat : Cross(t[1], t[2], t[3]) # 0 /\ Keep(t)}
Paths2 == {p \in Lat \X Lat : p[1] # p[2] /\ Keep(p)}
Paths3 == {p \in Lat \X Lat \X Lat : p[1] # p[2] /\ p[2] # p[3] /\ p[1] # p[3] /\ Keep(p)}
ScopePaths == (IF 2 \in PLENS THEN Paths2 ELSE {}) \cup (IF 3 \in PLENS THEN Paths3 ELSE {})
=============================================================================
