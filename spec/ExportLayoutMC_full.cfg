CONSTANTS MaxP = 2 MaxV = 3 Z = 0 Full = 1
SPECIFICATION Spec
INVARIANTS InvPaths InvPathsAll InvPath
CHECK_DEADLOCK FALSE
