CONSTANT N = 3
CONSTANT K = 6
INIT Init
NEXT Next
