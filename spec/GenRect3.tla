------------------------------ MODULE GenRect3 ------------------------------
(* Generator (C02, C04): the complete scope of THREE oriented axis-parallel rectangles on the N x N unit   *)
(* lattice, split 1 + 2 and 2 + 1 between subject and clip (coincident copies, cancelling pairs, shared      *)
(* corners and edges all included): 2 * (2 * R)^3 inputs, R = (N(N+1)/2)^2.                                 *)
EXTENDS Integers, Sequences, FiniteSets, TLC, Json, IOUtils, SequencesExt
CONSTANT N
Rects == {<<x1, y1, x2, y2>> \in (0..N) \X (0..N) \X (0..N) \X (0..N) : x1 < x2 /\ y1 < y2}
Ring(r, pos) == IF pos THEN <<<<r[1], r[2]>>, <<r[3], r[2]>>, <<r[3], r[4]>>, <<r[1], r[4]>>>>
                ELSE <<<<r[1], r[4]>>, <<r[3], r[4]>>, <<r[3], r[2]>>, <<r[1], r[2]>>>>
O == {Ring(r, s) : r \in Rects, s \in BOOLEAN}
Cases == {[subj |-> <<a>>, clip |-> <<b, c>>] : a \in O, b \in O, c \in O} \cup {[subj |-> <<a, b>>, clip |-> <<c>>] : a \in O, b \in O, c \in O}
ASSUME ndJsonSerialize(IOEnv.OUT, SetToSeq(Cases))
ASSUME PrintT(<<"OUT", Cardinality(Cases)>>)
VARIABLE z
Init == z = 0
Next == z' = z
=============================================================================
