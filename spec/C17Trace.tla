------------------------------ MODULE C17Trace ------------------------------
(* C17 trace specification: the C export layer marshals faithfully and forwards every        *)
(* parameter.  Consumes an ndjson log of the real library (env TRACE; env Z = "1" for USINGZ  *)
(* builds).  Array elements and coordinates are logged as raw 64-bit cells <<hi22, mid21,     *)
(* lo21>> so that int64 and IEEE double contents are compared exactly by TLC.                 *)
(*   Hdr / Cells  build flags; self-test of the cell model (ICell / DCell below)              *)
(*   Lay          a path set, the array the library's Create* made of it, Convert*(array)      *)
(*   Cvt          an array written by TLC (EncPathsAll / EncPath), what Convert* read from it  *)
(*   LayT         a PolyTree, the array CreateCPolyTree* made of it                            *)
(*   Case         one (exported function, input): the native inputs and the input arrays       *)
(*   NOut / XOut  a distinct native result / a distinct exported result (arrays verbatim)      *)
(*   Runs         for the FULL product of the argument domains of C17Forward!Fns (row-major):  *)
(*                which NOut each native argument tuple gave, which XOut each exported call    *)
(*   Crash        the process died inside a monitored call (ASan/UBSan trap, signal)           *)
(* Verdicts (all computed here): exported array = ExportLayout!Enc*(result of the native call  *)
(* named by C17Forward!Forward), null only for an empty result, stated length = elements =     *)
(* allocation, round trip = NonEmpty; non-vacuity (flipping a parameter changes the native     *)
(* result) is certified per run and reported as NOTE lines.                                    *)
EXTENDS C17Forward, FiniteSets, TLC, Json, IOUtils

VARIABLES l, cs, nouts, xouts
vars == <<l, cs, nouts, xouts>>
Tr == ndJsonDeserialize(IOEnv.TRACE)
Ev == Tr[l]
ZDim == IF IOEnv.Z = "1" THEN 3 ELSE 2

Report(prop, clause, d) == PrintT(<<"FAIL", prop, l, clause, d>>)
Chk(c, prop, clause, d) == IF c THEN TRUE ELSE Report(prop, clause, d)
Note(kind, d) == PrintT(<<"NOTE", kind, l, d>>)

(* ------------------------------------------------------------------ the cell model *)
W21 == 2097152
HiOnes == 4194303
Pow2(e) == 2 ^ e
(* two's complement int64 n, |n| < 2^30 *)
ICell(n) == <<IF n < 0 THEN HiOnes ELSE 0, (n \div W21) % W21, n % W21>>
BadVal == -1000000000
IVal(c) == IF c[1] = 0 /\ c[2] < 512 THEN c[2] * W21 + c[3]
           ELSE IF c[1] = HiOnes /\ c[2] >= W21 - 512 THEN (c[2] - W21) * W21 + c[3]
           ELSE BadVal
(* IEEE-754 binary64 of the integer n, |n| < 2^21: sign | 1023+e | fraction *)
Log2(n) == CHOOSE e \in 0..20 : Pow2(e) <= n /\ n < Pow2(e + 1)
DCellPos(n) == LET e == Log2(n)  m == n - Pow2(e)
               IN IF e <= 10 THEN <<(1023 + e) * 1024 + m * Pow2(10 - e), 0, 0>>
                  ELSE <<(1023 + e) * 1024 + (m \div Pow2(e - 10)), (m % Pow2(e - 10)) * Pow2(31 - e), 0>>
DCell(n) == IF n = 0 THEN <<0, 0, 0>> ELSE IF n > 0 THEN DCellPos(n) ELSE LET c == DCellPos(-n) IN <<c[1] + W21, c[2], c[3]>>
DVal(c) == IF c = <<0, 0, 0>> THEN 0
           ELSE LET neg == c[1] >= W21
                    h == IF neg THEN c[1] - W21 ELSE c[1]
                    e == (h \div 1024) - 1023
                IN IF e < 0 \/ e > 20 THEN BadVal
                   ELSE LET m == IF e <= 10 THEN (h % 1024) \div Pow2(10 - e) ELSE (h % 1024) * Pow2(e - 10) + (c[2] \div Pow2(31 - e))
                            n == IF neg THEN -(Pow2(e) + m) ELSE Pow2(e) + m
                        IN IF DCell(n) = c THEN n ELSE BadVal

L64 == INSTANCE ExportLayout WITH K <- ICell, KInv <- IVal, Dim <- ZDim
LD == INSTANCE ExportLayout WITH K <- DCell, KInv <- DVal, Dim <- ZDim
EncPathsK(kind, ps) == IF kind = "64" THEN L64!EncPaths(ps) ELSE LD!EncPaths(ps)
EncPathK(kind, p) == IF kind = "64" THEN L64!EncPath(p) ELSE LD!EncPath(p)
EncTreeK(kind, t) == IF kind = "64" THEN L64!EncTree(t) ELSE LD!EncTree(t)
DecPathsK(kind, a) == IF kind = "64" THEN L64!DecPaths(a) ELSE LD!DecPaths(a)
DecPathK(kind, a) == IF kind = "64" THEN L64!DecPath(a) ELSE LD!DecPath(a)
DecEndK(kind, a) == IF kind = "64" THEN L64!DecPathsEnd(a) ELSE LD!DecPathsEnd(a)
CntK(kind, c) == IF kind = "64" THEN IVal(c) ELSE DVal(c)
(* x, y of int64 vertices as double cells and back (z is a raw 64-bit copy in both layouts) *)
MapXY(ps, f(_)) == [k \in 1..Len(ps) |-> [i \in 1..Len(ps[k]) |-> [d \in 1..Len(ps[k][i]) |-> IF d <= 2 THEN f(ps[k][i][d]) ELSE ps[k][i][d]]]]
I2D(c) == DCell(IVal(c))
D2I(c) == ICell(DVal(c))

(* an exported array against the cells it must hold; returns the failing clause or "ok" *)
ArrClause(x, enc, emptyOK, dflt) ==
  IF x.nul = 1 THEN (IF emptyOK THEN "ok" ELSE dflt)
  ELSE IF x.bad # 0 THEN "length_field"
  ELSE IF x.alloc = -2 \/ (x.alloc >= 0 /\ x.alloc # Len(x.cells)) THEN "alloc_vs_length"
  ELSE IF x.cells = enc THEN "ok" ELSE dflt

(* ------------------------------------------------------------------ header, cell self-test *)
THdr == /\ Ev.e = "Hdr"
        /\ UNCHANGED <<cs, nouts, xouts>>
        /\ Chk(Ev.z = ZDim - 2, "HARNESS", "z_flag", Ev.z)
TCells == /\ Ev.e = "Cells"
          /\ UNCHANGED <<cs, nouts, xouts>>
          /\ LET bad == {i \in 1..Len(Ev.x) : LET n == Ev.x[i][1] IN
                            ~(ICell(n) = Ev.x[i][2] /\ DCell(n) = Ev.x[i][3] /\ IVal(Ev.x[i][2]) = n /\ DVal(Ev.x[i][3]) = n)}
             IN Chk(bad = {}, "HARNESS", "cell_model", bad)

(* ------------------------------------------------------------------ layout events *)
TLay ==
  /\ Ev.e = "Lay"
  /\ UNCHANGED <<cs, nouts, xouts>>
  /\ LET ps == Ev.ps
         dimok == L64!PathsOK(ps)
     IN IF ~dimok THEN Report("HARNESS", "vertex_dim", Ev.id)
        ELSE LET src == IF Ev.via = "D64" THEN MapXY(ps, I2D) ELSE ps
                 ne == L64!NonEmpty(ps)
                 c == ArrClause(Ev.arr, EncPathsK(Ev.kind, src), ne = <<>>, "create_layout")
             IN /\ Chk(c = "ok", "C17", c, <<Ev.id, Ev.kind, Ev.via>>)
                /\ Chk(Ev.back = ne, "C17", "roundtrip", <<Ev.id, Ev.kind, Ev.via>>)
TCvt ==
  /\ Ev.e = "Cvt"
  /\ UNCHANGED <<cs, nouts, xouts>>
  /\ LET a == Ev.arr.cells
         whole == Ev.via \in {"T", "D64"}
         wf == IF whole THEN Len(a) >= 2 /\ CntK(Ev.kind, a[1]) = Len(a) /\ DecEndK(Ev.kind, a) = Len(a) + 1
               ELSE Len(a) >= 2 /\ 3 + CntK(Ev.kind, a[1]) * ZDim = Len(a) + 1
     IN IF ~wf THEN Report("HARNESS", "generated_array_malformed", Ev.id)
        ELSE LET exp == CASE Ev.via = "T" -> DecPathsK(Ev.kind, a)
                          [] Ev.via = "D64" -> MapXY(LD!DecPaths(a), D2I)
                          [] Ev.via = "P" -> <<DecPathK(Ev.kind, a)>>
                          [] Ev.via = "PD64" -> MapXY(<<LD!DecPath(a)>>, D2I)
             IN Chk(Ev.back = exp, "C17", "convert_layout", <<Ev.id, Ev.kind, Ev.via>>)
TLayT ==
  /\ Ev.e = "LayT"
  /\ UNCHANGED <<cs, nouts, xouts>>
  /\ IF ~L64!TreeOK(Ev.t) THEN Report("HARNESS", "vertex_dim", Ev.id)
     ELSE LET c == ArrClause(Ev.arr, EncTreeK(Ev.kind, Ev.t), Len(Ev.t) = 0, "tree_layout")
          IN Chk(c = "ok", "C17", c, <<Ev.id, Ev.kind>>)

(* ------------------------------------------------------------------ forwarding events *)
TCase ==
  /\ Ev.e = "Case"
  /\ nouts' = <<>> /\ xouts' = <<>>
  /\ IF Ev.fn \notin FnNames THEN cs' = <<>> /\ Report("HARNESS", "unknown_function", Ev.fn)
     ELSE LET F == FnRec(Ev.fn)  kind == F.kind
              dimok == L64!PathsOK(Ev.na) /\ L64!PathsOK(Ev.nb) /\ L64!PathsOK(Ev.nc)
              First(ps) == IF Len(ps) = 0 THEN <<>> ELSE ps[1]
          IN /\ cs' = [fn |-> Ev.fn, g |-> Ev.g, id |-> Ev.id, F |-> F, kind |-> kind, nst |-> Strides(F.n), xst |-> Strides(F.x),
                       sl |-> FwdSlots(F), cn |-> FwdConst(F)]
             /\ Chk(dimok, "HARNESS", "vertex_dim", Ev.g)
             /\ dimok =>
                  IF Ev.single = 1
                  THEN /\ Chk(Ev.xa.cells = EncPathK(kind, First(Ev.na)), "HARNESS", "input_cpath", Ev.g)
                       /\ (F.cls = "mink" => Chk(Ev.xb.cells = EncPathK(kind, First(Ev.nb)), "HARNESS", "input_cpath", Ev.g))
                  ELSE LET ca == ArrClause(Ev.xa, EncPathsK(kind, Ev.na), FALSE, "create_layout")
                           cb == IF F.cls = "bool" THEN ArrClause(Ev.xb, EncPathsK(kind, Ev.nb), FALSE, "create_layout") ELSE "ok"
                           cc == IF F.cls = "bool" THEN ArrClause(Ev.xc, EncPathsK(kind, Ev.nc), FALSE, "create_layout") ELSE "ok"
                       IN /\ Chk(ca = "ok", "C17", ca, <<Ev.g, "input a">>)
                          /\ Chk(cb = "ok", "C17", cb, <<Ev.g, "input b">>)
                          /\ Chk(cc = "ok", "C17", cc, <<Ev.g, "input c">>)

TNOut ==
  /\ Ev.e = "NOut"
  /\ Ev.k = Len(nouts) + 1
  /\ UNCHANGED <<cs, xouts>>
  /\ LET kind == cs.kind
         ok == (IF Ev.t = 1 THEN L64!TreeOK(Ev.a) ELSE L64!PathsOK(Ev.a)) /\ L64!PathsOK(Ev.b)
     IN IF ~ok THEN nouts' = Append(nouts, [ok |-> -1]) /\ Report("HARNESS", "vertex_dim", Ev.k)
        ELSE nouts' = Append(nouts,
               [ok |-> Ev.ok,
                enca |-> IF Ev.t = 1 THEN EncTreeK(kind, Ev.a) ELSE EncPathsK(kind, Ev.a),
                aempty |-> IF Ev.t = 1 THEN Len(Ev.a) = 0 ELSE L64!NonEmpty(Ev.a) = <<>>,
                encb |-> EncPathsK(kind, Ev.b),
                bempty |-> L64!NonEmpty(Ev.b) = <<>>])
TXOut ==
  /\ Ev.e = "XOut"
  /\ Ev.j = Len(xouts) + 1
  /\ UNCHANGED <<cs, nouts>>
  /\ xouts' = Append(xouts, [ret |-> Ev.ret, a |-> Ev.a, b |-> Ev.b])

(* one exported result against one native result: "ok" or the failing clause *)
Judge(x, n) ==
  IF n.ok = -1 THEN "ok"                                           \* native result not representable: reported as HARNESS above
  ELSE IF ~((n.ok = 1 /\ x.ret = 0) \/ (n.ok = 0 /\ x.ret = -1)) THEN "return_code"
  ELSE IF x.ret # 0 THEN "ok"
  ELSE LET ca == ArrClause(x.a, n.enca, n.aempty, "mismatch")
       IN IF ca # "ok" THEN ca ELSE ArrClause(x.b, n.encb, n.bempty, "mismatch")

Clauses == {"forward_mismatch", "inflate_rs_in_pc_slot", "inflateD_arc_tolerance_unscaled", "return_code", "length_field", "alloc_vs_length"}

TRuns ==
  /\ Ev.e = "Runs"
  /\ UNCHANGED <<cs, nouts, xouts>>
  /\ LET F == cs.F
         NX == Size(F.x)  NN == Size(F.n)
         shape == Len(Ev.xj) = NX /\ Len(Ev.nk) = NN /\ Ev.fn = cs.fn /\ Ev.g = cs.g
                  /\ (\A i \in 1..NX : Ev.xj[i] \in 1..Len(xouts)) /\ (\A i \in 1..NN : Ev.nk[i] \in 1..Len(nouts))
     IN IF ~shape THEN Report("HARNESS", "runs_shape", Ev.g)
        ELSE
        LET XA(n) == TupleAt(F.x, cs.xst, n)
            NA(n) == ForwardV(cs.sl, cs.cn, XA(n))                       \* the native call this exported call stands for
            NkAt(na) == Ev.nk[IndexOf(F.n, cs.nst, na) + 1]
            XOf(n) == xouts[Ev.xj[n + 1]]
            J(n) == Judge(XOf(n), nouts[NkAt(NA(n))])
            bad == {n \in 0..(NX - 1) : J(n) # "ok"}
            spc == NSlot(F, "pc")  srs == NSlot(F, "rs")  satu == NSlot(F, "atu")
            infl == F.cls \in {"infl", "infl1"}
            Dev(na, pcv, rsv, atuv) == [i \in 1..Len(na) |-> IF i = spc THEN pcv ELSE IF i = srs THEN rsv ELSE IF i = satu THEN atuv ELSE na[i]]
            Like(n, na2) == Judge(XOf(n), nouts[NkAt(na2)]) = "ok"
            ClausesOf(n) ==
              LET j == J(n)  na == NA(n) IN
              IF j # "mismatch" THEN {j}
              ELSE IF ~infl THEN {"forward_mismatch"}
              ELSE LET rs == na[srs]
                       s4 == rs = 1 /\ Like(n, Dev(na, 1, 0, 0))
                       at == satu > 0 /\ Like(n, Dev(na, 0, rs, 1))
                       both == satu > 0 /\ rs = 1 /\ Like(n, Dev(na, 1, 0, 1))
                       c == (IF s4 \/ both THEN {"inflate_rs_in_pc_slot"} ELSE {}) \cup (IF at \/ both THEN {"inflateD_arc_tolerance_unscaled"} ELSE {})
                   IN IF c = {} THEN {"forward_mismatch"} ELSE c
            (* non-vacuity: does changing native parameter i (alone) change the native result of run n ? *)
            Sens(n, i) == LET na == NA(n)  kb == NkAt(na)
                          IN \E p \in 1..Len(F.n[i].d) :
                               LET v == F.n[i].d[p]  k2 == NkAt([na EXCEPT ![i] = v])
                               IN v # na[i] /\ k2 # kb /\ nouts[k2] # nouts[kb]
            sens == [i \in 1..Len(F.n) |-> Cardinality({n \in 0..(NX - 1) : Sens(n, i)})]
            nt == Cardinality({n \in 0..(NX - 1) : LET nr == nouts[NkAt(NA(n))] IN
                                 (~nr.aempty \/ ~nr.bempty) /\ \E i \in 1..Len(F.n) : cs.sl[i] > 0 /\ Sens(n, i)})
        IN /\ Chk(Ev.litbad = 0, "HARNESS", "native_recipe_differs_from_InflatePaths", <<Ev.g, Ev.litbad, Ev.litn>>)
           /\ Note("SENS", <<cs.fn, cs.id, NX, nt, [i \in 1..Len(F.n) |-> <<F.n[i].n, sens[i]>>]>>)
           /\ IF bad = {} THEN TRUE
              ELSE \A c \in Clauses :
                     LET S == {n \in bad : c \in ClausesOf(n)}
                     IN IF S = {} THEN TRUE
                        ELSE LET n0 == CHOOSE n \in S : \A m \in S : n <= m
                             IN Report("C17", c, <<cs.fn, cs.id, Cardinality(S), XA(n0)>>)

TCrash ==
  /\ Ev.e = "Crash"
  /\ cs' = <<>> /\ nouts' = <<>> /\ xouts' = <<>>
  /\ IF Ev.ph = "export" THEN Report("C17", "crash_in_export_call", <<Ev.fn, Ev.g, Ev.args>>)
     ELSE Report("HARNESS", "native_crash", <<Ev.fn, Ev.g, Ev.args>>)

Init == l = 1 /\ cs = <<>> /\ nouts = <<>> /\ xouts = <<>>
Next == /\ l <= Len(Tr)
        /\ l' = l + 1
        /\ (THdr \/ TCells \/ TLay \/ TCvt \/ TLayT \/ TCase \/ TNOut \/ TXOut \/ TRuns \/ TCrash)
Spec == Init /\ [][Next]_vars
=============================================================================
