------------------------------ MODULE C17Trace ------------------------------
(* C17 trace specification: the C export layer marshals faithfully and forwards every        *)
(* parameter.  Consumes an ndjson log of the real library (env TRACE; env Z = "1" for USINGZ  *)
(* builds).  Array elements and coordinates are logged as raw 64-bit cells <<hi22, mid21,     *)
(* lo21>> so that int64 and IEEE double contents are compared exactly by TLC.                 *)
(*   Hdr / Cells  build flags; self-test of the cell model (ICell / DCell below)              *)
(*   Lay          a path set, the array the library's Create* made of it, Convert*(array)      *)
(*   Cvt          an array written by TLC (EncPathsAll / EncPath), what Convert* read from it  *)
(*   LayT         a PolyTree, the array CreateCPolyTree* made of it                            *)
(*   Case         one (exported function, input): the native inputs and the input arrays       *)
(*   NOut / XOut  a distinct native result / a distinct exported result (arrays verbatim)      *)
(*   Runs         for the FULL product of the argument domains of C17Forward!Fns (row-major):  *)
(*                which NOut each native argument tuple gave, which XOut each exported call    *)
(*   Crash        the process died inside a monitored call (ASan/UBSan trap, signal)           *)
(* Verdicts (all computed here): exported array = ExportLayout!Enc*(result of the native call  *)
(* named by C17Forward!Forward), null only for an empty result, stated length = elements =     *)
(* allocation, round trip = NonEmpty; non-vacuity (flipping a parameter changes the native     *)
(* result) is certified per run and reported as NOTE lines.                                    *)
EXTENDS C17Forward, FiniteSets, TLC, Json, IOUtils

VARIABLES l, cs
vars == <<l, cs>>
Tr == ndJsonDeserialize(IOEnv.TRACE)
Ev == Tr[l]
ZDim == IF IOEnv.Z = "1" THEN 3 ELSE 2

Report(prop, clause, d) == PrintT(<<"FAIL", prop, l, clause, d>>)
Chk(c, prop, clause, d) == IF c THEN TRUE ELSE Report(prop, clause, d)
Note(kind, d) == PrintT(<<"NOTE", kind, l, d>>)

(* ------------------------------------------------------------------ the cell model *)
W21 == 2097152
HiOnes == 4194303
Pow2(e) == 2 ^ e
(* two's complement int64 n, |n| < 2^30 *)
ICell(n) == <<IF n < 0 THEN HiOnes ELSE 0, (n \div W21) % W21, n % W21>>
BadVal == -1000000000
IVal(c) == IF c[1] = 0 /\ c[2] < 512 THEN c[2] * W21 + c[3]
           ELSE IF c[1] = HiOnes /\ c[2] >= W21 - 512 THEN (c[2] - W21) * W21 + c[3]
           ELSE BadVal
(* IEEE-754 binary64 of the integer n, |n| < 2^21: sign | 1023+e | fraction *)
Log2(n) == CHOOSE e \in 0..20 : Pow2(e) <= n /\ n < Pow2(e + 1)
DCellPos(n) == LET e == Log2(n)  m == n - Pow2(e)
               IN IF e <= 10 THEN <<(1023 + e) * 1024 + m * Pow2(10 - e), 0, 0>>
                  ELSE <<(1023 + e) * 1024 + (m \div Pow2(e - 10)), (m % Pow2(e - 10)) * Pow2(31 - e), 0>>
DCell(n) == IF n = 0 THEN <<0, 0, 0>> ELSE IF n > 0 THEN DCellPos(n) ELSE LET c == DCellPos(-n) IN <<c[1] + W21, c[2], c[3]>>
DVal(c) == IF c = <<0, 0, 0>> THEN 0
           ELSE LET neg == c[1] >= W21
                    h == IF neg THEN c[1] - W21 ELSE c[1]
                    e == (h \div 1024) - 1023
                IN IF e < 0 \/ e > 20 THEN BadVal
                   ELSE LET m == IF e <= 10 THEN (h % 1024) \div Pow2(10 - e) ELSE (h % 1024) * Pow2(e - 10) + (c[2] \div Pow2(31 - e))
                            n == IF neg THEN -(Pow2(e) + m) ELSE Pow2(e) + m
                        IN IF DCell(n) = c THEN n ELSE BadVal

L64 == INSTANCE ExportLayout WITH K <- ICell, KInv <- IVal, Dim <- ZDim
LD == INSTANCE ExportLayout WITH K <- DCell, KInv <- DVal, Dim <- ZDim
EncPathsK(kind, ps) == IF kind = "64" THEN L64!EncPaths(ps) ELSE LD!EncPaths(ps)
EncPathK(kind, p) == IF kind = "64" THEN L64!EncPath(p) ELSE LD!EncPath(p)
EncTreeK(kind, t) == IF kind = "64" THEN L64!EncTree(t) ELSE LD!EncTree(t)
DecPathsK(kind, a) == IF kind = "64" THEN L64!DecPaths(a) ELSE LD!DecPaths(a)
DecPathK(kind, a) == IF kind = "64" THEN L64!DecPath(a) ELSE LD!DecPath(a)
DecEndK(kind, a) == IF kind = "64" THEN L64!DecPathsEnd(a) ELSE LD!DecPathsEnd(a)
CntK(kind, c) == IF kind = "64" THEN IVal(c) ELSE DVal(c)
(* x, y of int64 vertices as double cells and back (z is a raw 64-bit copy in both layouts) *)
MapXY(ps, f(_)) == [k \in 1..Len(ps) |-> [i \in 1..Len(ps[k]) |-> [d \in 1..Len(ps[k][i]) |-> IF d <= 2 THEN f(ps[k][i][d]) ELSE ps[k][i][d]]]]
I2D(c) == DCell(IVal(c))
D2I(c) == ICell(DVal(c))

(* an exported array against the cells it must hold; returns the failing clause or "ok" *)
ArrClause(x, enc, emptyOK, dflt) ==
  IF x.nul = 1 THEN (IF emptyOK THEN "ok" ELSE dflt)
  ELSE IF x.bad # 0 THEN "length_field"
  ELSE IF x.alloc = -2 \/ (x.alloc >= 0 /\ x.alloc # Len(x.cells)) THEN "alloc_vs_length"
  ELSE IF x.cells = enc THEN "ok" ELSE dflt

(* ------------------------------------------------------------------ header, cell self-test *)
THdr == /\ Ev.e = "Hdr"
        /\ UNCHANGED cs
        /\ Chk(Ev.z = ZDim - 2, "HARNESS", "z_flag", Ev.z)
TCells == /\ Ev.e = "Cells"
          /\ UNCHANGED cs
          /\ LET bad == {i \in 1..Len(Ev.x) : LET n == Ev.x[i][1] IN
                            ~(ICell(n) = Ev.x[i][2] /\ DCell(n) = Ev.x[i][3] /\ IVal(Ev.x[i][2]) = n /\ DVal(Ev.x[i][3]) = n)}
             IN Chk(bad = {}, "HARNESS", "cell_model", bad)

(* ------------------------------------------------------------------ layout events *)
TLay ==
  /\ Ev.e = "Lay"
  /\ UNCHANGED cs
  /\ LET ps == Ev.ps
         dimok == L64!PathsOK(ps)
     IN IF ~dimok THEN Report("HARNESS", "vertex_dim", Ev.id)
        ELSE LET src == IF Ev.via = "D64" THEN MapXY(ps, I2D) ELSE ps
                 ne == L64!NonEmpty(ps)
                 c == ArrClause(Ev.arr, EncPathsK(Ev.kind, src), ne = <<>>, "create_layout")
             IN /\ Chk(c = "ok", "C17", c, <<Ev.id, Ev.kind, Ev.via>>)
                /\ Chk(Ev.back = ne, "C17", "roundtrip", <<Ev.id, Ev.kind, Ev.via>>)
TCvt ==
  /\ Ev.e = "Cvt"
  /\ UNCHANGED cs
  /\ LET a == Ev.arr.cells
         whole == Ev.via \in {"T", "D64"}
         wf == IF whole THEN Len(a) >= 2 /\ CntK(Ev.kind, a[1]) = Len(a) /\ DecEndK(Ev.kind, a) = Len(a) + 1
               ELSE Len(a) >= 2 /\ 3 + CntK(Ev.kind, a[1]) * ZDim = Len(a) + 1
     IN IF ~wf THEN Report("HARNESS", "generated_array_malformed", Ev.id)
        ELSE LET exp == CASE Ev.via = "T" -> DecPathsK(Ev.kind, a)
                          [] Ev.via = "D64" -> MapXY(LD!DecPaths(a), D2I)
                          [] Ev.via = "P" -> <<DecPathK(Ev.kind, a)>>
                          [] Ev.via = "PD64" -> MapXY(<<LD!DecPath(a)>>, D2I)
             IN Chk(Ev.back = exp, "C17", "convert_layout", <<Ev.id, Ev.kind, Ev.via>>)
TLayT ==
  /\ Ev.e = "LayT"
  /\ UNCHANGED cs
  /\ IF ~L64!TreeOK(Ev.t) THEN Report("HARNESS", "vertex_dim", Ev.id)
     ELSE LET c == ArrClause(Ev.arr, EncTreeK(Ev.kind, Ev.t), Len(Ev.t) = 0, "tree_layout")
          IN Chk(c = "ok", "C17", c, <<Ev.id, Ev.kind>>)

(* ------------------------------------------------------------------ forwarding events *)
(* The state carries only the position of the current Case and the number of NOut / XOut events seen (they follow the *)
(* Case contiguously); their contents are analysed once, at the Runs event, straight from the trace.                   *)
TCase ==
  /\ Ev.e = "Case"
  /\ IF Ev.fn \notin FnNames THEN cs' = <<>> /\ Report("HARNESS", "unknown_function", Ev.fn)
     ELSE LET F == FnRec(Ev.fn)  kind == F.kind
              dimok == L64!PathsOK(Ev.na) /\ L64!PathsOK(Ev.nb) /\ L64!PathsOK(Ev.nc)
              First(ps) == IF Len(ps) = 0 THEN <<>> ELSE ps[1]
          IN /\ cs' = [fn |-> Ev.fn, g |-> Ev.g, id |-> Ev.id, c0 |-> l, nn |-> 0, nx |-> 0]
             /\ Chk(dimok, "HARNESS", "vertex_dim", Ev.g)
             /\ dimok =>
                  IF Ev.single = 1
                  THEN /\ Chk(Ev.xa.cells = EncPathK(kind, First(Ev.na)), "HARNESS", "input_cpath", Ev.g)
                       /\ (F.cls = "mink" => Chk(Ev.xb.cells = EncPathK(kind, First(Ev.nb)), "HARNESS", "input_cpath", Ev.g))
                  ELSE LET ca == ArrClause(Ev.xa, EncPathsK(kind, Ev.na), FALSE, "create_layout")
                           cb == IF F.cls = "bool" THEN ArrClause(Ev.xb, EncPathsK(kind, Ev.nb), FALSE, "create_layout") ELSE "ok"
                           cc == IF F.cls = "bool" THEN ArrClause(Ev.xc, EncPathsK(kind, Ev.nc), FALSE, "create_layout") ELSE "ok"
                       IN /\ Chk(ca = "ok", "C17", ca, <<Ev.g, "input a">>)
                          /\ Chk(cb = "ok", "C17", cb, <<Ev.g, "input b">>)
                          /\ Chk(cc = "ok", "C17", cc, <<Ev.g, "input c">>)

TNOut ==
  /\ Ev.e = "NOut"
  /\ cs # <<>> /\ cs.nx = 0 /\ Ev.k = cs.nn + 1 /\ l = cs.c0 + Ev.k
  /\ cs' = [cs EXCEPT !.nn = Ev.k]
TXOut ==
  /\ Ev.e = "XOut"
  /\ cs # <<>> /\ Ev.j = cs.nx + 1 /\ l = cs.c0 + cs.nn + Ev.j
  /\ cs' = [cs EXCEPT !.nx = Ev.j]
(* a native result as the cells its export must consist of *)
AnalyseN(ev, kind) ==
  LET ok == (IF ev.t = 1 THEN L64!TreeOK(ev.a) ELSE L64!PathsOK(ev.a)) /\ L64!PathsOK(ev.b)
  IN IF ~ok THEN [ok |-> -1]
     ELSE [ok |-> ev.ok,
           enca |-> IF ev.t = 1 THEN EncTreeK(kind, ev.a) ELSE EncPathsK(kind, ev.a),
           aempty |-> IF ev.t = 1 THEN Len(ev.a) = 0 ELSE L64!NonEmpty(ev.a) = <<>>,
           encb |-> EncPathsK(kind, ev.b),
           bempty |-> L64!NonEmpty(ev.b) = <<>>]

(* one exported result against one native result: "ok" or the failing clause *)
Judge(x, n) ==
  IF n.ok = -1 THEN "ok"                                           \* native result not representable: reported as HARNESS above
  ELSE IF ~((n.ok = 1 /\ x.ret = 0) \/ (n.ok = 0 /\ x.ret = -1)) THEN "return_code"
  ELSE IF x.ret # 0 THEN "ok"
  ELSE LET ca == ArrClause(x.a, n.enca, n.aempty, "mismatch")
       IN IF ca # "ok" THEN ca ELSE ArrClause(x.b, n.encb, n.bempty, "mismatch")

Clauses == {"forward_mismatch", "inflate_delta_zero_not_shortcut", "inflate_rs_in_pc_slot", "inflateD_arc_tolerance_unscaled", "return_code", "length_field", "alloc_vs_length"}

TRuns ==
  /\ Ev.e = "Runs"
  /\ UNCHANGED cs
  /\ cs # <<>> /\ l = cs.c0 + cs.nn + cs.nx + 1
  /\ LET F == FnRec(cs.fn)
         NX == Size(F.x)  NN == Size(F.n)
         nst == Strides(F.n)  xst == Strides(F.x)  sl == FwdSlots(F)  cn == FwdConst(F)
         nouts == TLCEval([k \in 1..cs.nn |-> AnalyseN(Tr[cs.c0 + k], F.kind)])
         xouts == [j \in 1..cs.nx |-> Tr[cs.c0 + cs.nn + j]]
         shape == Len(Ev.xj) = NX /\ Len(Ev.nk) = NN /\ Ev.fn = cs.fn /\ Ev.g = cs.g
                  /\ (\A i \in 1..NX : Ev.xj[i] \in 1..cs.nx) /\ (\A i \in 1..NN : Ev.nk[i] \in 1..cs.nn)
     IN IF ~shape THEN Report("HARNESS", "runs_shape", Ev.g)
        ELSE
        LET XA(n) == TupleAt(F.x, xst, n)
            NP == Len(F.n)
            (* kx[n + 1] = 0-based index, in the native product, of the native call that exported call n stands for: *)
            (* C17Forward!ForwardV applied to the n-th tuple of the exported product (TLCEval: evaluate once, keep)   *)
            kx == TLCEval([n \in 1..NX |-> IndexOf(F.n, nst, ForwardV(sl, cn, XA(n - 1)))])
            NRes(k) == nouts[Ev.nk[k + 1]]
            XOf(n) == xouts[Ev.xj[n + 1]]
            J(n) == Judge(XOf(n), NRes(kx[n + 1]))
            bad == {n \in 0..(NX - 1) : J(n) # "ok"}
            spc == NSlot(F, "pc")  srs == NSlot(F, "rs")  satu == NSlot(F, "atu")
            infl == F.cls \in {"infl", "infl1"}
            Digit(k, i) == (k \div nst[i]) % Len(F.n[i].d)
            Val(k, i) == F.n[i].d[Digit(k, i) + 1]
            (* index of the native tuple that differs from tuple k exactly by parameter i := v (i = 0: no change) *)
            With(k, i, v) == IF i = 0 THEN k ELSE k + (Pos(F.n[i].d, v) - 1 - Digit(k, i)) * nst[i]
            Dev(k, pcv, rsv, atuv) == With(With(With(k, spc, pcv), srs, rsv), satu, atuv)
            Like(n, k2) == Judge(XOf(n), NRes(k2)) = "ok"
            ClausesOf(n) ==
              LET j == J(n)  k == kx[n + 1] IN
              IF j # "mismatch" THEN {j}
              ELSE IF ~infl THEN {"forward_mismatch"}
              ELSE IF Val(k, NSlot(F, "delta")) = 0 THEN {"inflate_delta_zero_not_shortcut"}     \* class predicate: Inflate*, delta = 0
              ELSE LET rs == Val(k, srs)
                       s4 == rs = 1 /\ Like(n, Dev(k, 1, 0, 0))
                       at == satu > 0 /\ Like(n, Dev(k, 0, rs, 1))
                       both == satu > 0 /\ rs = 1 /\ Like(n, Dev(k, 1, 0, 1))
                       c == (IF s4 \/ both THEN {"inflate_rs_in_pc_slot"} ELSE {}) \cup (IF at \/ both THEN {"inflateD_arc_tolerance_unscaled"} ELSE {})
                   IN IF c = {} THEN {"forward_mismatch"} ELSE c
            (* non-vacuity: does changing native parameter i (alone) change the native result of run n ? *)
            Sens(n, i) == LET k == kx[n + 1]  dg == Digit(k, i)  kb == Ev.nk[k + 1]
                          IN \E p \in 0..(Len(F.n[i].d) - 1) :
                               /\ p # dg
                               /\ LET k2 == Ev.nk[k + (p - dg) * nst[i] + 1] IN k2 # kb /\ nouts[k2] # nouts[kb]
            sm == TLCEval([n \in 1..NX |-> {i \in 1..NP : Sens(n - 1, i)}])
            sens == [i \in 1..NP |-> Cardinality({n \in 1..NX : i \in sm[n]})]
            nt == Cardinality({n \in 1..NX : LET nr == NRes(kx[n]) IN
                                 (~nr.aempty \/ ~nr.bempty) /\ \E i \in sm[n] : sl[i] > 0})
        IN /\ Chk(\A k \in 1..cs.nn : nouts[k].ok # -1, "HARNESS", "vertex_dim", Ev.g)
           /\ Chk(Ev.litbad = 0, "HARNESS", "native_recipe_differs_from_InflatePaths", <<Ev.g, Ev.litbad, Ev.litn>>)
           /\ Note("SENS", <<cs.fn, cs.id, NX, nt, [i \in 1..Len(F.n) |-> <<F.n[i].n, sens[i]>>]>>)
           /\ IF bad = {} THEN TRUE
              ELSE \A c \in Clauses :
                     LET S == {n \in bad : c \in ClausesOf(n)}
                     IN IF S = {} THEN TRUE
                        ELSE LET n0 == CHOOSE n \in S : \A m \in S : n <= m
                             IN Report("C17", c, <<cs.fn, cs.id, Cardinality(S), XA(n0)>>)

TCrash ==
  /\ Ev.e = "Crash"
  /\ cs' = <<>>
  /\ IF Ev.ph = "export" THEN Report("C17", "crash_in_export_call", <<Ev.fn, Ev.g, Ev.args>>)
     ELSE Report("HARNESS", IF Ev.ph = "native" THEN "native_crash" ELSE "crash_outside_monitored_call", <<Ev.fn, Ev.g, Ev.args>>)

Init == l = 1 /\ cs = <<>>
Next == /\ l <= Len(Tr)
        /\ l' = l + 1
        /\ (THdr \/ TCells \/ TLay \/ TCvt \/ TLayT \/ TCase \/ TNOut \/ TXOut \/ TRuns \/ TCrash)
Spec == Init /\ [][Next]_vars
=============================================================================
