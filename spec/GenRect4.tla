------------------------------ MODULE GenRect4 ------------------------------
(* Generator (C02): a doubled subject rectangle (the same rectangle twice: once with each orientation - a      *)
(* cancelling pair - or twice with the same orientation) against EVERY ordered pair of oriented clip rectangles *)
(* on the NX x NY unit lattice: 2 * R * (2R)^2 inputs, R = number of rectangles.  Coincident and cancelling     *)
(* horizontals on every scanline.                                                                              *)
EXTENDS Integers, Sequences, FiniteSets, TLC, Json, IOUtils, SequencesExt
CONSTANTS NX, NY
Rects == {<<x1, y1, x2, y2>> \in (0..NX) \X (0..NY) \X (0..NX) \X (0..NY) : x1 < x2 /\ y1 < y2}
Ring(r, pos) == IF pos THEN <<<<r[1], r[2]>>, <<r[3], r[2]>>, <<r[3], r[4]>>, <<r[1], r[4]>>>>
                ELSE <<<<r[1], r[4]>>, <<r[3], r[4]>>, <<r[3], r[2]>>, <<r[1], r[2]>>>>
O == {Ring(r, s) : r \in Rects, s \in BOOLEAN}
Cases == {[subj |-> <<Ring(a, TRUE), Ring(a, s)>>, clip |-> <<b, c>>] : a \in Rects, s \in BOOLEAN, b \in O, c \in O}
ASSUME ndJsonSerialize(IOEnv.OUT, SetToSeq(Cases))
ASSUME PrintT(<<"OUT", Cardinality(Cases)>>)
VARIABLE z
Init == z = 0
Next == z' = z
=============================================================================
