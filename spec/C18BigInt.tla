----------------------------- MODULE C18BigInt -----------------------------
(* Arbitrary-precision integers for TLC (whose own integers are 32-bit and raise an   *)
(* error on overflow).  A big integer is <<s, m>>: sign s in {-1, 0, 1} and magnitude *)
(* m, a little-endian sequence of limbs in 0..B-1 (B = 2^LB, LB = 12) without a leading        *)
(* (= last) zero limb; zero is <<0, <<>>>>.  With B = 2^12 a column sum of the        *)
(* schoolbook product of operands of up to 120 limbs stays below 2^31.                *)
(* Wire format (ndjson): a wide integer travels as [s, l0, l1, ..] (FromWire).        *)
EXTENDS Integers, Sequences
CONSTANT LB                    \* log2 of the limb base: 12 in every trace specification; 2 and 3 in the self-test C18BigIntTest
B == 2 ^ LB
BMin2(a, b) == IF a <= b THEN a ELSE b
BMax2(a, b) == IF a >= b THEN a ELSE b

RECURSIVE Trim(_)
Trim(m) == IF m = <<>> THEN m
           ELSE IF m[Len(m)] = 0 THEN Trim(SubSeq(m, 1, Len(m) - 1)) ELSE m
Limb(m, i) == IF i <= Len(m) THEN m[i] ELSE 0

RECURSIVE CmpFrom(_, _, _)
CmpFrom(a, b, i) == IF i = 0 THEN 0
                    ELSE IF a[i] # b[i] THEN (IF a[i] < b[i] THEN -1 ELSE 1)
                    ELSE CmpFrom(a, b, i - 1)
CmpMag(a, b) == IF Len(a) # Len(b) THEN (IF Len(a) < Len(b) THEN -1 ELSE 1) ELSE CmpFrom(a, b, Len(a))

RECURSIVE AddFrom(_, _, _, _, _)          \* limbs i..n of a + b with incoming carry c
AddFrom(a, b, i, n, c) ==
  IF i > n THEN (IF c = 0 THEN <<>> ELSE <<c>>)
  ELSE LET t == Limb(a, i) + Limb(b, i) + c
       IN <<t % B>> \o AddFrom(a, b, i + 1, n, t \div B)
AddMag(a, b) == AddFrom(a, b, 1, BMax2(Len(a), Len(b)), 0)

RECURSIVE SubFrom(_, _, _, _)             \* a - b for a >= b, borrow w in {0, 1}
SubFrom(a, b, i, w) ==
  IF i > Len(a) THEN <<>>
  ELSE LET t == a[i] - Limb(b, i) - w
       IN IF t < 0 THEN <<t + B>> \o SubFrom(a, b, i + 1, 1) ELSE <<t>> \o SubFrom(a, b, i + 1, 0)
SubMag(a, b) == Trim(SubFrom(a, b, 1, 0))

RECURSIVE ColSum(_, _, _, _, _)           \* sum of a[i] * b[k + 1 - i] for i in lo..hi
ColSum(a, b, k, i, hi) == IF i > hi THEN 0 ELSE a[i] * b[k + 1 - i] + ColSum(a, b, k, i + 1, hi)
RECURSIVE MulFrom(_, _, _, _)
MulFrom(a, b, k, c) ==
  IF k > Len(a) + Len(b) - 1 THEN (IF c = 0 THEN <<>> ELSE IF c < B THEN <<c>> ELSE <<c % B, c \div B>>)
  ELSE LET t == c + ColSum(a, b, k, BMax2(1, k + 1 - Len(b)), BMin2(Len(a), k))
       IN <<t % B>> \o MulFrom(a, b, k + 1, t \div B)
MulMag(a, b) == IF a = <<>> \/ b = <<>> THEN <<>> ELSE Trim(MulFrom(a, b, 1, 0))

(* ---- signed ---- *)
Zero == <<0, <<>>>>
Mk(s, m) == IF m = <<>> THEN Zero ELSE <<s, m>>
Sg(x) == x[1]
Neg(x) == <<-x[1], x[2]>>
AbsB(x) == <<(IF x[1] = 0 THEN 0 ELSE 1), x[2]>>
Add(x, y) ==
  IF x[1] = 0 THEN y ELSE IF y[1] = 0 THEN x
  ELSE IF x[1] = y[1] THEN <<x[1], AddMag(x[2], y[2])>>
  ELSE LET c == CmpMag(x[2], y[2])
       IN IF c = 0 THEN Zero
          ELSE IF c > 0 THEN <<x[1], SubMag(x[2], y[2])>> ELSE <<y[1], SubMag(y[2], x[2])>>
Sub(x, y) == Add(x, Neg(y))
Mul(x, y) == IF x[1] = 0 \/ y[1] = 0 THEN Zero ELSE <<x[1] * y[1], MulMag(x[2], y[2])>>
Cmp(x, y) ==                                 \* sign of x - y
  IF x[1] # y[1] THEN (IF x[1] < y[1] THEN -1 ELSE 1)
  ELSE IF x[1] = 0 THEN 0 ELSE x[1] * CmpMag(x[2], y[2])
Eq(x, y) == x = y                              \* representation is canonical
Le(x, y) == Cmp(x, y) <= 0
Lt(x, y) == Cmp(x, y) < 0
MaxB(x, y) == IF Cmp(x, y) >= 0 THEN x ELSE y
MinB(x, y) == IF Cmp(x, y) <= 0 THEN x ELSE y

RECURSIVE MagOfNat(_)
MagOfNat(n) == IF n = 0 THEN <<>> ELSE <<n % B>> \o MagOfNat(n \div B)
FromInt(n) == IF n = 0 THEN Zero ELSE IF n > 0 THEN <<1, MagOfNat(n)>> ELSE <<-1, MagOfNat(-n)>>
Pow2(k) == <<1, [i \in 1..((k \div LB) + 1) |-> IF i = (k \div LB) + 1 THEN 2 ^ (k % LB) ELSE 0]>>
Shl(x, k) == Mul(x, Pow2(k))
(* value of a small big integer as a TLC integer (caller guarantees |x| < 2^31) *)
RECURSIVE NatOfMag(_, _)
NatOfMag(m, i) == IF i > Len(m) THEN 0 ELSE m[i] + B * NatOfMag(m, i + 1)
ToInt(x) == x[1] * NatOfMag(x[2], 1)

(* ---- wire format ---- *)
WireOK(v) == /\ Len(v) >= 1 /\ v[1] \in {-1, 0, 1}
             /\ \A i \in 2..Len(v) : v[i] \in 0..(B - 1)
             /\ (v[1] = 0) = (Trim(SubSeq(v, 2, Len(v))) = <<>>)
FromWire(v) == Mk(v[1], Trim(SubSeq(v, 2, Len(v))))
=============================================================================
