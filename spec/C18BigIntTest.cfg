CONSTANT LB = 2
CONSTANT R = 90
SPECIFICATION Spec
INVARIANT OK
CHECK_DEADLOCK FALSE
