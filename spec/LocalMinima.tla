----------------------------- MODULE LocalMinima -----------------------------
(* Layer 2 (implementation-shaped, C13 / C01): how AddPaths_ flags the vertices of a path.       *)
(* The engine sweeps from the largest y to the smallest, so a "local minimum" (where two bounds    *)
(* start) is a vertex whose y is locally LARGEST and a "local maximum" one whose y is locally      *)
(* smallest; on a horizontal plateau the flag goes to the LAST vertex of the plateau in path       *)
(* direction.  Declarative definition (operators Decl..) vs. the scan of clipper.engine.cpp transcribed as a   *)
(* state machine (closed paths); TLC checks for every y-sequence over YVals up to MaxLen that the   *)
(* scan terminates with exactly the declarative flags, that minima and maxima alternate and are     *)
(* equally many, and - because the declarative definition is cyclic - that the flagged plateaus     *)
(* do not depend on the start vertex (C13).  LocalMinimaTrace.tla binds it to the code (hook H3).   *)
EXTENDS Integers, Sequences, FiniteSets, TLC
CONSTANTS MaxLen, YVals

Nx(Y, i) == (i % Len(Y)) + 1
FlatY(Y) == \A i \in 1..Len(Y) : Y[i] = Y[1]
RECURSIVE PrevDiffC(_, _, _)
PrevDiffC(Y, i, k) == IF k >= Len(Y) THEN 0
                      ELSE LET j == ((i - k - 1 + 2 * Len(Y)) % Len(Y)) + 1 IN IF Y[j] # Y[i] THEN j ELSE PrevDiffC(Y, i, k + 1)
DeclMinC(Y, i) == ~FlatY(Y) /\ Y[Nx(Y, i)] < Y[i] /\ Y[PrevDiffC(Y, i, 1)] < Y[i]
DeclMaxC(Y, i) == ~FlatY(Y) /\ Y[Nx(Y, i)] > Y[i] /\ Y[PrevDiffC(Y, i, 1)] > Y[i]
(* open paths: ends carry OpenStart / OpenEnd and are minima or maxima according to the first / last change of y *)
RECURSIVE PrevDiffO(_, _), NextDiffO(_, _)
PrevDiffO(Y, i) == IF i = 1 THEN 0 ELSE IF Y[i - 1] # Y[i] THEN i - 1 ELSE LET p == PrevDiffO(Y, i - 1) IN p
NextDiffO(Y, i) == IF i = Len(Y) THEN 0 ELSE IF Y[i + 1] # Y[i] THEN i + 1 ELSE NextDiffO(Y, i + 1)
DeclMinO(Y, i) == LET n == Len(Y) IN
  IF i = 1 THEN NextDiffO(Y, 1) = 0 \/ Y[NextDiffO(Y, 1)] < Y[1]
  ELSE IF i = n THEN PrevDiffO(Y, n) # 0 /\ Y[PrevDiffO(Y, n)] < Y[n]
  ELSE Y[i + 1] < Y[i] /\ PrevDiffO(Y, i) # 0 /\ Y[PrevDiffO(Y, i)] < Y[i]
DeclMaxO(Y, i) == LET n == Len(Y) IN
  IF i = 1 THEN NextDiffO(Y, 1) # 0 /\ Y[NextDiffO(Y, 1)] > Y[1]
  ELSE IF i = n THEN PrevDiffO(Y, n) = 0 \/ Y[PrevDiffO(Y, n)] > Y[n]
  ELSE Y[i + 1] > Y[i] /\ PrevDiffO(Y, i) # 0 /\ Y[PrevDiffO(Y, i)] > Y[i]

(* ---- the closed-path scan as a state machine ---- *)
VARIABLES Y, pc, prev, curr, up, up0, mins, maxs
vars == <<Y, pc, prev, curr, up, up0, mins, maxs>>
Seqs == UNION {[1..n -> YVals] : n \in 3..MaxLen}
Init == /\ Y \in Seqs /\ pc = "start" /\ prev = 0 /\ curr = 0 /\ up = FALSE /\ up0 = FALSE /\ mins = {} /\ maxs = {}
Start == /\ pc = "start"
         /\ LET p == PrevDiffC(Y, 1, 1)      \* scan backwards from v0 for a vertex with another y
            IN IF p = 0 THEN pc' = "done" /\ UNCHANGED <<prev, curr, up, up0>>       \* completely flat: no flags
               ELSE /\ up' = (Y[p] > Y[1]) /\ up0' = (Y[p] > Y[1]) /\ prev' = 1 /\ curr' = 2 /\ pc' = "loop"
         /\ UNCHANGED <<Y, mins, maxs>>
Loop == /\ pc = "loop"
        /\ IF curr = 1 THEN pc' = "close" /\ UNCHANGED <<prev, curr, up, mins, maxs>>
           ELSE /\ IF Y[curr] > Y[prev] /\ up THEN maxs' = maxs \cup {prev} /\ up' = FALSE /\ UNCHANGED mins
                   ELSE IF Y[curr] < Y[prev] /\ ~up THEN mins' = mins \cup {prev} /\ up' = TRUE /\ UNCHANGED maxs
                   ELSE UNCHANGED <<up, mins, maxs>>
                /\ prev' = curr /\ curr' = Nx(Y, curr) /\ pc' = "loop"
        /\ UNCHANGED <<Y, up0>>
Close == /\ pc = "close"
         /\ IF up # up0 THEN (IF up0 THEN mins' = mins \cup {prev} /\ UNCHANGED maxs ELSE maxs' = maxs \cup {prev} /\ UNCHANGED mins)
            ELSE UNCHANGED <<mins, maxs>>
         /\ pc' = "done" /\ UNCHANGED <<Y, prev, curr, up, up0>>
Next == Start \/ Loop \/ Close
Spec == Init /\ [][Next]_vars

ScanMatchesDeclaration == pc = "done" => /\ mins = {i \in 1..Len(Y) : DeclMinC(Y, i)}
                                         /\ maxs = {i \in 1..Len(Y) : DeclMaxC(Y, i)}
(* cyclic alternation: between two consecutive minima there is exactly one maximum *)
Alternate == pc = "done" => /\ Cardinality(mins) = Cardinality(maxs)
                            /\ mins \cap maxs = {}
                            /\ \A a \in mins : LET RECURSIVE nxt(_, _)
                                                   nxt(i, k) == IF k > Len(Y) THEN 0 ELSE IF i \in mins \cup maxs THEN i ELSE nxt(Nx(Y, i), k + 1)
                                               IN nxt(Nx(Y, a), 1) \in maxs
Terminates == <>(pc = "done")
=============================================================================
