---------------------------- MODULE PathUtilsMC ----------------------------
(* Design-level model checking of the C20 contracts themselves (no library involved): *)
(* over EVERY path with at most K vertices on the N x N grid, both readings (closed /  *)
(* open) and every epsilon of the scope, TLC checks that                                *)
(*  L1  the declarative corner list satisfies all TrimCollinear clauses on the clean    *)
(*      input class (the clauses are consistent and jointly satisfiable, the class is   *)
(*      not empty - counted below);                                                     *)
(*  L2  the textbook Ramer-Douglas-Peucker recursion satisfies the RDP contract on      *)
(*      every path, INCLUDING paths with first = last (so class S3 is a defect of the   *)
(*      implementation, not an unsatisfiable demand of the contract);                   *)
(*  L3  greedy removal of a removable vertex until none is left satisfies the           *)
(*      SimplifyPath contract on every path, including those with fewer than 4 points   *)
(*      (class S10 likewise);                                                           *)
(*  L4  StripDup / StripNear: no equal (near) neighbours left, subsequence, idempotent, *)
(*      and StripNear with threshold 1 coincides with StripDup on integer points;       *)
(*  L5  Bounds / Translate / Length bracket sanity (bounds attained and shifted, area   *)
(*      invariant, LenLo <= LenHi, exact on axis-parallel paths).                       *)
EXTENDS PathUtils, TLC
CONSTANTS N, K
EPS == {<<0, 1>>, <<1, 2>>, <<1, 1>>, <<2, 1>>}        \* epsilon as <<en, ed>>: 0, 1/2, 1, 2
VARIABLES p, c
Pts == (0..(N - 1)) \X (0..(N - 1))
Paths == UNION {[1..k -> Pts] : k \in 0..K}

Init == p \in Paths /\ c \in BOOLEAN
Next == UNCHANGED <<p, c>>

L1 == Clean(p, c) => LET C == Corners(p, c) IN TrimFails(p, c, C, Corners(C, c)) = {} /\ Clean(C, c)

(* textbook RDP on positions lo..hi of P: keep the farthest vertex if it is beyond eps *)
DistKey(P, lo, hi, k) == IF P[lo] = P[hi] THEN <<Dist2(P[k], P[lo]), 1>>
                         ELSE <<Cross(P[lo], P[hi], P[k]) * Cross(P[lo], P[hi], P[k]), Dist2(P[lo], P[hi])>>
RECURSIVE RdpKeep(_, _, _, _, _)
RdpKeep(P, lo, hi, en, ed) ==          \* set of surviving positions strictly between lo and hi
  IF hi <= lo + 1 THEN {}
  ELSE LET far == CHOOSE k \in (lo + 1)..(hi - 1) : \A j \in (lo + 1)..(hi - 1) :
                    DistKey(P, lo, hi, j)[1] * DistKey(P, lo, hi, k)[2] <= DistKey(P, lo, hi, k)[1] * DistKey(P, lo, hi, j)[2]
       IN IF WithinLine(P[far], P[lo], P[hi], en, ed) THEN {}
          ELSE RdpKeep(P, lo, far, en, ed) \cup {far} \cup RdpKeep(P, far, hi, en, ed)
RdpRef(P, en, ed) == IF Len(P) <= 2 THEN P
                     ELSE LET S == {1, Len(P)} \cup RdpKeep(P, 1, Len(P), en, ed) IN Pick(P, LAMBDA i : i \in S)
RdpFailsRaw(in, out, en, ed) ==      \* the clauses without the S3 class relabelling
  (IF IsSubseq(out, in) THEN {} ELSE {"s"}) \cup (IF KeepsEnds(out, in) THEN {} ELSE {"e"})
  \cup (IF RdpWithin(out, in, en, ed) THEN {} ELSE {"w"})
L2 == \A e \in EPS : RdpFailsRaw(p, RdpRef(p, e[1], e[2]), e[1], e[2]) = {}

(* greedy simplification: delete any one removable vertex, repeat *)
Removable(Q, closed, en, ed) ==
  IF closed THEN (IF Len(Q) >= 3 THEN {i \in 1..Len(Q) : WithinLine(Q[i], Prv(Q, i), Nxt(Q, i), en, ed)} ELSE {})
  ELSE {i \in 2..(Len(Q) - 1) : WithinLine(Q[i], Q[i - 1], Q[i + 1], en, ed)}
RECURSIVE SimpRef(_, _, _, _)
SimpRef(Q, closed, en, ed) ==
  LET R == Removable(Q, closed, en, ed)
  IN IF R = {} THEN Q ELSE LET r == CHOOSE i \in R : TRUE IN SimpRef(Pick(Q, LAMBDA i : i # r), closed, en, ed)
L3 == \A e \in EPS : LET out == SimpRef(p, c, e[1], e[2])
                     IN /\ IsSubseq(out, p) /\ (c \/ KeepsEnds(out, p)) /\ NoRemovable(out, c, e[1], e[2])

NoEqNb(Q, closed) == /\ \A i \in 1..(Len(Q) - 1) : Q[i] # Q[i + 1]
                     /\ (closed /\ Len(Q) > 1) => Q[Len(Q)] # Q[1]
L4 == LET D == StripDup(p, c)
      IN /\ NoEqNb(D, c) /\ IsSubseq(D, p) /\ StripDup(D, c) = D
         /\ (p # <<>> => D # <<>> /\ D[1] = p[1])
         /\ {D[i] : i \in 1..Len(D)} = {p[i] : i \in 1..Len(p)}
         /\ StripNear(p, c, 1, 1) = D
         /\ StripNear(p, c, 0, 1) = p
         /\ \A m \in {<<2, 1>>, <<9, 2>>} :
              LET S == StripNear(p, c, m[1], m[2])
              IN /\ IsSubseq(S, p) /\ StripNear(S, c, m[1], m[2]) = S
                 /\ \A i \in 1..(Len(S) - 1) : ~Near(S[i], S[i + 1], m[1], m[2])
                 /\ (c /\ Len(S) > 1) => ~Near(S[Len(S)], S[1], m[1], m[2])

L5 == /\ p # <<>> => LET b == Bounds(p)
                     IN /\ \A i \in 1..Len(p) : b[1] <= p[i][1] /\ p[i][1] <= b[3] /\ b[2] <= p[i][2] /\ p[i][2] <= b[4]
                        /\ \E i \in 1..Len(p) : p[i][1] = b[1]
                        /\ \E i \in 1..Len(p) : p[i][1] = b[3]
                        /\ \E i \in 1..Len(p) : p[i][2] = b[2]
                        /\ \E i \in 1..Len(p) : p[i][2] = b[4]
                        /\ Bounds(Translate(p, 3, -2)) = <<b[1] + 3, b[2] - 2, b[3] + 3, b[4] - 2>>
      /\ Translate(Translate(p, 3, -2), -3, 2) = p
      /\ Area2(Translate(p, 3, -2)) = Area2(p)
      /\ LenLo(p, c, 1000) <= LenHi(p, c, 1000)
      /\ LenHi(p, c, 1000) - LenLo(p, c, 1000) <= Len(p)
      /\ Rectilinear(<<p>>) => LenLo(p, TRUE, 1000) = LenHi(p, TRUE, 1000)

(* vacuity guards, evaluated once: the clean class and its complement are both populated *)
ASSUME K < 3 \/ Cardinality({q \in [1..3 -> Pts] : Clean(q, TRUE)}) > 0
ASSUME K < 3 \/ Cardinality({q \in [1..3 -> Pts] : ~Clean(q, FALSE)}) > 0
=============================================================================
