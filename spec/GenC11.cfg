INIT Init
NEXT Next
