INIT Init
NEXT Next
