------------------------------ MODULE C18Trace ------------------------------
(* Layer 3: trace specification for property C18.  Consumes an ndjson log of calls of *)
(* the real library (file named by env TRACE); every event is one group of calls with   *)
(* the arguments the harness actually passed and the values the library returned:       *)
(*   Mul    - Multiply(a, b) -> (lo, hi)                 br = 0 normal copy, 1 portable  *)
(*   Pred   - ProductsAreEqual(v) -> pe; CrossProductSign(pts) -> cps; IsCollinear -> col *)
(*   Pip    - PointInPolygon of ALL grid / half-grid points of a lattice polygon, under   *)
(*            each listed affine embedding (|coordinates| <= 2^25 certified here)         *)
(*   PipBig - PointInPolygon of listed points, coordinates up to 2^25 (big cross products) *)
(*   Seg    - GetSegmentIntersectPt(a, b, c, d) -> ok, ip      hp = CLIPPER2_HI_PRECISION *)
(*   Area   - Area(path) / Area(paths) -> double as (finite, odd mantissa, exponent)      *)
(*   Start / End - bracket a lattice family enumerated by index (skip, stride): the spec   *)
(*            decodes each index itself and checks that none is skipped                   *)
(* Wide integers are C18BigInt wire values.  All expected values are computed here from   *)
(* C18Defs; a failed clause prints a FAIL line and the step is taken anyway.              *)
EXTENDS C18Defs, Json, IOUtils
VARIABLES l, fam
vars == <<l, fam>>

Tr == ndJsonDeserialize(IOEnv.TRACE)
Ev == Tr[l]
Report(prop, clause, d) == PrintT(<<"FAIL", prop, l, clause, d>>)
Chk(c, prop, clause, d) == IF c THEN TRUE ELSE Report(prop, clause, d)
Note(kind, d) == PrintT(<<"NOTE", kind, l, d>>)

W(v) == FromWire(v)
WP(p) == <<FromWire(p[1]), FromWire(p[2])>>
Bit(b) == b \in {0, 1}

(* ------------------------------------------------------------------ Multiply *)
TMul ==
  /\ Ev.e = "Mul" /\ UNCHANGED fam
  /\ Chk(WireOK(Ev.a) /\ WireOK(Ev.b) /\ WireOK(Ev.lo) /\ WireOK(Ev.hi) /\ Bit(Ev.br), "HARNESS", "wire", 0)
  /\ LET a == W(Ev.a) b == W(Ev.b) lo == W(Ev.lo) hi == W(Ev.hi)
     IN IF InU64(a) /\ InU64(b)
        THEN Chk(InU64(lo) /\ InU64(hi) /\ MulExact(a, b, lo, hi), "C18", "multiply_exact", Ev.br)
        ELSE Note("DROP", "mul")

(* ------------------------------------------------------------------ predicates *)
TPred ==
  /\ Ev.e = "Pred" /\ UNCHANGED fam
  /\ Chk((\A i \in 1..4 : WireOK(Ev.v[i])) /\ Bit(Ev.br) /\ Bit(Ev.pe) /\ Len(Ev.pts) \in {0, 3}, "HARNESS", "wire", 0)
  /\ LET a == W(Ev.v[1]) b == W(Ev.v[2]) c == W(Ev.v[3]) d == W(Ev.v[4])
     IN IF InI64(a) /\ InI64(b) /\ InI64(c) /\ InI64(d)
        THEN Chk((Ev.pe = 1) = ProdEq(a, b, c, d), "C18", "products_are_equal", Ev.br)
        ELSE Note("DROP", "pe")
  /\ IF Len(Ev.pts) = 3
     THEN LET p1 == WP(Ev.pts[1]) p2 == WP(Ev.pts[2]) p3 == WP(Ev.pts[3])
              df == Diffs(p1, p2, p3)
              inclass == /\ \A p \in {p1, p2, p3} : InI64(p[1]) /\ InI64(p[2])
                         /\ \A i \in 1..4 : InI64(df[i])                 \* differences do not overflow
              s == ProdCmp(df[1], df[2], df[3], df[4])
          IN IF inclass
             THEN /\ Chk(Ev.cps = s, "C18", "cross_product_sign", Ev.br)
                  /\ Chk((Ev.col = 1) = (s = 0), "C18", "is_collinear", Ev.br)
             ELSE Note("DROP", "cps")
     ELSE TRUE

(* ------------------------------------------------------------------ PointInPolygon, lattice *)
RECURSIVE DecodePoly(_, _, _)
DecodePoly(g, n, idx) == IF n = 0 THEN <<>>
                         ELSE LET d == idx % (g * g) IN << <<2 * (d % g), 2 * (d \div g)>> >> \o DecodePoly(g, n - 1, idx \div (g * g))
Lim25 == 33554432
EmbOK(a, cm) == /\ a[1] >= 1 /\ a[1] <= Lim25
                /\ \A t \in {a[2], a[3]} : -Lim25 <= t /\ t <= Lim25 /\ a[1] * cm + t <= Lim25
SeqOK == fam.on => Ev.idx = fam.nx
TPip ==
  /\ Ev.e = "Pip"
  /\ LET g == Ev.g  cm == 2 * (g - 1)  P == Ev.p
         cert == /\ g \in 2..6 /\ Len(P) \in 1..12
                 /\ \A i \in 1..Len(P) : \A k \in 1..2 : P[i][k] \in 0..cm /\ P[i][k] % 2 = 0
                 /\ Len(Ev.emb) = Len(Ev.r) /\ \A j \in 1..Len(Ev.emb) : Len(Ev.r[j]) = (cm + 1) * (cm + 1)
         lat == Ev.idx >= 0
     IN /\ Chk(cert, "HARNESS", "pip_scope", Ev.idx)
        /\ IF lat
           THEN /\ Chk(fam.on /\ fam.fam = "pip" /\ fam.g = g /\ Ev.idx = fam.nx /\ P = DecodePoly(g, fam.n, Ev.idx), "HARNESS", "pip_enumeration", Ev.idx)
                /\ fam' = [fam EXCEPT !.nx = Ev.idx + fam.stride]
           ELSE UNCHANGED fam
        /\ IF cert /\ PipClass(P)
           THEN LET E == PEdges(P)
                    exp == [k \in 1..((cm + 1) * (cm + 1)) |-> ClassifyE(E, <<(k - 1) \div (cm + 1), (k - 1) % (cm + 1)>>)]
                IN \A j \in 1..Len(Ev.emb) :
                     IF EmbOK(Ev.emb[j], cm)
                     THEN LET bad == {k \in 1..Len(exp) : Ev.r[j][k] # exp[k]}
                          IN Chk(bad = {}, "C18", "point_in_polygon", <<j, IF bad = {} THEN 0 ELSE CHOOSE k \in bad : \A k2 \in bad : k <= k2>>)
                     ELSE Note("DROP", "emb")
           ELSE Note("DROP", "pip")

TPipBig ==
  /\ Ev.e = "PipBig" /\ UNCHANGED fam
  /\ LET P == Ev.p  Q == Ev.q
         cert == /\ Len(P) \in 3..12 /\ Len(Q) = Len(Ev.r)
                 /\ \A i \in 1..Len(P) : \A k \in 1..2 : -Lim25 <= P[i][k] /\ P[i][k] <= Lim25
                 /\ \A i \in 1..Len(Q) : \A k \in 1..2 : -Lim25 <= Q[i][k] /\ Q[i][k] <= Lim25
     IN IF cert /\ PipClass(P)
        THEN LET bad == {k \in 1..Len(Q) : Ev.r[k] # ClassifyB(P, Q[k])}
             IN Chk(bad = {}, "C18", "point_in_polygon_2p25", IF bad = {} THEN 0 ELSE CHOOSE k \in bad : TRUE)
        ELSE Note("DROP", "pipbig")

(* ------------------------------------------------------------------ GetSegmentIntersectPt *)
Lim40 == P2(40)
RECURSIVE MaxAbs8(_, _)
MaxAbs8(s, i) == IF i = 0 THEN Zero ELSE MaxB(MaxB(AbsB(s[i][1]), AbsB(s[i][2])), MaxAbs8(s, i - 1))
TSeg ==
  /\ Ev.e = "Seg"
  /\ Chk((\A i \in 1..4 : WireOK(Ev.s[i][1]) /\ WireOK(Ev.s[i][2])) /\ WireOK(Ev.ip[1]) /\ WireOK(Ev.ip[2]) /\ Bit(Ev.ok), "HARNESS", "wire", 0)
  /\ LET s == [i \in 1..4 |-> WP(Ev.s[i])]
         ip == WP(Ev.ip)
         maxc == MaxAbs8(s, 4)
         an == SegAnalyse(s[1], s[2], s[3], s[4])
         lat == Len(Ev.lat) > 0
     IN /\ IF lat        \* lattice family: s = m * L + t for the decoded index; identity embedding carries the enumeration index
           THEN LET g == Ev.lat[1] idx == Ev.lat[2] L == Ev.lat[3] m == W(Ev.lat[4]) tx == W(Ev.lat[5]) ty == W(Ev.lat[6])
                IN /\ Chk(/\ \A i \in 1..4 : s[i] = <<Add(Mul(m, FromInt(L[i][1])), tx), Add(Mul(m, FromInt(L[i][2])), ty)>>
                          /\ \A i \in 1..4 : L[i][1] \in 0..(g - 1) /\ L[i][2] \in 0..(g - 1), "HARNESS", "seg_embedding", idx)
                   /\ IF idx >= 0
                      THEN /\ Chk(/\ fam.on /\ fam.fam = "seg" /\ fam.g = g /\ idx = fam.nx /\ m = FromInt(1) /\ tx = Zero /\ ty = Zero
                                  /\ [i \in 1..4 |-> <<2 * L[i][1], 2 * L[i][2]>>] = DecodePoly(g, 4, idx), "HARNESS", "seg_enumeration", idx)
                           /\ fam' = [fam EXCEPT !.nx = idx + fam.stride]
                      ELSE UNCHANGED fam
           ELSE UNCHANGED fam
        /\ IF Le(maxc, Lim40)
           THEN /\ IF an.parallel
                   THEN Chk(Ev.ok = 0, "C18", "segint_nonparallel_reported_for_parallel", Ev.hp)
                   ELSE IF Ev.ok = 1 THEN TRUE
                   ELSE IF ParallelRoundingClass(an) THEN Report("C18", "segint_parallel_misreport_rounding", Ev.hp)   \* known finding
                   ELSE Report("C18", "segint_parallel_misreport", Ev.hp)
                /\ IF an.onboth /\ Ev.ok = 1
                   THEN /\ IF SegNear(an, ip) THEN TRUE
                           ELSE IF SegRoundingClass(an, ip, maxc) THEN Report("C18", "segint_point_double_rounding", Ev.hp) \* known finding
                           ELSE Report("C18", "segint_point_off_crossing", Ev.hp)
                        /\ IF SegOnFirst(s[1], s[2], an, ip) \/ ~SegNear(an, ip) THEN TRUE      \* (a far point is reported once, above)
                           ELSE Report("C18", "segint_point_off_first_segment", Ev.hp)
                   ELSE TRUE
           ELSE Note("DROP", "seg")

(* ------------------------------------------------------------------ Area *)
Lim61 == P2(61)
TArea ==
  /\ Ev.e = "Area" /\ UNCHANGED fam
  /\ LET Ps == [j \in 1..Len(Ev.ps) |-> [i \in 1..Len(Ev.ps[j]) |-> WP(Ev.ps[j][i])]]
         wires == \A j \in 1..Len(Ev.ps) : \A i \in 1..Len(Ev.ps[j]) : WireOK(Ev.ps[j][i][1]) /\ WireOK(Ev.ps[j][i][2])
         fin == Ev.a[1] = 1
         m == W(Ev.a[2])  ex == Ev.a[3]
         a2 == SumB([j \in 1..Len(Ps) |-> Area2B(Ps[j])], Len(Ps))
         sc == SumB([j \in 1..Len(Ps) |-> AreaScaleB(Ps[j])], Len(Ps))
         mx == MaxAbsB([j \in 1..Len(Ps) |-> <<MaxAbsB(Ps[j], Len(Ps[j])), Zero>>], Len(Ps))
         nt == SumF([j \in 1..Len(Ps) |-> Len(Ps[j]) + 1], Len(Ps))
     IN /\ Chk(wires /\ WireOK(Ev.a[2]) /\ ex \in -1100..1100 /\ (Ev.single = 1 => Len(Ps) = 1), "HARNESS", "wire", 0)
        /\ IF Le(mx, Lim61) /\ nt <= 200
           THEN /\ Chk(fin, "C18", "area_not_finite", 0)
                /\ fin => Chk(AreaWithin(m, ex, a2, sc, nt), "C18", "area_beyond_double_rounding", nt)
                /\ (fin /\ AreaExactClass(mx, nt)) => Chk(AreaExact(m, ex, a2), "C18", "area_not_exact", nt)
           ELSE Note("DROP", "area")

(* ------------------------------------------------------------------ enumeration brackets *)
TStart == /\ Ev.e = "Start"
          /\ Chk(~fam.on /\ Ev.skip >= 0 /\ Ev.stride >= 1, "HARNESS", "start", 0)
          /\ fam' = [on |-> TRUE, fam |-> Ev.fam, g |-> Ev.g, n |-> Ev.n, nx |-> Ev.skip, stride |-> Ev.stride]
TEnd == /\ Ev.e = "End"
        /\ Chk(fam.on /\ fam.nx >= (fam.g * fam.g) ^ fam.n, "HARNESS", "enumeration_incomplete", fam.nx)
        /\ PrintT(<<"NOTE", "ENUM", l, <<fam.fam, fam.g, fam.n, fam.stride>>>>)
        /\ fam' = [fam EXCEPT !.on = FALSE]

Init == l = 1 /\ fam = [on |-> FALSE, fam |-> "", g |-> 0, n |-> 0, nx |-> 0, stride |-> 1]
Next == /\ l <= Len(Tr)
        /\ l' = l + 1
        /\ (TMul \/ TPred \/ TPip \/ TPipBig \/ TSeg \/ TArea \/ TStart \/ TEnd)
Spec == Init /\ [][Next]_vars
=============================================================================
