CONSTANTS NMAX = 40 EMAX = 30 GMAX = 120
INIT Init
NEXT Next
INVARIANT Inv
CHECK_DEADLOCK FALSE
