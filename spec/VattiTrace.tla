----------------------------- MODULE VattiTrace -----------------------------
(* Layer 2/3 (implementation-shaped, C01 C13): the sweep's discrete state at every scanbeam.   *)
(* Event VCase: closed subject/clip paths: TLC-certified general position without horizontal edges  *)
(*   (V1-V5), or rectilinear - horizontal edges, coincident and touching edges included (V1-V3, V5).  *)
(* Event Ael  : the active edge list recorded by hook H1 right after the local minima at          *)
(*   scanline y were inserted: for each edge, left to right,                                       *)
(*   <<y, bot.x, bot.y, top.x, top.y, curr_x, wind_dx, wind_cnt, wind_cnt2, ptype, open, hot,            *)
(*     index of the output ring the edge is building, 1 front / 2 back edge of that ring>>             *)
(* The specification derives what that state must be from the input geometry alone:               *)
(*   V1 the AEL holds exactly the input edges that span the scanbeam below y (top.y < y <= bot.y), *)
(*      each with the direction flag the engine's convention gives it (wind_dx = +1 iff the path    *)
(*      runs towards decreasing y along the edge)                                                  *)
(*   V2 it is sorted by the edges' x at the scanline, ties (shared vertices) by slope              *)
(*   V3 wind_cnt / wind_cnt2 are what ContribTable!StoredCnt gives for the sum of wind_dx of the    *)
(*      same-type / other-type edges to the left (the regions' true windings)                      *)
(*   V4 an edge is hot (has an output ring) iff ContribTable!ContribClosed holds for it            *)
(*   V5 the windings return to 0 to the right of the last edge                                     *)
(*   V8 every output ring under construction is held by exactly two active edges, its front and its  *)
(*      back edge (general position)                                                                 *)
(*   V9 the rings under construction are curves in the swept half-plane that do not cross: the pairs  *)
(*      of positions of their two edges in the AEL are properly nested or disjoint, never interleaved *)
(*   V10 a ring's left edge is its front edge iff an even number of hot edges lies to its left, i.e.  *)
(*      iff the ring is an outer boundary there (the engine's orientation convention)                 *)
(* Event Isects (hook H2): every intersection ProcessIntersectList processed during one Execute,  *)
(*   <<e1.bot, e1.top, e2.bot, e2.top, pt, bottom y, top y of the scanbeam>> in processing order      *)
(*   V6 in general position the sweep swaps exactly the pairs of input edges that properly cross,    *)
(*      each pair once, whatever the clip type and fill rule                                         *)
(*   V7 the point it uses is the exact crossing rounded (within one unit per axis) and lies in the    *)
(*      scanbeam being processed; scanbeams are visited from larger to smaller y                      *)
(* Event IsBig: the same record for one Execute of an arbitrary (large-coordinate) input:           *)
(*   V7a whatever the input, the point used lies in the scanbeam being processed and between the    *)
(*       ends of both edges (comparisons only: valid for any coordinates)                            *)
(* These are statements about INTERNAL state: by the soundness policy (DESIGN.md 3.6) a failure    *)
(* here is an engine-level divergence that directs the observable checks, not a verdict.           *)
EXTENDS Geom, TLC, Json, IOUtils
VARIABLES l, cs
Tr == ndJsonDeserialize(IOEnv.TRACE)
Ev == Tr[l]
CT == INSTANCE ContribTable WITH WMax <- 0, z <- 0
Report(prop, clause, d) == PrintT(<<"FAIL", prop, l, clause, d>>)
Chk(c, prop, clause, d) == IF c THEN TRUE ELSE Report(prop, clause, d)

(* input edges as <<bot, top, wind_dx, ptype>> : bot is the end with the larger y; dx = +1 iff the path goes from bot to top *)
EdgeRecs(Ps, pt) == Flat([k \in 1..Len(Ps) |-> [i \in 1..Len(Ps[k]) |->
                      LET a == Ps[k][i]  b == Ps[k][(i % Len(Ps[k])) + 1]
                      IN IF a[2] > b[2] THEN <<a, b, 1, pt>> ELSE <<b, a, -1, pt>>]])
NoHorz(Ps) == \A k \in 1..Len(Ps) : \A i \in 1..Len(Ps[k]) : Ps[k][i][2] # Ps[k][(i % Len(Ps[k])) + 1][2]

TCase == /\ Ev.e = "VCase"
         /\ cs' = [gp |-> NoHorz(Ev.subj \o Ev.clip) /\ GP(Ev.subj \o Ev.clip, 3),
                   ok |-> (NoHorz(Ev.subj \o Ev.clip) /\ GP(Ev.subj \o Ev.clip, 3)) \/ Rectilinear(Ev.subj \o Ev.clip),
                   edges |-> EdgeRecs(Ev.subj, 0) \o EdgeRecs(Ev.clip, 1)]

SumDx(A, j, pt) == LET S == {i \in 1..(j - 1) : A[i][10] = pt /\ A[i][11] = 0}
                   IN Cardinality({i \in S : A[i][7] = 1}) - Cardinality({i \in S : A[i][7] = -1})
TAel ==
  /\ Ev.e = "Ael"
  /\ UNCHANGED cs
  /\ cs.ok =>
      LET A == Ev.a  n == Len(A)  y == Ev.y  fr == Ev.fr  ct == Ev.ct
          want == {i \in 1..Len(cs.edges) : cs.edges[i][1][2] # cs.edges[i][2][2] /\ cs.edges[i][2][2] < y /\ y <= cs.edges[i][1][2]}   \* horizontal edges are never in the AEL at this point
          asSet == {<<<<A[j][2], A[j][3]>>, <<A[j][4], A[j][5]>>, A[j][7], A[j][10]>> : j \in 1..n}
          bad3 == {j \in 1..n : LET wl == SumDx(A, j, A[j][10])  w2 == SumDx(A, j, 1 - A[j][10])
                                 IN (fr # 0 /\ A[j][8] # CT!StoredCnt(fr, wl, A[j][7])) \/ A[j][9] # CT!StoredCnt2(fr, w2)}   \* under EvenOdd wind_cnt carries no information (the table ignores it)
          bad4 == {j \in 1..n : (A[j][12] = 1) # CT!ContribClosed(fr, ct, A[j][10] + 1, A[j][8], A[j][9])}
      IN /\ Chk(asSet = {cs.edges[i] : i \in want} /\ n = Cardinality(want), "ENGINE", "V1_ael_is_not_the_set_of_edges_spanning_the_scanbeam", y)
         /\ Chk(\A j \in 1..(n - 1) : A[j][6] <= A[j + 1][6], "ENGINE", "V2_ael_not_sorted_by_x", y)
         /\ Chk(bad3 = {}, "ENGINE", "V3_wind_counts_differ_from_region_windings", IF bad3 = {} THEN 0 ELSE CHOOSE j \in bad3 : TRUE)
         \* V4 only in general position: with coincident or touching edges (rectilinear walks) which of two coincident edges is hot is the engine's choice
         /\ (cs.gp => Chk(bad4 = {}, "ENGINE", "V4_hot_flag_differs_from_contribution_table", IF bad4 = {} THEN 0 ELSE CHOOSE j \in bad4 : TRUE))
         /\ Chk(SumDx(A, n + 1, 0) = 0 /\ SumDx(A, n + 1, 1) = 0, "ENGINE", "V5_windings_do_not_close", y)
         /\ (cs.gp => LET hot == {j \in 1..n : A[j][12] = 1}
                           rings == {A[j][13] : j \in hot}
                           of(r) == {j \in hot : A[j][13] = r}
                           bad8 == {r \in rings : ~(Cardinality(of(r)) = 2 /\ {A[j][14] : j \in of(r)} = {1, 2})}
                           lo(r) == CHOOSE j \in of(r) : \A k \in of(r) : j <= k
                           hi(r) == CHOOSE j \in of(r) : \A k \in of(r) : j >= k
                           bad9 == {pr \in (rings \ bad8) \X (rings \ bad8) : lo(pr[1]) < lo(pr[2]) /\ lo(pr[2]) < hi(pr[1]) /\ hi(pr[1]) < hi(pr[2])}
                       IN /\ Chk(bad8 = {} /\ \A j \in 1..n : (A[j][12] = 1) = (A[j][13] >= 0), "ENGINE", "V8_ring_not_held_by_front_and_back_edge", IF bad8 = {} THEN -1 ELSE CHOOSE r \in bad8 : TRUE)
                          /\ Chk(bad9 = {}, "ENGINE", "V9_rings_under_construction_interleave", IF bad9 = {} THEN 0 ELSE CHOOSE pr \in bad9 : TRUE)
                          /\ LET bad10 == {r \in rings \ bad8 : (A[lo(r)][14] = 1) # (Cardinality({j \in hot : j < lo(r)}) % 2 = 0)}
                             IN Chk(bad10 = {}, "ENGINE", "V10_front_edge_side_differs_from_nesting_parity", IF bad10 = {} THEN -1 ELSE CHOOSE r \in bad10 : TRUE))
TIsects ==
  /\ Ev.e = "Isects"
  /\ UNCHANGED cs
  /\ cs.gp =>
      LET X == Ev.x  n == Len(X)
          E == [i \in 1..Len(cs.edges) |-> <<cs.edges[i][1], cs.edges[i][2]>>]
          wantPairs == {{i, j} : i \in 1..Len(E), j \in 1..Len(E)} \ {{i} : i \in 1..Len(E)}
          crossing == {pr \in wantPairs : LET i == CHOOSE a \in pr : TRUE  j == CHOOSE b \in pr : b # i IN ProperCross(E[i], E[j])}
          got == [k \in 1..n |-> {<<<<X[k][1], X[k][2]>>, <<X[k][3], X[k][4]>>>>, <<<<X[k][5], X[k][6]>>, <<X[k][7], X[k][8]>>>>}]
          asEdges(pr) == {E[i] : i \in pr}
          bad7 == {k \in 1..n : LET e == <<<<X[k][1], X[k][2]>>, <<X[k][3], X[k][4]>>>>  f == <<<<X[k][5], X[k][6]>>, <<X[k][7], X[k][8]>>>>
                                 IN ~ (ProperCross(e, f) /\ LET c == CrossPt(e, f) IN Abs(X[k][9] * c[3] - c[1]) <= c[3] /\ Abs(X[k][10] * c[3] - c[2]) <= c[3] /\ X[k][10] <= X[k][11] /\ X[k][10] >= X[k][12])}
      IN /\ Chk({got[k] : k \in 1..n} = {asEdges(pr) : pr \in crossing} /\ n = Cardinality(crossing), "ENGINE", "V6_swapped_pairs_are_not_the_crossing_pairs", <<n, Cardinality(crossing)>>)
         /\ Chk(bad7 = {}, "ENGINE", "V7_intersection_point_is_not_the_rounded_crossing", IF bad7 = {} THEN 0 ELSE CHOOSE k \in bad7 : TRUE)
         /\ Chk(\A k \in 1..(n - 1) : X[k][11] >= X[k + 1][11], "ENGINE", "V7_scanbeams_not_visited_bottom_up", 0)
InBeam(x) == /\ x[12] <= x[10] /\ x[10] <= x[11]                                   \* top y <= pt.y <= bottom y (y grows downwards in the sweep)
             /\ x[4] <= x[10] /\ x[10] <= x[2] /\ x[8] <= x[10] /\ x[10] <= x[6]         \* within both edges' y extent
TIsBig == /\ Ev.e = "IsBig"
          /\ UNCHANGED cs
          /\ LET bad == {k \in 1..Len(Ev.x) : ~InBeam(Ev.x[k])}
             IN Chk(bad = {}, "ENGINE", "V7a_intersection_point_outside_its_scanbeam", IF bad = {} THEN 0 ELSE Ev.x[CHOOSE k \in bad : TRUE])
TCrash == Ev.e = "Crash" /\ UNCHANGED cs /\ Report("ANY", "call_did_not_return", Ev.sig)
Init == l = 1 /\ cs = [gp |-> FALSE, ok |-> FALSE, edges |-> <<>>]
Next == l <= Len(Tr) /\ l' = l + 1 /\ (TCase \/ TAel \/ TIsects \/ TIsBig \/ TCrash)
Spec == Init /\ [][Next]_<<l, cs>>
=============================================================================
