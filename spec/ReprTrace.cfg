SPECIFICATION Spec2
CHECK_DEADLOCK FALSE
