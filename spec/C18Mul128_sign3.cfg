CONSTANT W = 3
CONSTANT MODE = "sign"
SPECIFICATION Spec
INVARIANT MulCorrect
INVARIANT SignCorrect
CHECK_DEADLOCK FALSE
