CONSTANT W = 3
CONSTANT MODE = "sign"
CONSTANT RNG = 8
SPECIFICATION Spec
INVARIANT MulCorrect
INVARIANT SignCorrect
CHECK_DEADLOCK FALSE
