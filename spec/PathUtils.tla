----------------------------- MODULE PathUtils -----------------------------
(* Layer 1 (C20): the contracts of the path utilities, written from the property      *)
(* statement and the documented interface - nothing here is transcribed from the      *)
(* implementation.  A path is a sequence of integer points <<x, y>>; epsilon is the    *)
(* rational en / ed (ed > 0) so that halves are exact; all comparisons are exact       *)
(* integer inequalities (coordinates |c| <= 64 keep cross^2 * ed^2 below 2^31).        *)
EXTENDS PathOps

(* ---------------------------------------------------------------- distances *)
(* dist(p, line through a and b) <= en/ed.  When a = b "the line through a and b" is   *)
(* read as the point a (the only reading under which the bound says anything).         *)
WithinLine(p, a, b, en, ed) ==
  IF a = b THEN Dist2(p, a) * ed * ed <= en * en
  ELSE LET c == Cross(a, b, p) IN c * c * ed * ed <= en * en * Dist2(a, b)

(* ---------------------------------------------------------------- subsequences *)
(* out is obtained from in by deleting vertices; with ends = TRUE the first and the    *)
(* last vertex of in (as positions, not just as values) are among the survivors.       *)
KeepsEnds(out, in) ==
  IF Len(in) <= 1 THEN out = in
  ELSE /\ Len(out) >= 2
       /\ out[1] = in[1] /\ out[Len(out)] = in[Len(in)]
       /\ IsSubseq(SubSeq(out, 2, Len(out) - 1), SubSeq(in, 2, Len(in) - 1))

(* the sub-path of P at the indices satisfying K, in order *)
Pick(P, K(_)) == LET idx == SetToSortSeq({i \in 1..Len(P) : K(i)}, <)
                 IN [k \in 1..Len(idx) |-> P[idx[k]]]

(* ---------------------------------------------------------------- TrimCollinear *)
(* neighbours of vertex i: cyclic on a closed path, none for the ends of an open one *)
HasNb(P, closed, i) == IF closed THEN Len(P) >= 1 ELSE 1 < i /\ i < Len(P)
Straight(P, closed, i) == HasNb(P, closed, i) /\ Cross(Prv(P, i), P[i], Nxt(P, i)) = 0
Reversal(P, closed, i) == /\ Straight(P, closed, i)
                          /\ Dot(P[i], Prv(P, i), Nxt(P, i)) > 0          \* both neighbours on the same side
RepeatAt(P, closed, i) == IF closed THEN P[i] = Nxt(P, i) ELSE i < Len(P) /\ P[i] = P[i + 1]
(* the input class of the conditional clauses: no repeated points, no 180-degree reversals *)
Clean(P, closed) ==
  /\ Len(P) >= (IF closed THEN 3 ELSE 2)
  /\ \A i \in 1..Len(P) : ~RepeatAt(P, closed, i) /\ ~Reversal(P, closed, i)
(* the corner vertices: every vertex at which the path turns, plus the ends of an open path *)
Corners(P, closed) == Pick(P, LAMBDA i : ~Straight(P, closed, i))
NoCollinearTriple(Q, closed) ==
  IF closed THEN Len(Q) >= 3 => \A i \in 1..Len(Q) : Cross(Prv(Q, i), Q[i], Nxt(Q, i)) # 0
  ELSE \A i \in 2..(Len(Q) - 1) : Cross(Q[i - 1], Q[i], Q[i + 1]) # 0

(* a zero-length open path (one point, or two equal points) - class predicate of the   *)
(* recorded finding "TrimCollinear empties a zero-length open path"                    *)
ZeroLenShort(P) == Len(P) \in {1, 2} /\ \A i \in 1..Len(P) : P[i] = P[1]

(* failed clauses of out = TrimCollinear(in, open), out2 = TrimCollinear(out, open) *)
TrimFails(in, closed, out, out2) ==
  LET clean == Clean(in, closed)
  IN  (IF IsSubseq(out, in) THEN {} ELSE {"trim_not_subsequence"})
      \cup (IF closed \/ KeepsEnds(out, in) THEN {}
            ELSE IF ZeroLenShort(in) /\ out = <<>> THEN {"trim_open_zero_length_emptied"}
            ELSE {"trim_open_end_dropped"})
      \cup (IF closed /\ Area2(out) # Area2(in) THEN {"trim_area_changed"} ELSE {})
      \cup (IF clean /\ out # Corners(in, closed) THEN {"trim_not_corners"} ELSE {})
      \cup (IF clean /\ ~NoCollinearTriple(out, closed) THEN {"trim_collinear_left"} ELSE {})
      \cup (IF clean /\ out2 # out THEN {"trim_not_idempotent"} ELSE {})

(* ---------------------------------------------------------------- RamerDouglasPeucker *)
(* there is a choice of surviving positions j_1 = 1 < ... < j_m = Len(in) spelling out    *)
(* such that every deleted vertex is within eps of the line through the two survivors     *)
(* around it.  (The survivors are not reported by the library and repeated points make    *)
(* them ambiguous, hence the existential; RdpFrom(i, j): out[i] sits at in[j] and the      *)
(* rest of out can be placed.)                                                             *)
RECURSIVE RdpFrom(_, _, _, _, _, _)
RdpFrom(out, in, i, j, en, ed) ==
  IF i = Len(out) THEN j = Len(in)
  ELSE \E j2 \in (j + 1)..Len(in) :
         /\ in[j2] = out[i + 1]
         /\ \A k \in (j + 1)..(j2 - 1) : WithinLine(in[k], in[j], in[j2], en, ed)
         /\ RdpFrom(out, in, i + 1, j2, en, ed)
RdpWithin(out, in, en, ed) ==
  IF Len(in) <= 1 THEN out = in
  ELSE Len(out) >= 2 /\ out[1] = in[1] /\ RdpFrom(out, in, 1, 1, en, ed)

(* class predicate of finding S3: the call's path starts and ends at the same point (and *)
(* is long enough for the function to do anything at all)                                *)
RdpFirstEqLast(in) == Len(in) >= 5 /\ in[1] = in[Len(in)]

RdpFails(in, out, en, ed) ==
  LET f == (IF IsSubseq(out, in) THEN {} ELSE {"rdp_not_subsequence"})
           \cup (IF KeepsEnds(out, in) THEN {} ELSE {"rdp_end_dropped"})
           \cup (IF ~KeepsEnds(out, in) \/ RdpWithin(out, in, en, ed) THEN {} ELSE {"rdp_removed_vertex_beyond_eps"})
  IN IF f # {} /\ RdpFirstEqLast(in) THEN {"rdp_first_eq_last"} ELSE f

(* ---------------------------------------------------------------- SimplifyPath *)
(* no removable vertex left: every remaining vertex that has two neighbours in the result *)
(* is farther than eps from the line through them                                          *)
NoRemovable(Q, closed, en, ed) ==
  IF closed THEN Len(Q) >= 3 => \A i \in 1..Len(Q) : ~WithinLine(Q[i], Prv(Q, i), Nxt(Q, i), en, ed)
  ELSE \A i \in 2..(Len(Q) - 1) : ~WithinLine(Q[i], Q[i - 1], Q[i + 1], en, ed)

(* class predicate of finding S10 *)
SimpShort(in) == Len(in) < 4

SimpFails(in, closed, out, en, ed) ==
  (IF IsSubseq(out, in) THEN {} ELSE {"simplify_not_subsequence"})
  \cup (IF closed \/ KeepsEnds(out, in) THEN {} ELSE {"simplify_open_end_dropped"})
  \cup (IF NoRemovable(out, closed, en, ed) THEN {}
        ELSE IF SimpShort(in) THEN {"simplify_fewer_than_4_points"} ELSE {"simplify_removable_vertex_left"})

(* ---------------------------------------------------------------- defining equations *)
RECURSIVE DropTailEq(_, _)
DropTailEq(Q, f) == IF Len(Q) > 1 /\ Q[Len(Q)] = f THEN DropTailEq(SubSeq(Q, 1, Len(Q) - 1), f) ELSE Q

(* StripDuplicates: one vertex per run of equal consecutive vertices; a closed path also  *)
(* loses trailing vertices equal to its first one                                          *)
StripDup(P, closed) ==
  LET U == Pick(P, LAMBDA i : i = 1 \/ P[i] # P[i - 1])
  IN IF closed /\ U # <<>> THEN DropTailEq(U, U[1]) ELSE U

(* StripNearEqual(path, max_dist_sqrd = mn/md): walking along the path a vertex survives  *)
(* iff its squared distance to the last survivor is not below the threshold; a closed     *)
(* path also loses trailing survivors that are near the first vertex                       *)
Near(p, q, mn, md) == Dist2(p, q) * md < mn
RECURSIVE DropTailNear(_, _, _, _)
DropTailNear(Q, f, mn, md) == IF Len(Q) > 1 /\ Near(Q[Len(Q)], f, mn, md) THEN DropTailNear(SubSeq(Q, 1, Len(Q) - 1), f, mn, md) ELSE Q
RECURSIVE SneFrom(_, _, _, _, _)
SneFrom(P, i, last, mn, md) ==
  IF i > Len(P) THEN <<>>
  ELSE IF Near(P[i], last, mn, md) THEN SneFrom(P, i + 1, last, mn, md)
  ELSE <<P[i]>> \o SneFrom(P, i + 1, P[i], mn, md)
StripNear(P, closed, mn, md) ==
  IF P = <<>> THEN <<>>
  ELSE LET R == <<P[1]>> \o SneFrom(P, 2, P[1], mn, md)
       IN IF closed THEN DropTailNear(R, P[1], mn, md) ELSE R

Translate(P, dx, dy) == [i \in 1..Len(P) |-> <<P[i][1] + dx, P[i][2] + dy>>]

(* GetBounds of a non-empty path: <<left, top, right, bottom>> = <<min x, min y, max x, max y>> *)
Bounds(P) == BBox(<<P>>)

(* Length: sum of the Euclidean edge lengths (closing edge included for a closed path),   *)
(* bracketed in units of 1/s:  LenLo <= s * Length <= LenHi                                 *)
LenEdges(P, closed) == IF Len(P) < 2 THEN <<>> ELSE IF closed THEN PEdges(P) ELSE OEdges(P)
LenLo(P, closed, s) == LET E == LenEdges(P, closed) IN SumF([i \in 1..Len(E) |-> ISqrtLo(Dist2(E[i][1], E[i][2]) * s * s)], Len(E))
LenHi(P, closed, s) == LET E == LenEdges(P, closed) IN SumF([i \in 1..Len(E) |-> ISqrtHi(Dist2(E[i][1], E[i][2]) * s * s)], Len(E))

(* ---------------------------------------------------------------- Ellipse *)
(* Ellipse(center c, radii a2/2 and b2/2, steps): doubled radii so that halves are exact.  *)
(* The integer vertices are the points c + (rx cos t_i, ry sin t_i), t_i = 2 pi i / n,     *)
(* rounded; a rounded point is within 1 of the ellipse E, hence inside (1 + 1/m) E and     *)
(* outside the interior of (1 - 1/m) E, m = min(rx, ry) (the unit disc is inside E / m and  *)
(* E + tE = (1 + t)E for convex E).  In doubled coordinates X = 2(x - cx), Y = 2(y - cy):   *)
EllBand(q, c, a2, b2) ==
  LET X == 2 * (q[1] - c[1])  Y == 2 * (q[2] - c[2])  m == Min2(a2, b2)
      v == m * m * (b2 * b2 * X * X + a2 * a2 * Y * Y)
  IN /\ v <= a2 * a2 * b2 * b2 * (m + 2) * (m + 2)
     /\ m >= 2 => v >= a2 * a2 * b2 * b2 * (m - 2) * (m - 2)
(* default vertex count floor(pi * sqrt((rx + ry) / 2)) with 9.8696 < pi^2 < 9.8697; s4 = a2 + b2 = 4 * (rx + ry) / 2 *)
EllDefaultCount(n, s4) == /\ 4 * 10000 * n * n <= 98697 * s4
                          /\ 4 * 10000 * (n + 1) * (n + 1) > 98696 * s4
=============================================================================
