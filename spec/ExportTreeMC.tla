---------------------------- MODULE ExportTreeMC ----------------------------
(* C17 design-level model checking of the CPolyTree layout (ExportLayout.tla) in small scope: *)
(* every forest with <= 2 top-level nodes, <= 2 children per node, nesting depth <= 3 and      *)
(* polygons of 1..3 vertices (3 polygons over the 3-value coordinate domain) is an initial     *)
(* state; invariant: DecTree(EncTree(t)) = t, first element = length = documented size, the    *)
(* parser consumes exactly the stated length.                                                  *)
EXTENDS Integers, Sequences, FiniteSets, TLC
CONSTANTS Z
Id(n) == n
DimC == 2 + Z
L == INSTANCE ExportLayout WITH K <- Id, KInv <- Id, Dim <- DimC
V(x, y, z) == IF Z = 1 THEN <<x, y, z>> ELSE <<x, y>>
Polys == {<<V(0, 1, 2)>>, <<V(1, 2, 0), V(2, 0, 1)>>, <<V(2, 2, 1), V(0, 0, 0), V(1, 0, 2)>>}
SeqUpTo2(S) == {<<>>} \cup {<<a>> : a \in S} \cup {<<a, b>> : a \in S, b \in S}
T0 == {[poly |-> p, kids |-> <<>>] : p \in Polys}
T1 == {[poly |-> p, kids |-> k] : p \in Polys, k \in SeqUpTo2(T0)}
T2 == {[poly |-> p, kids |-> k] : p \in Polys, k \in SeqUpTo2(T1)}
Forest == SeqUpTo2(T1) \cup {<<a>> : a \in T2} \cup {<<a, b, c>> : a \in T0, b \in T0, c \in T0}
VARIABLE t
Init == t \in Forest
Next == UNCHANGED t
Spec == Init /\ [][Next]_t
InvTree == L!ThmTree(t)
=============================================================================
