CONSTANT G = 3
CONSTANT N = 3
CONSTANT LB = 12
SPECIFICATION Spec
INVARIANT InBounds
INVARIANT Correct
INVARIANT Degenerate
INVARIANT Bounded
CHECK_DEADLOCK TRUE
