CONSTANT LB = 3
CONSTANT R = 300
SPECIFICATION Spec
INVARIANT OK
CHECK_DEADLOCK FALSE
