------------------------------ MODULE Threads ------------------------------
(* Layer 1 (C14): independent objects can be used from different threads.                  *)
(* Each thread t owns its objects and runs a program, modelled as Seg[t] atomic segments     *)
(* delimited by the library's yield points (one per scanbeam of a sweep, per offset path,     *)
(* per rect-clipped path).  The only shared object is a ReuseableDataContainer64 that is      *)
(* read-only after set-up.  A step lets one thread run its next segment.  The library keeps   *)
(* no state outside objects, so the specification's state is just the program counters: the   *)
(* result of every program must equal its result in the sequential run, under EVERY schedule. *)
(* Used three ways: the invariants below are model-checked; Emit prints every complete        *)
(* schedule (a sequence of thread ids), which harness/fam_thr replays under a cooperative      *)
(* scheduler; ThreadsTrace.tla validates the recorded runs.                                   *)
EXTENDS Integers, Sequences, FiniteSets, TLC, Json
CONSTANTS NT, NSeg            \* number of threads; segments per thread (same for all)
VARIABLES pc, sched
vars == <<pc, sched>>
Thr == 1..NT
Init == pc = [t \in Thr |-> 0] /\ sched = <<>>
Run(t) == pc[t] < NSeg /\ pc' = [pc EXCEPT ![t] = @ + 1] /\ sched' = Append(sched, t)
Next == \E t \in Thr : Run(t)
Spec == Init /\ [][Next]_vars
Done == \A t \in Thr : pc[t] = NSeg
TypeOK == pc \in [Thr -> 0..NSeg] /\ Len(sched) = pc[1] + (IF NT > 1 THEN pc[2] ELSE 0) + (IF NT > 2 THEN pc[3] ELSE 0)
(* a schedule is legal iff every thread's segments are counted by its pc: program order is never violated *)
Legal(s, nt, nseg) == /\ \A i \in 1..Len(s) : s[i] \in 1..nt
                      /\ \A t \in 1..nt : Cardinality({i \in 1..Len(s) : s[i] = t}) <= nseg
SchedLegal == Legal(sched, NT, NSeg)
(* bounded pre-emption variant for three threads: at most MaxPre context switches away from an unfinished thread *)
CONSTANT MaxPre
Pre(s) == Cardinality({i \in 1..(Len(s) - 1) : s[i] # s[i + 1] /\ Cardinality({j \in 1..i : s[j] = s[i]}) < NSeg})
Constr == Pre(sched) <= MaxPre
Emit == Done => PrintT(<<"OUT", ToJson(sched)>>)
=============================================================================
