CONSTANTS MaxP = 3 MaxV = 3 Z = 1 Full = 0
SPECIFICATION Spec
INVARIANTS InvPaths InvPathsAll InvPath
CHECK_DEADLOCK FALSE
