------------------------------- MODULE GenRC -------------------------------
(* Generator for family F-RC (C08, C09): EVERY sequence of NV points of the 5x5 lattice with   *)
(* step 8 (unit coordinates 0,8,..,32), for each NV in Lens - closed paths for RectClip, open  *)
(* polylines for RectClipLines - written as ndjson for harness/fam_c08.cpp (--fam in).  No      *)
(* expected result is written: RectClipTrace / RectClipLinesTrace judge what the library       *)
(* returned for the path the harness reports it used.                                          *)
EXTENDS Integers, Sequences, FiniteSets, TLC, Json, IOUtils, SequencesExt
CONSTANT Lens
Lat == {<<8 * i, 8 * j>> : i \in 0..4, j \in 0..4}
Seqs(n) == [1..n -> Lat]
Cases == UNION {{[P |-> s] : s \in Seqs(n)} : n \in Lens}
RECURSIVE Pow(_, _)
Pow(b, n) == IF n = 0 THEN 1 ELSE b * Pow(b, n - 1)
RECURSIVE SumPow(_)
SumPow(S) == IF S = {} THEN 0 ELSE LET n == CHOOSE n \in S : TRUE IN Pow(25, n) + SumPow(S \ {n})
ASSUME Cardinality(Cases) = SumPow(Lens)
ASSUME ndJsonSerialize(IOEnv.OUT, SetToSeq(Cases))
ASSUME PrintT(<<"OUT", Cardinality(Cases)>>)
VARIABLE z
Init == z = 0
Next == z' = z
Spec == Init /\ [][Next]_z
=============================================================================
