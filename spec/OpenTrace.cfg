SPECIFICATION Spec3
CHECK_DEADLOCK FALSE
