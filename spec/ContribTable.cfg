CONSTANT WMax = 4
INIT Init
NEXT Next
INVARIANT Theorems
