----------------------------- MODULE ReprTrace -----------------------------
(* Layer 3 (C13): results are independent of representation and obey set algebra.        *)
(* Extends BoolTrace with the transformation group G acting on an input:                  *)
(*   representation-only generators  perm (path order), rot (start vertex), dup           *)
(*   (duplicate vertex), close (explicit closing vertex)                                   *)
(*   role / orientation generators   swap (subject <-> clip), rev (reverse all paths)       *)
(*   geometric generators            tr (translate), tp (transpose), mx (mirror), sc (scale) *)
(* Trace: Case/Out/Execs of a base input, then "Base"; then for each transformed copy       *)
(* Case/Out/Execs followed by "Rel" carrying the generator list.  TLC (a) recomputes the     *)
(* transformed input from the base input with ApplyG - the harness must have executed        *)
(* exactly that - and (b) checks the relation between the two solutions: identical bags of   *)
(* canonical rings for non-geometric lists, identical cover at the mapped clear sample       *)
(* points for geometric ones; swap only for Intersection/Union/Xor; an odd number of         *)
(* orientation reversals exchanges Positive and Negative.  "Alg" checks Xor = Union minus    *)
(* Intersection and Difference + Intersection = Subject on the observed covers.              *)
EXTENDS BoolTrace

VARIABLES exs, base
vars2 == <<l, cs, outs, exs, base>>

SetPath(Ps, k, P) == [Ps EXCEPT ![k] = P]
InsertAfter(P, i, v) == SubSeq(P, 1, i) \o <<v>> \o SubSeq(P, i + 1, Len(P))
MapPaths(Ps, F(_)) == [k \in 1..Len(Ps) |-> [i \in 1..Len(Ps[k]) |-> F(Ps[k][i])]]

Geo(g) == g[1] \in {"tr", "tp", "mx", "sc", "emb"}     \* "emb": the whole input under a big affine embedding x -> m x + T (harness/common.hpp emb_table), lattice level unchanged
Flips(g) == g[1] \in {"rev", "tp", "mx"}
Swaps(g) == g[1] = "swap"

MapPt(g, p) == CASE g[1] = "tr" -> <<p[1] + g[2], p[2] + g[3]>>
                 [] g[1] = "tp" -> <<p[2], p[1]>>
                 [] g[1] = "mx" -> <<g[2] - p[1], p[2]>>
                 [] g[1] = "sc" -> <<g[2] * p[1], g[2] * p[2]>>
                 [] OTHER -> p

ApplyG(g, in) ==
  LET S == in.s  C == in.c
      who(w) == IF w = 1 THEN S ELSE C
      put(w, Ps) == IF w = 1 THEN [s |-> Ps, c |-> C] ELSE [s |-> S, c |-> Ps]
  IN CASE g[1] = "perm"  -> [s |-> [i \in 1..Len(S) |-> S[g[2][i]]], c |-> [i \in 1..Len(C) |-> C[g[3][i]]]]
       [] g[1] = "rot"   -> put(g[2], SetPath(who(g[2]), g[3], Rot(who(g[2])[g[3]], g[4])))
       [] g[1] = "dup"   -> put(g[2], SetPath(who(g[2]), g[3], InsertAfter(who(g[2])[g[3]], g[4], who(g[2])[g[3]][g[4]])))
       [] g[1] = "close" -> put(g[2], SetPath(who(g[2]), g[3], Append(who(g[2])[g[3]], who(g[2])[g[3]][1])))
       [] g[1] = "swap"  -> [s |-> C, c |-> S]
       [] g[1] = "rev"   -> [s |-> [k \in 1..Len(S) |-> RevPath(S[k])], c |-> [k \in 1..Len(C) |-> RevPath(C[k])]]
       [] OTHER          -> [s |-> MapPaths(S, LAMBDA p : MapPt(g, p)), c |-> MapPaths(C, LAMBDA p : MapPt(g, p))]

RECURSIVE ApplyAll(_, _, _)
ApplyAll(gs, i, in) == IF i > Len(gs) THEN in ELSE ApplyAll(gs, i + 1, ApplyG(gs[i], in))
RECURSIVE MapAll(_, _, _)
MapAll(gs, i, p) == IF i > Len(gs) THEN p ELSE MapAll(gs, i + 1, MapPt(gs[i], p))
Parity(gs, P(_)) == Cardinality({i \in 1..Len(gs) : P(gs[i])}) % 2 = 1

ExsOf(x) == LET idx == {i \in 1..Len(x) : x[i][5] = 0}
            IN [c \in {<<x[i][1], x[i][2], x[i][3], x[i][4]>> : i \in idx} |->
                  x[CHOOSE i \in idx : <<x[i][1], x[i][2], x[i][3], x[i][4]>> = c][7]]

TCase2  == TCase /\ exs' = <<>> /\ UNCHANGED base
TOut2   == TOut /\ UNCHANGED <<exs, base>>
TExecs2 == TExecs /\ exs' = ExsOf(Ev.x) /\ UNCHANGED base
TBase   == Ev.e = "Base" /\ base' = [cs |-> cs, outs |-> outs, exs |-> exs] /\ UNCHANGED <<cs, outs, exs>>

TRel ==
  /\ Ev.e = "Rel"
  /\ UNCHANGED <<cs, outs, exs, base>>
  /\ LET gs == Ev.gs
         img == ApplyAll(gs, 1, [s |-> base.cs.subj, c |-> base.cs.clip])
         geo == \E i \in 1..Len(gs) : Geo(gs[i])
         flip == Parity(gs, Flips)
         sw == Parity(gs, Swaps)
         BCfg(c) == <<c[1], IF flip THEN MirrorFR(c[2]) ELSE c[2], c[3], c[4]>>
         judged == {c \in DOMAIN exs : base.cs.gp /\ c[1] # 0 /\ (~sw \/ c[1] \in {1, 2, 4}) /\ BCfg(c) \in DOMAIN base.exs
                                       /\ (geo \/ (outs[exs[c]].lat /\ base.outs[base.exs[BCfg(c)]].lat))}
         badExact == {c \in judged : ~SameRings(outs[exs[c]].paths, base.outs[base.exs[BCfg(c)]].paths)}
         badCover == {c \in judged : \E i \in 1..Len(cs.pts) : base.cs.clearT[i] /\ outs[exs[c]].cover[i] # base.outs[base.exs[BCfg(c)]].cover[i]}
     IN /\ Chk(img.s = cs.subj /\ img.c = cs.clip, "HARNESS", "transformed_input_is_not_the_generators_image", Len(gs))
        /\ Chk(Len(cs.pts) = Len(base.cs.pts) /\ \A i \in 1..Len(cs.pts) : cs.pts[i] = MapAll(gs, 1, base.cs.pts[i]), "HARNESS", "sample_points_not_mapped", 0)
        /\ Chk(judged # {} \/ ~base.cs.gp \/ \E i \in 1..Len(gs) : gs[i][1] = "emb", "HARNESS", "relation_vacuous", 0)
        /\ Chk((\E i \in 1..Len(gs) : gs[i][1] = "emb") => (Len(gs) = 1 /\ cs.emb = gs[1][2]), "HARNESS", "embedding_not_applied", 0)
        /\ IF geo THEN Chk(badCover = {}, "C13", "transformation_changes_region", IF badCover = {} THEN <<>> ELSE CHOOSE c \in badCover : TRUE)
                  ELSE Chk(badExact = {}, "C13", "representation_changes_paths", IF badExact = {} THEN <<>> ELSE CHOOSE c \in badExact : TRUE)

TAlg ==
  /\ Ev.e = "Alg"
  /\ UNCHANGED <<cs, outs, exs, base>>
  /\ cs.gp =>
       \A fr \in 0..3 : \A pc \in {0, 1} :
         LET K(ct) == outs[exs[<<ct, fr, pc, 0>>]].cover
             pts == {i \in 1..Len(cs.pts) : cs.clearT[i]}
         IN (\A ct \in 1..4 : <<ct, fr, pc, 0>> \in DOMAIN exs) =>
              /\ Chk(\A i \in pts : K(4)[i] = (IF K(2)[i] = 1 /\ K(1)[i] = 0 THEN 1 ELSE 0), "C13", "xor_is_not_union_minus_intersection", <<fr, pc>>)
              /\ Chk(\A i \in pts : K(3)[i] + K(1)[i] = (IF Filled(fr, cs.ws[i]) THEN 1 ELSE 0), "C13", "difference_and_intersection_do_not_partition_subject", <<fr, pc>>)

Init2 == Init /\ exs = <<>> /\ base = <<>>
Next2 == /\ l <= Len(Tr)
         /\ l' = l + 1
         /\ (TCase2 \/ TOut2 \/ TExecs2 \/ TBase \/ TRel \/ TAlg \/ (TCrash /\ UNCHANGED <<exs, base>>))
Spec2 == Init2 /\ [][Next2]_vars2
=============================================================================
