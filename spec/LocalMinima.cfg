CONSTANTS MaxLen = 7 YVals = {0, 1, 2}
SPECIFICATION Spec
INVARIANTS ScanMatchesDeclaration Alternate
CHECK_DEADLOCK FALSE
