CONSTANTS Kind = "rc" N = 4 K = 1 G = 3
SPECIFICATION Spec
INVARIANTS Emit
CHECK_DEADLOCK FALSE
