------------------------------ MODULE CallTrace ------------------------------
(* Layer 1/3 (C10): the call protocol of every public operation.                               *)
(*   Call(id, fault)    a public operation is entered; fault = k > 0 means the k-th allocation   *)
(*                      made during the operation is made to fail, 0 = no fault                  *)
(*   Return(id)         it returned to the caller                                               *)
(*   Throw(id, what)    an exception reached the caller                                         *)
(*   Destroyed(id, leak)every object involved was destroyed; leak = bytes LeakSanitizer reports  *)
(* Allowed behaviours:  Call . Return . Destroyed(leak = 0)      when fault = 0 or the faulty     *)
(*                                                               allocation was never reached    *)
(*                      Call . Throw("bad_alloc") . Destroyed(0) only when fault > 0             *)
(* Nothing else: a Crash event (signal, sanitizer abort, watchdog timeout - written by the       *)
(* harness's parent process when the child running the call died) has no transition here.        *)
EXTENDS Integers, Sequences, TLC, Json, IOUtils

VARIABLES l, pc, cur
vars == <<l, pc, cur>>
Tr == ndJsonDeserialize(IOEnv.TRACE)
Ev == Tr[l]
Report(prop, clause, d) == PrintT(<<"FAIL", prop, l, clause, d>>)

TCall == /\ Ev.e = "Call" /\ pc = "idle"
         /\ pc' = "called" /\ cur' = [id |-> Ev.id, fault |-> Ev.fault]
TReturn == /\ Ev.e = "Return" /\ pc = "called" /\ Ev.id = cur.id
           /\ pc' = "returned" /\ UNCHANGED cur
           \* with a fault injected the call may only return normally if the faulty allocation was not reached
           /\ IF cur.fault > 0 /\ Ev.reached = 1 THEN Report("C10", "allocation_failure_swallowed", cur.fault) ELSE TRUE
TThrow == /\ Ev.e = "Throw" /\ pc = "called" /\ Ev.id = cur.id
          /\ pc' = "returned" /\ UNCHANGED cur
          /\ IF cur.fault > 0 /\ Ev.what = "bad_alloc" THEN TRUE ELSE Report("C10", "unexpected_exception", Ev.what)
TDestroyed == /\ Ev.e = "Destroyed" /\ pc = "returned" /\ Ev.id = cur.id
              /\ pc' = "idle" /\ UNCHANGED cur
              \* the failure clause demands that bad_alloc reaches the caller and that the objects stay destructible; memory that
              \* is lost when the sweep is abandoned half-way (raw objects not yet linked to their owner) is recorded, not judged
              /\ IF Ev.leak = 0 THEN TRUE
                 ELSE IF cur.fault > 0 THEN PrintT(<<"NOTE", "leak_on_bad_alloc_path", l, cur.fault>>)
                 ELSE Report("C10", "leak", Ev.leak)
(* unexplained steps: reported, and the automaton resynchronises so the rest of the trace is still checked *)
TCrash == /\ Ev.e = "Crash"
          /\ pc' = "idle" /\ UNCHANGED cur
          /\ Report("C10", IF Ev.sig = 14 THEN "call_did_not_return_in_time" ELSE "crash_or_sanitizer_abort", Ev.sig)
TBad == /\ Ev.e \in {"Call", "Return", "Throw", "Destroyed"}
        /\ ~(\/ (Ev.e = "Call" /\ pc = "idle") \/ (Ev.e \in {"Return", "Throw"} /\ pc = "called" /\ Ev.id = cur.id)
             \/ (Ev.e = "Destroyed" /\ pc = "returned" /\ Ev.id = cur.id))
        /\ pc' = "idle" /\ UNCHANGED cur
        /\ Report("HARNESS", "protocol_out_of_order", Ev.e)

Init == l = 1 /\ pc = "idle" /\ cur = [id |-> 0, fault |-> 0]
Next == l <= Len(Tr) /\ l' = l + 1 /\ (TCall \/ TReturn \/ TThrow \/ TDestroyed \/ TCrash \/ TBad)
Spec == Init /\ [][Next]_vars
=============================================================================
