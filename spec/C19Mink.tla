------------------------------- MODULE C19Mink -------------------------------
(* C19 design-level model: the quad construction of detail::Minkowski as a state machine     *)
(* (the g/h/i/j index walk over the translated pattern copies tmp[i][j] = path[i] +- pat[j],  *)
(* the closing-edge start g = pathLen-1 / delta, the orientation normalisation) followed by  *)
(* "Union, NonZero" taken as the Layer-0 definition (Fill!Filled on the summed winding of    *)
(* the quads).  Model-checked EXHAUSTIVELY over C19Scope against the declarative side        *)
(* (C19Def: union of the parallelograms of the property statement):                          *)
(*   QuadsAreParas  the quads built are exactly the parallelograms (as a bag of rings)       *)
(*   NonNegative    every quad has non-negative area after normalisation                     *)
(*   CoverOK        at every sample point (half-integer grid) off the quad edges:               *)
(*                  NonZero-filled(sum of quad windings) <=> inside some parallelogram       *)
(* With NORMALISE = FALSE (C19MinkNoNorm.cfg) CoverOK must FAIL (opposite quads cancel under *)
(* NonZero): the driver runs that configuration as a vacuity guard.  Indices are 1-based.    *)
EXTENDS C19Def, C19Scope, PathOps, Fill, TLC
CONSTANTS NORMALISE, FINE

VARIABLES inp, g, h, i, j, res, pc
vars == <<inp, g, h, i, j, res, pc>>

PatLen == Len(inp.pat)
PathLen == Len(inp.path)
Tmp(a, b) == IF inp.sum THEN PAdd(inp.path[a], inp.pat[b]) ELSE PSub(inp.path[a], inp.pat[b])
Norm(q) == IF NORMALISE /\ Area2(q) < 0 THEN RevPath(q) ELSE q

Init == /\ inp \in {[pat |-> t, path |-> p, closed |-> c, sum |-> s] : t \in Tris, p \in ScopePaths, c \in BOOLEAN, s \in BOOLEAN}
        /\ g = IF inp.closed THEN Len(inp.path) ELSE 1
        /\ h = Len(inp.pat)
        /\ i = IF inp.closed THEN 1 ELSE 2
        /\ j = 1
        /\ res = <<>>
        /\ pc = "loop"

Step == /\ pc = "loop"
        /\ IF i > PathLen
           THEN pc' = "done" /\ UNCHANGED <<inp, g, h, i, j, res>>
           ELSE /\ res' = Append(res, Norm(<<Tmp(g, h), Tmp(i, h), Tmp(i, j), Tmp(g, j)>>))
                /\ h' = j
                /\ IF j = PatLen THEN j' = 1 /\ g' = i /\ i' = i + 1
                                 ELSE j' = j + 1 /\ UNCHANGED <<g, i>>
                /\ UNCHANGED <<inp, pc>>
Next == Step
Spec == Init /\ [][Next]_vars

(* ---- postconditions at "done" *)
Q == Paras(inp.pat, inp.path, inp.closed, inp.sum)
RingKey(c) == LET a == Canon(c) b == Canon(RevPath(c)) IN IF SeqLess(b, a) THEN b ELSE a
BagOf(S) == LET ks == [k \in 1..Len(S) |-> RingKey(S[k])]
            IN [c \in {ks[k] : k \in 1..Len(S)} |-> Cardinality({k \in 1..Len(S) : ks[k] = c})]
QuadsAreParas == pc = "done" => BagOf(res) = BagOf([k \in 1..Len(Q) |-> Corners(Q[k])])
NonNegative == (pc = "done" /\ NORMALISE) => \A k \in 1..Len(res) : Area2(res[k]) >= 0

(* doubled coordinates: sample points are all half-integer points of the box around the result   *)
(* (points outside that box are outside every quad and every parallelogram); for path lengths     *)
(* not in FINE only the unit-cell centres (both coordinates odd) are used                         *)
Grid == LET lo == IF inp.sum THEN 0 ELSE -2 * (N - 1)  hi == IF inp.sum THEN 4 * (N - 1) ELSE 2 * (N - 1)
            G == (lo..hi) \X (lo..hi)
        IN IF Len(inp.path) \in FINE THEN G ELSE {p \in G : p[1] % 2 = 1 /\ p[2] % 2 = 1}
CoverOK == pc = "done" =>
  LET R2 == ScalePaths(res, 2)  E == AllEdges(R2)
      Q2 == Paras(ScalePath(inp.pat, 2), ScalePath(inp.path, 2), inp.closed, inp.sum)
  IN \A p \in Grid : OnAny(E, p) \/ (Filled(1, Wind(E, p)) = InSomePara(p, Q2))
=============================================================================
