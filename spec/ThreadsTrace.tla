--------------------------- MODULE ThreadsTrace ---------------------------
(* Layer 3 (C14): validates recorded concurrent runs.                                          *)
(*  Sched: programs prog[t] run on NT real threads under the cooperative scheduler following      *)
(*         the TLC-enumerated schedule `sched`; eq[t] = 1 iff thread t's results were bit-identical *)
(*         to the sequential run of the same program; ran[t] = segments it ran under the scheduler  *)
(*  Free:  the same programs free-running on many threads of a ThreadSanitizer build; eq as above    *)
(*  Crash: the child died (TSan report, signal, watchdog): no transition explains it                *)
EXTENDS Integers, Sequences, FiniteSets, TLC, Json, IOUtils
VARIABLES l
Tr == ndJsonDeserialize(IOEnv.TRACE)
Ev == Tr[l]
T == INSTANCE Threads WITH NT <- 2, NSeg <- 0, MaxPre <- 0, pc <- <<>>, sched <- <<>>
Report(prop, clause, d) == PrintT(<<"FAIL", prop, l, clause, d>>)
Chk(c, prop, clause, d) == IF c THEN TRUE ELSE Report(prop, clause, d)
TSched == /\ Ev.e = "Sched"
          /\ Chk(T!Legal(Ev.sched, Ev.nt, Ev.nseg), "HARNESS", "illegal_schedule", 0)
          /\ Chk(\A t \in 1..Ev.nt : Ev.ran[t] <= Cardinality({i \in 1..Len(Ev.sched) : Ev.sched[i] = t}), "HARNESS", "ran_more_segments_than_scheduled", 0)
          /\ Chk(\A t \in 1..Ev.nt : Ev.eq[t] = 1, "C14", "result_differs_from_sequential_run_under_schedule", Ev.sched)
TFree == /\ Ev.e = "Free"
         /\ Chk(\A t \in 1..Len(Ev.eq) : Ev.eq[t] = 1, "C14", "result_differs_from_sequential_run_free_running", Ev.nthreads)
TCrash == Ev.e = "Crash" /\ Report("C14", IF Ev.sig = 66 \/ Ev.sig = -66 THEN "data_race_reported_by_tsan" ELSE "concurrent_run_did_not_return", Ev.sig)
Init == l = 1
Next == l <= Len(Tr) /\ l' = l + 1 /\ (TSched \/ TFree \/ TCrash)
Spec == Init /\ [][Next]_l
=============================================================================
