----------------------------- MODULE GenC17Lay ------------------------------
(* Generator (C17 layout): the path sets and forests of the small scope, written as ndjson    *)
(* for the harness, which runs the library's real Create* / Convert* / CreateCPolyTree* on    *)
(* them.  For the Convert* direction TLC also writes the flat arrays themselves               *)
(* (ExportLayout!EncPathsAll keeps empty paths - a grammar-valid array a client may pass;     *)
(* EncPath for the single-path form), for 2 and for 3 cells per vertex; the harness copies    *)
(* the one matching its build verbatim.  Nothing "expected" is written: C17Trace recomputes   *)
(* everything from what the harness logs.                                                     *)
(*   env SCOPE = "MaxP,MaxV" e.g. "3,2";  OUT = file                                          *)
EXTENDS Integers, Sequences, FiniteSets, TLC, Json, IOUtils, SequencesExt
Id(n) == n
L2 == INSTANCE ExportLayout WITH K <- Id, KInv <- Id, Dim <- 2
L3 == INSTANCE ExportLayout WITH K <- Id, KInv <- Id, Dim <- 3
MaxP == IF IOEnv.SCOPE = "3,3" THEN 3 ELSE IF IOEnv.SCOPE = "3,2" THEN 3 ELSE 2
MaxV == IF IOEnv.SCOPE = "3,3" THEN 3 ELSE 2
Verts == {<<0, 1, 2>>, <<1, 2, 0>>, <<2, 0, 1>>}
SeqsUpTo(S, n) == UNION {[1..k -> S] : k \in 0..n}
PathSets == SeqsUpTo(SeqsUpTo(Verts, MaxV), MaxP)
Drop3(ps) == [k \in 1..Len(ps) |-> [i \in 1..Len(ps[k]) |-> <<ps[k][i][1], ps[k][i][2]>>]]
PRec(ps, id) == [id |-> id, ps |-> ps, arr2 |-> L2!EncPathsAll(Drop3(ps)), arr3 |-> L3!EncPathsAll(ps),
                 one2 |-> [k \in 1..Len(ps) |-> L2!EncPath(Drop3(ps)[k])], one3 |-> [k \in 1..Len(ps) |-> L3!EncPath(ps[k])]]
(* forests: as ExportTreeMC (Z = 1) *)
Polys == {<<<<0, 1, 2>>>>, <<<<1, 2, 0>>, <<2, 0, 1>>>>, <<<<2, 2, 1>>, <<0, 0, 0>>, <<1, 0, 2>>>>}
SeqUpTo2(S) == {<<>>} \cup {<<a>> : a \in S} \cup {<<a, b>> : a \in S, b \in S}
T0 == {[poly |-> p, kids |-> <<>>] : p \in Polys}
T1 == {[poly |-> p, kids |-> k] : p \in Polys, k \in SeqUpTo2(T0)}
T2 == {[poly |-> p, kids |-> k] : p \in Polys, k \in SeqUpTo2(T1)}
Forest == SeqUpTo2(T1) \cup {<<a>> : a \in T2} \cup {<<a, b, c>> : a \in T0, b \in T0, c \in T0}
PS == SetToSeq(PathSets)
FS == SetToSeq(Forest)
Recs == [i \in 1..Len(PS) |-> PRec(PS[i], i)] \o [i \in 1..Len(FS) |-> [id |-> 1000000 + i, t |-> FS[i]]]
ASSUME ndJsonSerialize(IOEnv.OUT, Recs)
ASSUME PrintT(<<"OUT", Len(PS), Len(FS)>>)
VARIABLE z
Init == z = 0
Next == z' = z
Spec == Init /\ [][Next]_z
=============================================================================
