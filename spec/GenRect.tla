------------------------------ MODULE GenRect ------------------------------
(* Generator (C02): the complete scope named by the property - all pairs of axis-parallel   *)
(* rectangles on the N x N unit grid, each in both orientations - written as ndjson for the  *)
(* harness.  The expected result is NOT written here: BoolTrace recomputes the cell windings  *)
(* from the paths the harness reports it actually used.                                      *)
EXTENDS Integers, Sequences, FiniteSets, TLC, Json, IOUtils, SequencesExt
CONSTANT N
Rects == {<<x1, y1, x2, y2>> \in (0..N) \X (0..N) \X (0..N) \X (0..N) : x1 < x2 /\ y1 < y2}
Ring(r, pos) == IF pos THEN <<<<r[1], r[2]>>, <<r[3], r[2]>>, <<r[3], r[4]>>, <<r[1], r[4]>>>>
                ELSE <<<<r[1], r[4]>>, <<r[3], r[4]>>, <<r[3], r[2]>>, <<r[1], r[2]>>>>
Cases == {[subj |-> <<Ring(a, sa)>>, clip |-> <<Ring(b, sb)>>] : a \in Rects, b \in Rects, sa \in BOOLEAN, sb \in BOOLEAN}
ASSUME Cardinality(Rects) = ((N * (N + 1)) \div 2) * ((N * (N + 1)) \div 2)
ASSUME ndJsonSerialize(IOEnv.OUT, SetToSeq(Cases))
ASSUME PrintT(<<"OUT", Cardinality(Cases)>>)
VARIABLE z
Init == z = 0
Next == z' = z
=============================================================================
