-------------------------- MODULE OffsetJoinTrace --------------------------
(* Layer 2/3 (implementation-shaped, C06 C07): what ClipperOffset appends to the raw offset path at one    *)
(* vertex.  Event Join (hook H5, clipper.verif.h offset_fn), all lengths in units, normals x 1000:           *)
(*   pk, pj  the incoming edge pk -> pj and the vertex pj;  nk, nj  1000 x unit normals of the incoming and  *)
(*   outgoing edge;  d  1000 x group delta (signed);  jt join type;  ml  1000 x miter limit;  pts appended    *)
(* Derived from the geometry alone (declarative):                                                            *)
(*   J1  nk is the right-hand unit normal of the incoming edge (binding of BuildNormals)                       *)
(*   J2  the join is CONCAVE iff the turn from the incoming to the outgoing edge is towards the offset side    *)
(*       (the outgoing edge heads to the side the offset lies on, and it is not an almost complete reversal); a concave join appends      *)
(*       exactly the three points  pj + |d| nk',  pj,  pj + |d| nj'  (n' = n * sign handled by d)              *)
(*   J3  a convex join appends points that all lie between |d| - 1 and |d| * f + 1.5 from pj, f = 1 for        *)
(*       round and bevel joins, sqrt 2 for square joins, max(miter limit, sqrt 2) for miter joins;             *)
(*       round: at least 2 points; bevel: exactly the two normal offsets of pj; a miter within its limit and    *)
(*       an almost straight join: a single point                                                               *)
(* Engine-level: a failure is a divergence that directs the observable offsetting checks (C06, C07).           *)
EXTENDS Geom, TLC, Json, IOUtils
VARIABLES l
Tr == ndJsonDeserialize(IOEnv.TRACE)
Ev == Tr[l]
Report(prop, clause, d) == PrintT(<<"FAIL", prop, l, clause, d>>)
Chk(c, prop, clause, d) == IF c THEN TRUE ELSE Report(prop, clause, d)

RoundDiv(a, b) == IF a >= 0 THEN (2 * a + b) \div (2 * b) ELSE -((2 * (-a) + b) \div (2 * b))
(* pj + n * d / 10^6 rounded, per axis, must match p within 1 unit *)
IsOffsetOf(p, pj, n, d) == Abs(p[1] - (pj[1] + RoundDiv(n[1] * d, 1000000))) <= 1 /\ Abs(p[2] - (pj[2] + RoundDiv(n[2] * d, 1000000))) <= 1
(* distance from pj within [lo, hi] tenths of a unit (squared comparison; TLC integers are 32 bit) *)
DistIn(p, pj, lo, hi) == LET q == 100 * Dist2(p, pj) IN (lo <= 0 \/ q >= lo * lo) /\ q <= hi * hi

TJoin ==
  /\ Ev.e = "Join"
  /\ LET pk == Ev.pk  pj == Ev.pj  nk == Ev.nk  nj == Ev.nj  d == Ev.d  D == Abs(d)  jt == Ev.jt  P == Ev.pts
         dx == pj[1] - pk[1]  dy == pj[2] - pk[2]  len2 == dx * dx + dy * dy
         sinS == nj[1] * nk[2] - nj[2] * nk[1]                 \* 10^6 (outgoing direction . incoming normal): > 0 iff the path turns towards its normal side
         cos6 == nj[1] * nk[1] + nj[2] * nk[2]                 \* 10^6 cos
         decided == Abs(sinS) > 3000 /\ Abs(cos6 + 999000) > 3000 /\ Abs(cos6 - 999000) > 3000     \* away from the thresholds
         concave == cos6 > -999000 /\ ((sinS > 0 /\ d > 0) \/ (sinS < 0 /\ d < 0))
         f == CASE jt = 0 -> 1415 [] jt = 1 -> 1000 [] jt = 2 -> 1000 [] jt = 3 -> Max2(Ev.ml, 1415)
         n == Len(P)
     IN /\ Chk(len2 > 0 /\ Abs(dx * nk[1] + dy * nk[2]) <= 2 * ISqrtHi(len2) /\ dx * nk[2] - dy * nk[1] < 0
               /\ Abs(nk[1] * nk[1] + nk[2] * nk[2] - 1000000) <= 4000, "ENGINE", "J1_normal_of_incoming_edge", 0)
        /\ (decided /\ D >= 1000) =>
             IF concave
             THEN Chk(n = 3 /\ IsOffsetOf(P[1], pj, nk, d) /\ P[2] = pj /\ IsOffsetOf(P[3], pj, nj, d), "ENGINE", "J2_concave_join_construct", n)
             ELSE /\ Chk(n >= 1 /\ \A i \in 1..n : DistIn(P[i], pj, (D - 1500) \div 100, ((D \div 100) * f) \div 1000 + 15), "ENGINE", "J3_convex_join_distance", n)
                  /\ Chk(jt # 1 \/ cos6 > 999000 \/ (n = 2 /\ IsOffsetOf(P[1], pj, nk, d) /\ IsOffsetOf(P[2], pj, nj, d)) \/ (n = 2 /\ IsOffsetOf(P[2], pj, nk, d) /\ IsOffsetOf(P[1], pj, nj, d)), "ENGINE", "J3_bevel_points", n)
                  /\ Chk(jt # 2 \/ n >= 2, "ENGINE", "J3_round_needs_two_points", n)
TJCase == Ev.e = "JCase"            \* the call the following Join events belong to (used to escalate a divergence)
Init == l = 1
Next == l <= Len(Tr) /\ l' = l + 1 /\ (TJoin \/ TJCase)
Spec == Init /\ [][Next]_l
=============================================================================
