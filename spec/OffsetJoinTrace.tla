-------------------------- MODULE OffsetJoinTrace --------------------------
(* Layer 2/3 (implementation-shaped, C06 C07): what ClipperOffset appends to the raw offset path at one    *)
(* vertex.  Event Join (hook H5, clipper.verif.h offset_fn), all lengths in units, normals x 1000:           *)
(*   pk, pj  the incoming edge pk -> pj and the vertex pj;  nk, nj  1000 x unit normals of the incoming and  *)
(*   outgoing edge;  d  1000 x group delta (signed);  jt join type;  ml  1000 x miter limit;  pts appended    *)
(* Derived from the geometry alone (declarative):                                                            *)
(*   J0  the delta in effect for the call's single group: |delta| for open end types; for polygons delta,       *)
(*       negated iff the path owning the lowest vertex (necessarily an outermost path) has negative area          *)
(*   J6  the calls made for one Execute are exactly, in order: per path (consecutive duplicate vertices and,    *)
(*       for closed end types, closing vertices removed) nothing for a single point; for a polygon one join   *)
(*       per vertex; for a joined path the same on the path and then on its reverse; for an open path the     *)
(*       start cap, the joins of the inner vertices forwards, the end cap, the inner vertices backwards; a    *)
(*       2-point joined path is treated as an open path; nothing at all when |delta| < 0.5                     *)
(*   J1  nk is the right-hand unit normal of the incoming edge (binding of BuildNormals)                       *)
(*   J2  the join is CONCAVE iff the turn from the incoming to the outgoing edge is towards the offset side    *)
(*       (the outgoing edge heads to the side the offset lies on, and it is not an almost complete reversal); a concave join appends      *)
(*       exactly the three points  pj + |d| nk',  pj,  pj + |d| nj'  (n' = n * sign handled by d)              *)
(*   J3  a convex join appends points that all lie between |d| - 1 and |d| * f + 1.5 from pj, f = 1 for        *)
(*       round and bevel joins, sqrt 2 for square joins, max(miter limit, sqrt 2) for miter joins;             *)
(*       round: at least 2 points; bevel: exactly the two normal offsets of pj; a miter within its limit and    *)
(*       an almost straight join: a single point                                                               *)
(*   J4  consecutive points of a round join are close enough for the chord to stay within the arc tolerance   *)
(*       in effect (explicit: min(|d|, tolerance); default |d|/500; never finer than half a unit) of the      *)
(*       circle of radius |d| about pj                                                                         *)
(*   J5  an end cap of an open path (cap = 1 start, 2 end; pk is the end point's neighbour, so pj - pk points   *)
(*       outwards): every point lies between |d| - 1 and |d| * f + 1.5 from the end point (f = sqrt 2 for      *)
(*       square ends) and not behind the end plane; butt: the two perpendicular offsets of the end point;      *)
(*       square: two points |d| beyond the end plane, one on each side; round: an arc from one perpendicular   *)
(*       offset to the other whose chords respect the arc tolerance                                            *)
(* Engine-level: a failure is a divergence that directs the observable offsetting checks (C06, C07).           *)
EXTENDS Geom, TLC, Json, IOUtils
VARIABLES l, cs, st        \* st: joins judged as <<concave, convex square, bevel, round, miter, not judged, caps>>
Tr == ndJsonDeserialize(IOEnv.TRACE)
Ev == Tr[l]
Report(prop, clause, d) == PrintT(<<"FAIL", prop, l, clause, d>>)
Chk(c, prop, clause, d) == IF c THEN TRUE ELSE Report(prop, clause, d)

RoundDiv(a, b) == IF a >= 0 THEN (2 * a + b) \div (2 * b) ELSE -((2 * (-a) + b) \div (2 * b))
(* pj + n * d / 10^6 rounded, per axis, must match p within 1 unit *)
IsOffsetOf(p, pj, n, d) == Abs(p[1] - (pj[1] + RoundDiv(n[1] * d, 1000000))) <= 1 /\ Abs(p[2] - (pj[2] + RoundDiv(n[2] * d, 1000000))) <= 1
(* distance from pj within [lo, hi] tenths of a unit (squared comparison; TLC integers are 32 bit) *)
DistIn(p, pj, lo, hi) == LET q == 100 * Dist2(p, pj) IN (lo <= 0 \/ q >= lo * lo) /\ q <= hi * hi

(* paths owning a vertex of maximal y *)
LowestOwners(Ps) == LET ys == UNION {{Ps[k][i][2] : i \in 1..Len(Ps[k])} : k \in 1..Len(Ps)}
                        my == CHOOSE y \in ys : \A z \in ys : z <= y
                    IN {k \in 1..Len(Ps) : \E i \in 1..Len(Ps[k]) : Ps[k][i][2] = my}
GroupDelta ==   \* expected 1000 * group delta of the current call, or 0 when the geometry does not decide it
  LET c == cs.case  dl == c.d4 * 250
  IN IF c.et # 0 THEN Abs(dl)
     ELSE LET own == LowestOwners(c.paths)
          IN IF Cardinality(own) # 1 THEN 0
             ELSE LET a == Area2(c.paths[CHOOSE k \in own : TRUE]) IN IF a = 0 THEN 0 ELSE IF a < 0 THEN -dl ELSE dl
ChkDelta == (cs.has /\ cs.case.sc = 4 /\ GroupDelta # 0) => Chk(Ev.d = GroupDelta, "ENGINE", "J0_group_delta_sign_or_size", <<Ev.d, GroupDelta>>)
(* ---- J6: the expected sequence of <<pk, pj, cap>> for a call *)
RECURSIVE StripCons(_)
StripCons(P) == IF Len(P) < 2 THEN P ELSE IF P[1] = P[2] THEN StripCons(Tail(P)) ELSE <<P[1]>> \o StripCons(Tail(P))
RECURSIVE StripClose(_)
StripClose(P) == IF Len(P) > 1 /\ P[Len(P)] = P[1] THEN StripClose(SubSeq(P, 1, Len(P) - 1)) ELSE P
Strip(P, closed) == IF closed THEN StripClose(StripCons(P)) ELSE StripCons(P)
Rev(P) == [i \in 1..Len(P) |-> P[Len(P) + 1 - i]]
PolySeq(P) == [j \in 1..Len(P) |-> <<P[IF j = 1 THEN Len(P) ELSE j - 1], P[j], 0>>]
OpenSeq(P) == LET n == Len(P)
              IN <<<<P[2], P[1], 1>>>> \o [j \in 1..(n - 2) |-> <<P[j], P[j + 1], 0>>]
                 \o <<<<P[n - 1], P[n], 2>>>> \o [i \in 1..(n - 2) |-> <<P[n + 1 - i], P[n - i], 0>>]
PathSeq(Q, jt, et) == LET P == Strip(Q, et \in {0, 1})  n == Len(P)
                      IN IF n < 2 THEN <<>>
                         ELSE IF et = 0 THEN PolySeq(P)
                         ELSE IF et = 1 /\ n > 2 THEN PolySeq(P) \o PolySeq(Rev(P))
                         ELSE OpenSeq(P)
ExpSeq(c) == IF Abs(c.d4) < 2 THEN <<>> ELSE Flat([k \in 1..Len(c.paths) |-> PathSeq(c.paths[k], c.jt, c.et)])
(* one event consumed against the expectation; a mismatch is reported once per call *)
Follow == IF ~cs.has \/ cs.lost THEN cs
          ELSE IF cs.exp # <<>> /\ Head(cs.exp) = <<Ev.pk, Ev.pj, Ev.cap>> THEN [cs EXCEPT !.exp = Tail(@)]
          ELSE [cs EXCEPT !.lost = TRUE]
ChkFollow == (cs.has /\ ~cs.lost) => Chk(cs.exp # <<>> /\ Head(cs.exp) = <<Ev.pk, Ev.pj, Ev.cap>>, "ENGINE", "J6_unexpected_join_or_cap_call", IF cs.exp = <<>> THEN <<>> ELSE Head(cs.exp))
ChkDone == (cs.has /\ ~cs.lost) => Chk(cs.exp = <<>>, "ENGINE", "J6_vertices_without_their_join_or_cap", Len(cs.exp))
TCap ==
  /\ Ev.e = "Join" /\ Ev.cap # 0
  /\ cs' = Follow /\ ChkFollow /\ ChkDelta /\ (l = Len(Tr) => LET cs2 == Follow IN (cs2.has /\ ~cs2.lost) => Chk(cs2.exp = <<>>, "ENGINE", "J6_vertices_without_their_join_or_cap", Len(cs2.exp)))
  /\ st' = [st EXCEPT ![7] = @ + 1]
  /\ (l = Len(Tr) => PrintT(<<"NOTE", "JOINS", l, [st EXCEPT ![7] = @ + 1]>>))
  /\ LET pk == Ev.pk  pj == Ev.pj  d == Ev.d  D == Abs(d)  et == Ev.et  P == Ev.pts  n == Len(P)
         u == <<pj[1] - pk[1], pj[2] - pk[2]>>  len2 == u[1] * u[1] + u[2] * u[2]  lenHi == ISqrtHi(len2)  lenLo == ISqrtLo(len2)
         Along(p) == (p[1] - pj[1]) * u[1] + (p[2] - pj[2]) * u[2]            \* |u| * signed distance beyond the end plane
         Side(p) == (p[1] - pj[1]) * u[2] - (p[2] - pj[2]) * u[1]             \* |u| * signed lateral distance
         f == IF et = 3 THEN 1415 ELSE 1000             \* end types: 2 butt, 3 square, 4 round
         atEff == IF Ev.at > 0 THEN Min2(D, Ev.at) ELSE D \div 500
         tol == Max2(atEff, 500) + 800
         lo2 == (2 * (D - tol)) \div 100
     IN (len2 > 0 /\ D >= 2000) =>
          /\ Chk(n >= 2 /\ \A i \in 1..n : DistIn(P[i], pj, (D - 1500) \div 100, ((D \div 100) * f) \div 1000 + 15), "ENGINE", "J5_cap_distance", n)
          /\ Chk(\A i \in 1..n : 1000 * Along(P[i]) >= -1500 * lenHi, "ENGINE", "J5_cap_point_behind_the_end_plane", n)
          /\ Chk(n < 2 \/ Side(P[1]) * Side(P[n]) < 0, "ENGINE", "J5_cap_does_not_span_both_sides", n)
          /\ Chk(et # 2 \/ (n = 2 /\ \A i \in 1..n : 1000 * Abs(Along(P[i])) <= 1500 * lenHi), "ENGINE", "J5_butt_cap_points", n)
          /\ Chk(et # 3 \/ (n = 2 /\ \A i \in 1..n : 1000 * Along(P[i]) >= (D - 1500) * lenLo), "ENGINE", "J5_square_cap_not_extended_by_delta", n)
          /\ Chk(et # 4 \/ lo2 <= 0 \/ \A i \in 1..(n - 1) : 100 * Dist2(<<P[i][1] + P[i + 1][1], P[i][2] + P[i + 1][2]>>, <<2 * pj[1], 2 * pj[2]>>) >= lo2 * lo2,
                 "ENGINE", "J5_round_cap_chord_exceeds_arc_tolerance", n)
TJoin ==
  /\ Ev.e = "Join" /\ Ev.cap = 0
  /\ cs' = Follow /\ ChkFollow /\ ChkDelta /\ (l = Len(Tr) => LET cs2 == Follow IN (cs2.has /\ ~cs2.lost) => Chk(cs2.exp = <<>>, "ENGINE", "J6_vertices_without_their_join_or_cap", Len(cs2.exp)))
  /\ LET pk == Ev.pk  pj == Ev.pj  nk == Ev.nk  nj == Ev.nj  d == Ev.d  D == Abs(d)  jt == Ev.jt  P == Ev.pts
         dx == pj[1] - pk[1]  dy == pj[2] - pk[2]  len2 == dx * dx + dy * dy
         sinS == nj[1] * nk[2] - nj[2] * nk[1]                 \* 10^6 (outgoing direction . incoming normal): > 0 iff the path turns towards its normal side
         cos6 == nj[1] * nk[1] + nj[2] * nk[2]                 \* 10^6 cos
         decided == Abs(sinS) > 3000 /\ Abs(cos6 + 999000) > 3000 /\ Abs(cos6 - 999000) > 3000     \* away from the thresholds
         concave == cos6 > -999000 /\ ((sinS > 0 /\ d > 0) \/ (sinS < 0 /\ d < 0))
         f == CASE jt = 0 -> 1415 [] jt = 1 -> 1000 [] jt = 2 -> 1000 [] jt = 3 -> Max2(Ev.ml, 1415)
         n == Len(P)
         atEff == IF Ev.at > 0 THEN Min2(D, Ev.at) ELSE D \div 500
         tol == Max2(atEff, 500) + 800
         lo2 == (2 * (D - tol)) \div 100                      \* tenths of a unit, doubled coordinates
         judged == decided /\ D >= 1000
         cls == IF ~judged THEN 6 ELSE IF concave THEN 1 ELSE jt + 2
     IN /\ st' = [st EXCEPT ![cls] = @ + 1]
        /\ (l = Len(Tr) => PrintT(<<"NOTE", "JOINS", l, [st EXCEPT ![cls] = @ + 1]>>))
        /\ Chk(len2 > 0 /\ Abs(dx * nk[1] + dy * nk[2]) <= 2 * ISqrtHi(len2) /\ dx * nk[2] - dy * nk[1] < 0
               /\ Abs(nk[1] * nk[1] + nk[2] * nk[2] - 1000000) <= 4000, "ENGINE", "J1_normal_of_incoming_edge", 0)
        /\ (decided /\ D >= 1000) =>
             IF concave
             THEN Chk(n = 3 /\ IsOffsetOf(P[1], pj, nk, d) /\ P[2] = pj /\ IsOffsetOf(P[3], pj, nj, d), "ENGINE", "J2_concave_join_construct", n)
             ELSE /\ Chk(n >= 1 /\ \A i \in 1..n : DistIn(P[i], pj, (D - 1500) \div 100, ((D \div 100) * f) \div 1000 + 15), "ENGINE", "J3_convex_join_distance", n)
                  /\ Chk(jt # 1 \/ cos6 > 999000 \/ (n = 2 /\ IsOffsetOf(P[1], pj, nk, d) /\ IsOffsetOf(P[2], pj, nj, d)) \/ (n = 2 /\ IsOffsetOf(P[2], pj, nk, d) /\ IsOffsetOf(P[1], pj, nj, d)), "ENGINE", "J3_bevel_points", n)
                  /\ Chk(jt # 2 \/ n >= 2, "ENGINE", "J3_round_needs_two_points", n)
                  /\ Chk(jt # 2 \/ lo2 <= 0 \/ \A i \in 1..(n - 1) : 100 * Dist2(<<P[i][1] + P[i + 1][1], P[i][2] + P[i + 1][2]>>, <<2 * pj[1], 2 * pj[2]>>) >= lo2 * lo2,
                         "ENGINE", "J4_round_join_chord_exceeds_arc_tolerance", n)
TJCase == Ev.e = "JCase" /\ UNCHANGED st /\ ChkDone
          /\ LET e == ExpSeq(Ev.case) IN cs' = [has |-> TRUE, case |-> Ev.case, exp |-> e, lost |-> (Ev.case.sc # 4 \/ Len(e) > 80)]            \* the call the following Join events belong to (used to escalate a divergence)
Init == l = 1 /\ cs = [has |-> FALSE, lost |-> TRUE, exp |-> <<>>] /\ st = <<0, 0, 0, 0, 0, 0, 0>>
Next == l <= Len(Tr) /\ l' = l + 1 /\ (TJoin \/ TCap \/ TJCase)
Spec == Init /\ [][Next]_<<l, cs, st>>
=============================================================================
