------------------------------- MODULE GenC19 -------------------------------
(* Generator (C19): writes the complete small scope of C19Scope as ndjson for the harness   *)
(* (one record per (pattern, path); the harness runs sum/diff x open/closed on each).  The   *)
(* expected result is NOT written: C19Trace recomputes the parallelogram union itself.       *)
EXTENDS C19Scope, TLC, Json, IOUtils, SequencesExt, FiniteSets
Cases == {[pat |-> t, path |-> p] : t \in Tris, p \in ScopePaths}
ASSUME ndJsonSerialize(IOEnv.OUT, SetToSeq(Cases))
ASSUME PrintT(<<"OUT", Cardinality(Tris), Cardinality(ScopePaths), Cardinality(Cases)>>)
VARIABLE z
Init == z = 0
Next == z' = z
=============================================================================
