CONSTANT W = 3
CONSTANT MODE = "sign"
CONSTANT RNG = 16
SPECIFICATION Spec
INVARIANT MulCorrect
INVARIANT SignCorrect
CHECK_DEADLOCK FALSE
