----------------------------- MODULE C16ScaleMC -----------------------------
(* Design-level model checking for C16 (exhaustive in small scope):                     *)
(*  mode "sr"  - for every family, precision -8..8, exponent e in 0..EMAX and numerator *)
(*               n in 0..NMAX the COMPUTED rounding C16Scale!SRMag (short divisions)    *)
(*               satisfies the DECLARED one (a nearest integer, ties away from zero),   *)
(*               is the only integer doing so, is monotone in n, independent of the     *)
(*               dyadic representation of x, agrees with plain TLC integer arithmetic   *)
(*               wherever that fits into 31 bits, and the ambiguity band is empty       *)
(*               whenever the double arithmetic is exact;                               *)
(*  mode "big" - C16Big's Add/Sub/Mul/Cmp/DivS/ModS agree with TLC integers on a grid   *)
(*               of multi-limb operands;                                                *)
(*  mode "tab" - the scale table: 2^(k-1) <= 10^p < 2^k, k unique.                      *)
EXTENDS C16Scale, TLC
CONSTANTS NMAX, EMAX, GMAX
VARIABLE st
Fams == {"D", "T"}

Init == \/ \E fam \in Fams, p \in PrecRange, e \in 0..EMAX : st = [mode |-> "sr", fam |-> fam, p |-> p, e |-> e, n |-> 0]
        \/ \E y \in 0..GMAX : st = [mode |-> "big", x |-> 0, y |-> y * 149]
        \/ \E p \in PrecRange : st = [mode |-> "tab", p |-> p]
(* the scope is walked along n (resp. x) so that TLC's workers share the work *)
Next == \/ st.mode = "sr" /\ st.n < NMAX /\ st' = [st EXCEPT !.n = @ + 1]
        \/ st.mode = "big" /\ st.x < GMAX * 151 /\ st' = [st EXCEPT !.x = @ + 151]

Fits(v) == v = <<>> \/ Len(v) <= 2 \/ (Len(v) = 3 /\ v[3] <= 20)          \* value < 2.1 * 10^9 - safely below 2^31
SRInv ==
  LET fam == st.fam  p == st.p  e == st.e  n == st.n
      a == FromInt(n)  f == Frac(a, e, fam, p)  D == Den(f)  N == f.N  M == SRMagF(f)
      one == <<1>>
      small == Fits(Add(MulS(N, 4), MulS(D, 4)))
  IN /\ IsNat(M) /\ IsNat(N) /\ IsNat(D)
     /\ Nearest(N, D, M) /\ HalfAway(N, D, M)
     /\ ~HalfAway(N, D, Add(M, one)) /\ (M # <<>> => ~HalfAway(N, D, Sub(M, one)))
     /\ Le(M, SRMag(FromInt(n + 1), e, fam, p))
     /\ SRMag(Mul(a, Pow2(7)), e + 7, fam, p) = M
     /\ ScaleRound(WideOfInt(-n), e, fam, p) = Wide(-1, M) /\ ScaleRound(WideOfInt(n), e, fam, p) = Wide(1, M)
     /\ (small => ToInt(M) = (2 * ToInt(N) + ToInt(D)) \div (2 * ToInt(D)))
     /\ (ExactArith(fam, p, N) => ~Amb(a, e, fam, p))
     /\ ((fam = "T" /\ p < 0 /\ n > 0 /\ MulS(N, 2) = Mul(Add(MulS(M, 2), one), D)) => Amb(a, e, fam, p))
     /\ ((fam = "T" /\ p < 0 /\ n > 0 /\ M # <<>> /\ MulS(N, 2) = Mul(Sub(MulS(M, 2), one), D)) => Amb(a, e, fam, p))
     /\ Judge(WideOfInt(n), e, fam, p, Wide(1, M)) \in {"ok", "amb"}
     /\ Judge(WideOfInt(n), e, fam, p, Wide(1, Add(M, one))) \in {"bad", "amb"}
BigInv ==
  LET x == st.x  y == st.y  X == FromInt(x)  Y == FromInt(y)
  IN /\ IsNat(X) /\ ToInt(X) = x
     /\ ToInt(Add(X, Y)) = x + y /\ IsNat(Add(X, Y))
     /\ ToInt(Mul(X, Y)) = x * y /\ IsNat(Mul(X, Y))
     /\ ToInt(AbsDiff(X, Y)) = (IF x > y THEN x - y ELSE y - x) /\ IsNat(AbsDiff(X, Y))
     /\ Cmp(X, Y) = (IF x < y THEN -1 ELSE IF x > y THEN 1 ELSE 0)
     /\ (y > 0 => ToInt(DivS(Mul(X, Y), y)) = x /\ ModS(Add(Mul(X, Y), FromInt(y - 1)), y) = y - 1)
     /\ (y > 0 => ToInt(DivS(X, y)) = x \div y /\ ModS(X, y) = x % y)
     /\ ToInt(DivPow2(Mul(X, Pow2(17)), 17)) = x /\ ToInt(DivPow10(Mul(X, Pow10(7)), 7)) = x
     /\ Mul(Pow2(20), Pow2(33)) = Pow2(53) /\ Mul(Pow10(3), Pow10(6)) = Pow10(9)
TabInv ==
  LET p == st.p  k == SDTab[p]
  IN /\ IsSDExp(p, k) /\ \A j \in -40..40 : IsSDExp(p, j) => j = k
     /\ (p >= 0 => 2 ^ (k - 1) <= 10 ^ p /\ 10 ^ p < 2 ^ k)
     /\ (p < 0 => 2 ^ (-k) < 10 ^ (-p) /\ 10 ^ (-p) <= 2 ^ (1 - k))
Inv == CASE st.mode = "sr" -> SRInv [] st.mode = "big" -> BigInv [] OTHER -> TabInv
=============================================================================
