------------------------------- MODULE C19Def -------------------------------
(* C19 - Minkowski sum / difference are the swept pattern: the DECLARATIVE side,     *)
(* written from the property statement only.                                         *)
(*   MinkowskiSum(pattern, path, closed)  =  union over every path edge [a1,a2]      *)
(*   (closing edge only when closed) and every pattern-outline edge [b1,b2] of the   *)
(*   parallelogram  { a + b : a in [a1,a2], b in [b1,b2] };   MinkowskiDiff: a - b.  *)
(* A parallelogram is kept as <<o, u, w>> = { o + s*u + t*w : 0 <= s,t <= 1 } with   *)
(*   sum : o = a1 + b1, u = a2 - a1, w = b2 - b1                                     *)
(*   diff: o = a1 - b1, u = a2 - a1, w = b1 - b2                                     *)
(* Everything is integer arithmetic on (ps-scaled) lattice coordinates < 2^12.       *)
EXTENDS Geom, SequencesExt

PAdd(a, b) == <<a[1] + b[1], a[2] + b[2]>>
PSub(a, b) == <<a[1] - b[1], a[2] - b[2]>>
X2(u, w) == u[1] * w[2] - u[2] * w[1]

(* edges of the path (closing edge iff closed) and of the pattern OUTLINE (always closed) *)
PathEdges(path, closed) == IF closed THEN PEdges(path) ELSE OEdges(path)

Paras(pat, path, closed, sum) ==
  LET EA == PathEdges(path, closed)  EB == PEdges(pat)  nb == Len(EB)
  IN [k \in 1..(Len(EA) * nb) |->
        LET ea == EA[((k - 1) \div nb) + 1]  eb == EB[((k - 1) % nb) + 1]
        IN IF sum THEN <<PAdd(ea[1], eb[1]), PSub(ea[2], ea[1]), PSub(eb[2], eb[1])>>
                  ELSE <<PSub(ea[1], eb[1]), PSub(ea[2], ea[1]), PSub(eb[1], eb[2])>>]

(* p strictly inside the parallelogram q: p = o + s*u + t*w with 0 < s < 1, 0 < t < 1 (Cramer's rule, *)
(* s = (d x w) / (u x w), t = (u x d) / (u x w), d = p - o); a flat parallelogram has no interior.     *)
InPara(p, q) ==
  LET d == PSub(p, q[1])  D == X2(q[2], q[3])  s == X2(d, q[3])  t == X2(q[2], d)
  IN IF D > 0 THEN 0 < s /\ s < D /\ 0 < t /\ t < D
     ELSE IF D < 0 THEN D < s /\ s < 0 /\ D < t /\ t < 0
     ELSE FALSE
InSomePara(p, Q) == \E k \in 1..Len(Q) : InPara(p, Q[k])

Corners(q) == <<q[1], PAdd(q[1], q[2]), PAdd(PAdd(q[1], q[2]), q[3]), PAdd(q[1], q[3])>>

(* the distinct parallelogram edges as undirected segments <<a, b, ceil(|ab|)>> (root precomputed) *)
SegOf(a, b) == IF a[1] < b[1] \/ (a[1] = b[1] /\ a[2] <= b[2]) THEN <<a, b>> ELSE <<b, a>>
ParaSegSet(Q) == UNION {LET c == Corners(Q[k]) IN {SegOf(c[i], c[(i % 4) + 1]) : i \in 1..4} : k \in 1..Len(Q)}
ParaSegs(Q) == LET S == SetToSeq(ParaSegSet(Q))
               IN [i \in 1..Len(S) |-> <<S[i][1], S[i][2], ISqrtHi(Dist2(S[i][1], S[i][2]))>>]

(* SUFFICIENT condition for dist(p, segment e) > t  (Geom!FarSeg with the root taken from e[3]) *)
FarE(p, e, t) ==
  LET a == e[1]  b == e[2]  d1 == Dot(a, b, p)  len2 == Dot(a, b, b)
  IN IF d1 <= 0 THEN Dist2(p, a) > t * t
     ELSE IF d1 >= len2 THEN Dist2(p, b) > t * t
     ELSE Abs(Cross(a, b, p)) > t * e[3]
ClearE(p, E, t) == \A i \in 1..Len(E) : FarE(p, E[i], t)

(* input class ("general position" read conservatively: no repeated vertex, hence no zero-length edge *)
(* on the pattern outline, the path or its closing edge); non-convex / self-intersecting allowed        *)
NoDup(P) == \A i \in 1..Len(P) : \A j \in (i + 1)..Len(P) : P[i] # P[j]
InClass(pat, path) == Len(pat) >= 3 /\ Len(path) >= 2 /\ NoDup(pat) /\ NoDup(path)

(* shape classes of a closed outline (evidence only) *)
NonAdj(n, i, j) == i # j /\ (i % n) + 1 # j /\ (j % n) + 1 # i
SelfX(P) == LET E == PEdges(P) n == Len(P) IN \E i \in 1..n : \E j \in (i + 1)..n : NonAdj(n, i, j) /\ SegMeet(E[i], E[j])
Convex(P) == LET n == Len(P)  tr(i) == Cross(P[i], P[(i % n) + 1], P[((i + 1) % n) + 1])
             IN ~SelfX(P) /\ ((\A i \in 1..n : tr(i) > 0) \/ (\A i \in 1..n : tr(i) < 0))
ShapeClass(P) == IF Len(P) < 3 THEN 0 ELSE IF SelfX(P) THEN 3 ELSE IF Convex(P) THEN 1 ELSE 2
=============================================================================
