---------------------------- MODULE ExportLayout ----------------------------
(* C17, Layer 2: the flat array layout of the C export layer, written from the documentation  *)
(* block at the top of clipper.export.h (NOT from the marshalling code):                       *)
(*                                                                                             *)
(*   CPath    = N, 0, x1, y1, (z1), ... xN, yN, (zN)                                           *)
(*   CPaths   = A, C, CPath_1 ... CPath_C         A = length of the whole array, C = #paths    *)
(*   CPolyPath= N, C, x1, y1, (z1), ... xN, yN, (zN), CPolyPath_1 ... CPolyPath_C  (children)  *)
(*   CPolyTree= A, C, CPolyPath_1 ... CPolyPath_C  A = length of the whole array, C = #top     *)
(*   "Memory allocation for CPaths = A * sizeof(element)"; empty paths are not exported.       *)
(*                                                                                             *)
(* The module is parametric in the element ("cell") representation:                            *)
(*   K(n)    the cell that holds the counter value n (int64 n, or the double n)                *)
(*   KInv(c) the counter value held by cell c                                                  *)
(*   Dim     cells per vertex: 2, or 3 when the library is built with USINGZ                   *)
(* A vertex is a sequence of Dim cells, a path a sequence of vertices, a tree node a record    *)
(* [poly |-> path, kids |-> sequence of nodes].                                                *)
EXTENDS Integers, Sequences
CONSTANTS K(_), KInv(_), Dim

VertsOK(p) == \A i \in 1..Len(p) : Len(p[i]) = Dim
PathsOK(ps) == \A k \in 1..Len(ps) : VertsOK(ps[k])
RECURSIVE NodeOK(_)
NodeOK(nd) == VertsOK(nd.poly) /\ \A i \in 1..Len(nd.kids) : NodeOK(nd.kids[i])
TreeOK(kids) == \A i \in 1..Len(kids) : NodeOK(kids[i])

(* the cells of a path, vertex after vertex *)
FlatV(p) == [i \in 1..(Len(p) * Dim) |-> p[((i - 1) \div Dim) + 1][((i - 1) % Dim) + 1]]
RECURSIVE Cat(_)
Cat(ss) == IF ss = <<>> THEN <<>> ELSE Head(ss) \o Cat(Tail(ss))
NonEmpty(ps) == SelectSeq(ps, LAMBDA p : Len(p) > 0)

(* ------------------------------------------------------------------ encoding *)
EncPath(p) == <<K(Len(p)), K(0)>> \o FlatV(p)
EncBody(ps) == Cat([i \in 1..Len(ps) |-> EncPath(ps[i])])
(* every path kept, including empty ones: grammar-valid input a client may hand in *)
EncPathsAll(ps) == LET b == EncBody(ps) IN <<K(Len(b) + 2), K(Len(ps))>> \o b
(* what the library exports: empty paths dropped *)
EncPaths(ps) == EncPathsAll(NonEmpty(ps))
(* the documented allocation formula *)
RECURSIVE SumLen(_)
SumLen(ps) == IF ps = <<>> THEN 0 ELSE (IF Len(Head(ps)) > 0 THEN 2 + Dim * Len(Head(ps)) ELSE 0) + SumLen(Tail(ps))
AllocLen(ps) == 2 + SumLen(ps)

RECURSIVE EncNode(_)
EncNode(nd) == <<K(Len(nd.poly)), K(Len(nd.kids))>> \o FlatV(nd.poly) \o Cat([i \in 1..Len(nd.kids) |-> EncNode(nd.kids[i])])
EncTree(kids) == LET b == Cat([i \in 1..Len(kids) |-> EncNode(kids[i])]) IN <<K(Len(b) + 2), K(Len(kids))>> \o b
RECURSIVE NodeLen(_)
NodeLen(nd) == 2 + Dim * Len(nd.poly) + (LET s[i \in 0..Len(nd.kids)] == IF i = 0 THEN 0 ELSE s[i - 1] + NodeLen(nd.kids[i]) IN s[Len(nd.kids)])
TreeLen(kids) == 2 + (LET s[i \in 0..Len(kids)] == IF i = 0 THEN 0 ELSE s[i - 1] + NodeLen(kids[i]) IN s[Len(kids)])

(* ------------------------------------------------------------------ decoding (a client's parser, cursor based) *)
VertAt(a, i) == [d \in 1..Dim |-> a[i + d - 1]]
PathAt(a, i, n) == [j \in 1..n |-> VertAt(a, i + (j - 1) * Dim)]
RECURSIVE DecFrom(_, _, _)
DecFrom(a, i, c) ==
  IF c = 0 THEN [ps |-> <<>>, nx |-> i]
  ELSE LET n == KInv(a[i])
           r == DecFrom(a, i + 2 + n * Dim, c - 1)
       IN [ps |-> <<PathAt(a, i + 2, n)>> \o r.ps, nx |-> r.nx]
DecPaths(a) == DecFrom(a, 3, KInv(a[2])).ps
DecPathsEnd(a) == DecFrom(a, 3, KInv(a[2])).nx         \* first index not read
DecPath(a) == PathAt(a, 3, KInv(a[1]))                  \* a single CPath
DecPathEnd(a) == 3 + KInv(a[1]) * Dim

RECURSIVE DecNodes(_, _, _)
DecNodes(a, i, c) ==
  IF c = 0 THEN [ns |-> <<>>, nx |-> i]
  ELSE LET n == KInv(a[i])
           cc == KInv(a[i + 1])
           kids == DecNodes(a, i + 2 + n * Dim, cc)
           rest == DecNodes(a, kids.nx, c - 1)
       IN [ns |-> <<[poly |-> PathAt(a, i + 2, n), kids |-> kids.ns]>> \o rest.ns, nx |-> rest.nx]
DecTree(a) == DecNodes(a, 3, KInv(a[2])).ns
DecTreeEnd(a) == DecNodes(a, 3, KInv(a[2])).nx

(* ------------------------------------------------------------------ theorems (model-checked in ExportLayoutMC / ExportTreeMC) *)
ThmPaths(ps) ==
  LET a == EncPaths(ps) IN
  /\ DecPaths(a) = NonEmpty(ps)                 \* there and back is the identity on the non-empty paths
  /\ KInv(a[1]) = Len(a)                        \* first element = number of elements written
  /\ Len(a) = AllocLen(ps)                      \* = the documented allocation
  /\ KInv(a[2]) = Len(NonEmpty(ps))
  /\ DecPathsEnd(a) = Len(a) + 1                \* the parser reads exactly the stated length, nothing beyond
ThmPathsAll(ps) ==
  LET a == EncPathsAll(ps) IN DecPaths(a) = ps /\ KInv(a[1]) = Len(a) /\ DecPathsEnd(a) = Len(a) + 1
ThmPath(p) == LET a == EncPath(p) IN DecPath(a) = p /\ DecPathEnd(a) = Len(a) + 1
ThmTree(kids) ==
  LET a == EncTree(kids) IN
  /\ DecTree(a) = kids
  /\ KInv(a[1]) = Len(a)
  /\ Len(a) = TreeLen(kids)
  /\ KInv(a[2]) = Len(kids)
  /\ DecTreeEnd(a) = Len(a) + 1
=============================================================================
