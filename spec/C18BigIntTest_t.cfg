CONSTANT LB = 2
CONSTANT R = 300
SPECIFICATION Spec
INVARIANT OK
CHECK_DEADLOCK FALSE
