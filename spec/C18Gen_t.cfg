CONSTANT LB = 12
CONSTANT BIG = TRUE
SPECIFICATION Spec
CHECK_DEADLOCK FALSE
