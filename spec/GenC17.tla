------------------------------- MODULE GenC17 -------------------------------
(* Generator (C17 forwarding): writes the forwarding table (C17Forward!Fns, the argument      *)
(* domains whose full product the harness must execute) and a menu of small inputs chosen so  *)
(* that every parameter changes the native result (TLC certifies that on the recorded native  *)
(* results, see C17Trace!TRuns).  Coordinates are in quarter units: the int64 functions use   *)
(* them as they are, the double functions divide by 4 (so odd values have fractional digits   *)
(* and the precision argument matters).  Every vertex carries a z value (used by USINGZ       *)
(* builds only).                                                                               *)
EXTENDS C17Forward, TLC, Json, IOUtils, SequencesExt
Pz(p, zb) == [i \in 1..Len(p) |-> <<p[i][1], p[i][2], zb + i>>]
Sq(x1, y1, x2, y2) == <<<<x1, y1>>, <<x2, y1>>, <<x2, y2>>, <<x1, y2>>>>
Rv(p) == [i \in 1..Len(p) |-> p[Len(p) + 1 - i]]
In(id, cls, a, b, c) == [id |-> id, cls |-> cls, a |-> a, b |-> b, c |-> c]
Menu == <<
  In(1, "bool", <<Pz(<<<<0, 0>>, <<20, 0>>, <<40, 0>>, <<40, 40>>, <<0, 40>>>>, 10), Pz(Sq(8, 8, 48, 48), 20), Pz(Rv(Sq(60, 0, 90, 30)), 30)>>,
                <<Pz(<<<<-10, 5>>, <<100, 5>>, <<100, 45>>>>, 40)>>,
                <<Pz(Sq(21, 21, 75, 61), 50)>>),
  In(2, "bool", <<Pz(Sq(0, 0, 80, 80), 10), Pz(Rv(Sq(10, 10, 70, 70)), 20), Pz(Sq(20, 20, 60, 60), 30), Pz(Sq(100, 0, 110, 10), 35)>>,
                <<>>,
                <<Pz(Sq(30, 30, 50, 50), 40), Pz(Rv(Sq(35, -10, 45, 95)), 50)>>),
  In(3, "bool", <<<<>>, Pz(Sq(0, 0, 21, 21), 10), <<>>>>, <<<<>>>>, <<>>),
  In(4, "bool", <<>>, <<>>, <<>>),
  In(5, "bool", <<>>, <<Pz(<<<<0, 0>>, <<50, 50>>>>, 5)>>, <<Pz(Sq(10, 10, 30, 30), 7), <<>>>>),
  In(11, "infl", <<Pz(<<<<0, 0>>, <<60, 4>>, <<0, 9>>>>, 10), Pz(<<<<0, 100>>, <<60, 78>>, <<60, 122>>>>, 15), Pz(<<<<80, 0>>, <<100, 0>>, <<120, 0>>, <<120, 41>>, <<80, 41>>>>, 20)>>, <<>>, <<>>),
  In(12, "infl", <<Pz(<<<<0, 0>>, <<40, 0>>, <<40, 30>>>>, 10), Pz(<<<<0, 60>>, <<50, 61>>>>, 20), Pz(<<<<90, 90>>>>, 30)>>, <<>>, <<>>),
  In(13, "infl", <<>>, <<>>, <<>>),
  In(21, "infl1", <<Pz(<<<<0, 0>>, <<30, 2>>, <<60, 4>>, <<0, 9>>>>, 10)>>, <<>>, <<>>),
  In(23, "infl1", <<Pz(<<<<0, 0>>, <<30, -11>>, <<60, -22>>, <<60, 22>>>>, 10)>>, <<>>, <<>>),
  In(22, "infl1", <<Pz(<<<<0, 0>>, <<40, 1>>, <<40, 30>>, <<10, 30>>>>, 10)>>, <<>>, <<>>),
  In(31, "rect", <<Pz(<<<<-5, -5>>, <<50, 10>>, <<30, 50>>, <<3, 33>>>>, 10), Pz(<<<<0, 20>>, <<60, 21>>, <<61, 70>>>>, 20)>>, <<>>, <<>>),
  In(32, "rect", <<Pz(Sq(10, 6, 20, 30), 10), Pz(Sq(100, 100, 120, 120), 20), <<>>, Pz(<<<<9, 5>>, <<43, 35>>>>, 30)>>, <<>>, <<>>),
  In(33, "rect", <<>>, <<>>, <<>>),
  In(41, "mink", <<Pz(<<<<0, 0>>, <<4, 1>>, <<2, 5>>>>, 10)>>, <<Pz(<<<<0, 0>>, <<20, 0>>, <<20, 13>>, <<5, 20>>>>, 20)>>, <<>>),
  In(42, "mink", <<Pz(<<<<-2, 0>>, <<2, 1>>>>, 10)>>, <<Pz(<<<<0, 0>>, <<10, 3>>, <<4, 12>>>>, 20)>>, <<>>)
>>
ASSUME ndJsonSerialize(IOEnv.OUT, [i \in 1..Len(Fns) |-> Fns[i] @@ [rects |-> Rects]])
ASSUME ndJsonSerialize(IOEnv.OUT2, Menu)
ASSUME PrintT(<<"OUT", Len(Fns), Len(Menu)>>)
VARIABLE z
Init == z = 0
Next == z' = z
Spec == Init /\ [][Next]_z
=============================================================================
