------------------------------- MODULE GenC20 -------------------------------
(* Generator (C20): the complete small scope named by the property - every path with *)
(* at most K vertices over the N x N grid (0..N-1)^2, the empty path included -       *)
(* written as ndjson for the harness.  No expectation is written here: C20Trace        *)
(* recomputes every contract clause from the path the harness reports it used.        *)
EXTENDS Integers, Sequences, FiniteSets, TLC, Json, IOUtils, SequencesExt
CONSTANTS N, K
Pts == (0..(N - 1)) \X (0..(N - 1))
PathsOfLen(k) == [1..k -> Pts]
Paths == UNION {PathsOfLen(k) : k \in 0..K}
RECURSIVE Pow(_, _)
Pow(b, e) == IF e = 0 THEN 1 ELSE b * Pow(b, e - 1)
RECURSIVE Geo(_, _)
Geo(b, k) == IF k < 0 THEN 0 ELSE Pow(b, k) + Geo(b, k - 1)
ASSUME Cardinality(Paths) = Geo(N * N, K)
ASSUME ndJsonSerialize(IOEnv.OUT, SetToSeq({[p |-> q] : q \in Paths}))
ASSUME PrintT(<<"OUT", Cardinality(Paths)>>)
VARIABLE z
Init == z = 0
Next == z' = z
=============================================================================
