CONSTANT N = 3
CONSTANT K = 4
INIT Init
NEXT Next
INVARIANTS L1 L2 L3 L4 L5
