CONSTANTS NT = 3 NSeg = 4 MaxPre = 2
SPECIFICATION Spec
INVARIANTS TypeOK SchedLegal Emit
CONSTRAINT Constr
CHECK_DEADLOCK FALSE
