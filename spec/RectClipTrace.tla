--------------------------- MODULE RectClipTrace ---------------------------
(* Trace specification for property C08: RectClip equals intersection with the rectangle,    *)
(* path by path.  Consumes an ndjson log of the real library (env TRACE) written by           *)
(* harness/fam_c08.cpp (subcommand rc):                                                       *)
(*   Fam   - the rectangle, the sample points and the embedding of one run, all in WORKING    *)
(*           coordinates (exact embeddings: working = real - translation, so one working unit *)
(*           is one real unit; coarse embeddings (scale >= 2^13): working = lattice units, so *)
(*           one working unit is >= 2^13 real units)                                          *)
(*   Case  - one call RectClip(rect, {P}): the path P, and what the library returned: number  *)
(*           of paths, winding number of the result at every sample point, per result vertex  *)
(*           [equals an input vertex, amount outside the rectangle in x, in y, distance to    *)
(*           the nearest side] measured on the real coordinates (saturated at 100), area sign *)
(*           of every result path, whether result = {P} (compared natively), and - exact      *)
(*           embeddings only - the raw result, from which TLC recomputes the measurements     *)
(*   Batch - the preceding k paths clipped by ONE call; result measured the same way, and     *)
(*           whether it equals the concatenation of the k separate results (native compare)   *)
(* All verdicts are computed here from the statement of C08; nothing below is derived from    *)
(* the implementation.  Classification (simple / edge along a side / inside / outside) is     *)
(* decided here.  Tolerances: the property's, rounded outward (Geom!FarSeg is a SUFFICIENT    *)
(* condition for "farther than").                                                             *)
EXTENDS PathOps, TLC, Json, IOUtils

VARIABLES l, fam, cur, hist, stat
vars == <<l, fam, cur, hist, stat>>

Tr == ndJsonDeserialize(IOEnv.TRACE)
Ev == Tr[l]

Report(prop, clause, d) == PrintT(<<"FAIL", prop, l, clause, d>>)
Chk(c, prop, clause, d) == IF c THEN TRUE ELSE Report(prop, clause, d)
Note(kind, d) == PrintT(<<"NOTE", kind, l, d>>)

(* ------------------------------------------------------------------ rectangle r = <<left, top, right, bottom>> *)
InStrict(r, p) == r[1] < p[1] /\ p[1] < r[3] /\ r[2] < p[2] /\ p[2] < r[4]
InClosed(r, p) == r[1] <= p[1] /\ p[1] <= r[3] /\ r[2] <= p[2] /\ p[2] <= r[4]
OutX(r, p) == Max2(Max2(r[1] - p[1], p[1] - r[3]), 0)
OutY(r, p) == Max2(Max2(r[2] - p[2], p[2] - r[4]), 0)
DIn(r, p) == Min2(Min2(p[1] - r[1], r[3] - p[1]), Min2(p[2] - r[2], r[4] - p[2]))
Sat(v) == IF v > 100 THEN 100 ELSE IF v < 0 THEN 0 ELSE v
RectSides(r) == << <<<<r[1], r[2]>>, <<r[3], r[2]>>>>, <<<<r[3], r[2]>>, <<r[3], r[4]>>>>,
                   <<<<r[3], r[4]>>, <<r[1], r[4]>>>>, <<<<r[1], r[4]>>, <<r[1], r[2]>>>> >>
(* the closed segment e has a point in the closed rectangle *)
SegMeetsRect(r, e) == InClosed(r, e[1]) \/ InClosed(r, e[2]) \/ \E s \in 1..4 : SegMeet(e, RectSides(r)[s])

(* ------------------------------------------------------------------ classification of the input path *)
(* simple polygon: >= 3 pairwise distinct vertices, consecutive edges meet only in their common vertex, *)
(* other edges do not meet at all (straight-angle vertices are allowed)                                 *)
Simple(P) ==
  LET n == Len(P)  E == PEdges(P)
      adj(i, j) == j = i + 1 \/ (i = 1 /\ j = n)
  IN /\ n >= 3
     /\ \A i \in 1..n : \A j \in (i + 1)..n : P[i] # P[j]
     /\ \A i \in 1..n : LET a == Prv(P, i) b == P[i] c == Nxt(P, i) IN ~(Cross(a, b, c) = 0 /\ Dot(b, a, c) > 0)
     /\ \A i \in 1..n : \A j \in (i + 1)..n : adj(i, j) \/ ~SegMeet(E[i], E[j])
(* an edge of P lies along a side: a non-degenerate edge on the line of a side that shares at least *)
(* a point with that (closed) side - conservative: touching in one point already counts            *)
Overl(a1, a2, b1, b2) == Max2(Min2(a1, a2), Min2(b1, b2)) <= Min2(Max2(a1, a2), Max2(b1, b2))
EdgeAlong(r, e) ==
  LET a == e[1] b == e[2]
  IN a # b /\ \/ (a[1] = b[1] /\ (a[1] = r[1] \/ a[1] = r[3]) /\ Overl(a[2], b[2], r[2], r[4]))
              \/ (a[2] = b[2] /\ (a[2] = r[2] \/ a[2] = r[4]) /\ Overl(a[1], b[1], r[1], r[3]))
AlongSide(r, P) == \E i \in 1..Len(P) : EdgeAlong(r, PEdges(P)[i])
AllInside(r, P) == \A i \in 1..Len(P) : InClosed(r, P[i])
(* entirely outside: no edge has a point in the closed rectangle and P does not wind round it *)
Mid2(r) == <<r[1] + r[3], r[2] + r[4]>>
EntirelyOutside(r, P) == /\ \A i \in 1..Len(P) : ~SegMeetsRect(r, PEdges(P)[i])
                         /\ Wind(PEdges(ScalePath(P, 2)), Mid2(r)) = 0

(* ------------------------------------------------------------------ class C08-S1 (known finding, see known_findings.json) *)
(* the closed segment a-b has a point strictly inside the rectangle (rational clipping parameters <<n, d>>, d > 0) *)
RLess(x, y) == x[1] * y[2] < y[1] * x[2]
RMaxQ(x, y) == IF RLess(x, y) THEN y ELSE x
RMinQ(x, y) == IF RLess(x, y) THEN x ELSE y
AxisOpen(a, b, lo, hi) ==           \* <<enter, exit, feasible>> of lo < a + t (b - a) < hi
  IF b > a THEN << <<lo - a, b - a>>, <<hi - a, b - a>>, TRUE >>
  ELSE IF b < a THEN << <<a - hi, a - b>>, <<a - lo, a - b>>, TRUE >>
  ELSE << <<0, 1>>, <<1, 1>>, lo < a /\ a < hi >>
EntersInterior(r, e) ==
  LET X == AxisOpen(e[1][1], e[2][1], r[1], r[3])  Y == AxisOpen(e[1][2], e[2][2], r[2], r[4])
      t0 == RMaxQ(RMaxQ(<<0, 1>>, X[1]), Y[1])
      t1 == RMinQ(RMinQ(<<1, 1>>, X[2]), Y[2])
  IN X[3] /\ Y[3] /\ (RLess(t0, t1) \/ (e[1] = e[2] /\ InStrict(r, e[1])))
(* P (simple, with an edge along a side) never enters the interior of the rectangle, does not wind round it, and yet passes through all four corners: the library then *)
(* takes the rectangle to be enclosed (Path1ContainsPath2 counts no corner as outside) and returns it                               *)
CornersOnPath(r, P) ==
  LET E == PEdges(P)
  IN /\ \A c \in {<<r[1], r[2]>>, <<r[3], r[2]>>, <<r[3], r[4]>>, <<r[1], r[4]>>} : OnAny(E, c)
     /\ \A i \in 1..Len(E) : ~EntersInterior(r, E[i])
     /\ Wind(PEdges(ScalePath(P, 2)), Mid2(r)) = 0

(* ------------------------------------------------------------------ Fam *)
(* clearance (working units) that guarantees "farther than 2 real units": exact embeddings 2, coarse 1 *)
TolOf(ev) == IF ev.coarse = 1 THEN 1 ELSE 2
SmallPt(p) == Abs(p[1]) <= 2048 /\ Abs(p[2]) <= 2048
TFam ==
  /\ Ev.e = "Fam" /\ Ev.kind = "rc"
  /\ LET r == Ev.rect  pts == Ev.pts
     IN fam' = [ rect |-> r, pts |-> pts, tol |-> TolOf(Ev), exact |-> Ev.coarse = 0, m |-> Ev.m,
                 inner |-> [i \in 1..Len(pts) |-> InStrict(r, pts[i])],
                 \* at least 2 working units outside: nothing may be covered there (vertices stay within 1 unit)
                 outer |-> [i \in 1..Len(pts) |-> OutX(r, pts[i]) >= 2 \/ OutY(r, pts[i]) >= 2],
                 ok |-> r[1] < r[3] /\ r[2] < r[4] /\ (\A c \in 1..4 : Abs(r[c]) <= 2048) /\ (\A j \in 1..Len(pts) : SmallPt(pts[j])) ]
  /\ hist' = <<>>
  /\ UNCHANGED <<cur, stat>>
  /\ Chk(fam'.ok, "HARNESS", "bad_family", 0)

(* ------------------------------------------------------------------ measurements recomputed from the raw result (exact embeddings) *)
VmOf(r, inputs, Q) == [k \in 1..Len(Q) |-> [i \in 1..Len(Q[k]) |->
                         LET q == Q[k][i] IN << IF q \in inputs THEN 1 ELSE 0, Sat(OutX(r, q)), Sat(OutY(r, q)), Sat(DIn(r, q)) >>]]
(* |2 area| over (2 x L1 perimeter + 2 x vertices), saturated: moving every vertex by at most one unit per axis changes 2 area by less than the divisor *)
L1Perim(P) == SumF([i \in 1..Len(P) |-> Abs(Nxt(P, i)[1] - P[i][1]) + Abs(Nxt(P, i)[2] - P[i][2])], Len(P))
AreaQuot(P) == IF Len(P) = 0 THEN 0 ELSE Sat(Abs(Area2(P)) \div (2 * L1Perim(P) + 2 * Len(P)))
XIdx(id, n) == {i \in 1..n : i % 5 = id % 5}                \* sample points re-measured by TLC (rotates with the case id)
(* a returned "path" with fewer than 2 vertices has no edges (the harness measures it the same way) *)
CoverOK(Q, cover, id) == LET E == AllEdges(SelectSeq(Q, LAMBDA p : Len(p) >= 2)) IN
  \A i \in XIdx(id, Len(fam.pts)) : IF OnAny(E, fam.pts[i]) THEN cover[i] = 99 ELSE cover[i] = Wind(E, fam.pts[i])
RawOK(ev, inputs, id, isCase) ==
  LET Q == ev.raw
  IN /\ Len(Q) = ev.n
     /\ VmOf(fam.rect, inputs, Q) = ev.vm
     /\ CoverOK(Q, ev.cover, id)
     /\ isCase => /\ ev.asg = [k \in 1..Len(Q) |-> Sgn(Area2(Q[k]))]
                  /\ ev.aq = [k \in 1..Len(Q) |-> AreaQuot(Q[k])]
                  /\ (ev.same = 1) = (Q = <<ev.P>>)

(* ------------------------------------------------------------------ clauses on the result's vertices *)
(* v = <<is input vertex, outside-x, outside-y, distance to nearest side when inside>> *)
VInside1(v) == v[2] <= 1 /\ v[3] <= 1                                   \* inside the rectangle inflated by 1
VNearBoundary(v) == v[2] <= 1 /\ v[3] <= 1 /\ ((v[2] = 0 /\ v[3] = 0) => v[4] <= 1)
VertexClauses(vm, tag) ==
  /\ Chk(\A k \in 1..Len(vm) : \A i \in 1..Len(vm[k]) : VInside1(vm[k][i]), "C08", "vertex_outside_rect", tag)
  /\ Chk(\A k \in 1..Len(vm) : \A i \in 1..Len(vm[k]) : vm[k][i][1] = 1 \/ VNearBoundary(vm[k][i]), "C08", "new_vertex_off_boundary", tag)
OuterClause(cover, tag) ==
  LET bad == {i \in 1..Len(fam.pts) : fam.outer[i] /\ cover[i] # 0}
  IN Chk(bad = {}, "C08", "covers_outside", IF bad = {} THEN tag ELSE fam.pts[CHOOSE i \in bad : TRUE])

(* ------------------------------------------------------------------ Case *)
(* Geom!FarSeg with the edge length bound passed in (computed once per edge, not once per point) *)
FarSegL(p, a, b, t, len2, L) ==
  LET d1 == Dot(a, b, p)
  IN IF d1 <= 0 THEN Dist2(p, a) > t * t
     ELSE IF d1 >= len2 THEN Dist2(p, b) > t * t
     ELSE Abs(Cross(a, b, p)) > t * L
B(c) == IF c THEN 1 ELSE 0
Analyse(P) ==
  LET E == PEdges(P)  pts == fam.pts  t == fam.tol
      len2 == [j \in 1..Len(E) |-> Dist2(E[j][1], E[j][2])]
      L == [j \in 1..Len(E) |-> ISqrtHi(len2[j])]
      simple == Simple(P)  along == AlongSide(fam.rect, P)
      clr == [i \in 1..Len(pts) |-> fam.inner[i] /\ \A j \in 1..Len(E) : FarSegL(pts[i], E[j][1], E[j][2], t, len2[j], L[j])]
  IN [ P |-> P, simple |-> simple, along |-> along,
       s11 |-> simple /\ along /\ CornersOnPath(fam.rect, P),
       inside |-> AllInside(fam.rect, P), outside |-> EntirelyOutside(fam.rect, P), sgn |-> Sgn(Area2(P)),
       w |-> [i \in 1..Len(pts) |-> IF fam.inner[i] THEN Wind(E, pts[i]) ELSE 0],
       clr |-> clr,
       njudged |-> IF simple \/ ~along THEN Cardinality({i \in 1..Len(pts) : clr[i]}) ELSE 0 ]

(* winding clause at the clear interior sample points: exact for simple polygons, parity otherwise *)
(* (unless an edge lies along a side, where the property promises nothing for non-simple input)    *)
WindBad(simple, along, w, clr, cover) ==
  {i \in 1..Len(fam.pts) : clr[i] /\ cover[i] # 99 /\
       IF simple THEN cover[i] # w[i] ELSE (~along /\ (cover[i] - w[i]) % 2 # 0)}

CasePost(ev, a) ==
  LET bad == WindBad(a.simple, a.along, a.w, a.clr, ev.cover)
  IN /\ VertexClauses(ev.vm, ev.id)
     /\ OuterClause(ev.cover, ev.id)
     /\ Chk(bad = {}, "C08", IF a.s11 THEN "winding_simple_corners_on_path" ELSE IF a.simple THEN "winding_simple" ELSE "winding_parity",
            IF bad = {} THEN ev.id ELSE fam.pts[CHOOSE i \in bad : TRUE])
     /\ (a.inside => Chk(ev.same = 1, "C08", "inside_path_changed", ev.id))
     /\ (a.outside => Chk(ev.n = 0, "C08", "outside_path_not_dropped", ev.id))
     \* orientation: judged for result paths whose area is at least twice what one-unit rounding of their vertices could change
     \* (in class C08-S1 a result that should not exist at all has no orientation to judge: the winding clause above reports it)
     /\ ((a.simple /\ ~(a.s11 /\ bad # {})) => Chk(\A k \in 1..Len(ev.asg) : ev.aq[k] < 2 \/ ev.asg[k] = a.sgn, "C08", "orientation", ev.id))

(* a raw result with a vertex far outside the family's range (the harness clamps such coordinates) is judged by the measurements only *)
RawSmall(Q) == \A k \in 1..Len(Q) : \A i \in 1..Len(Q[k]) : SmallPt(Q[k][i])
PathOK(P) == Len(P) >= 1 /\ \A i \in 1..Len(P) : SmallPt(P[i])

TCase ==
  /\ Ev.e = "Case"
  /\ UNCHANGED fam
  /\ IF ~PathOK(Ev.P) THEN hist' = <<>> /\ UNCHANGED <<cur, stat>> /\ Note("DROP", Ev.id)
     ELSE /\ cur' = Analyse(Ev.P)            \* evaluated once; every clause below reads cur'
          /\ hist' = IF Ev.b = 1 THEN Append(hist, cur') ELSE <<>>
          \* measured census of what was judged: cases, simple, edge-along-a-side, all inside, entirely outside, judged points, batches, class C08-S1
          /\ stat' = << stat[1] + 1, stat[2] + B(cur'.simple), stat[3] + B(cur'.along), stat[4] + B(cur'.inside),
                        stat[5] + B(cur'.outside), stat[6] + cur'.njudged, stat[7], stat[8] + B(cur'.s11) >>
          /\ ((fam.exact /\ RawSmall(Ev.raw)) => Chk(RawOK(Ev, {Ev.P[i] : i \in 1..Len(Ev.P)}, Ev.id, TRUE), "HARNESS", "measurement_crosscheck", Ev.id))
          /\ CasePost(Ev, cur')

(* ------------------------------------------------------------------ Batch: the k preceding paths in one call *)
TBatch ==
  /\ Ev.e = "Batch"
  /\ UNCHANGED <<fam, cur>>
  /\ hist' = <<>>
  /\ stat' = [stat EXCEPT ![7] = @ + 1]
  /\ Chk(Ev.k = Len(hist), "HARNESS", "batch_size", Ev.k)
  /\ Ev.k = Len(hist) =>
       LET K == Len(hist)
           n == Len(fam.pts)
           inputs == UNION {{hist[j].P[i] : i \in 1..Len(hist[j].P)} : j \in 1..K}
           allSimple == \A j \in 1..K : hist[j].simple
           anyAlong == \E j \in 1..K : hist[j].along
           w == [i \in 1..n |-> SumF([j \in 1..K |-> hist[j].w[i]], K)]
           clr == [i \in 1..n |-> \A j \in 1..K : hist[j].clr[i]]
           bad == WindBad(allSimple, anyAlong, w, clr, Ev.cover)
       IN /\ ((fam.exact /\ RawSmall(Ev.raw)) => Chk(RawOK(Ev, inputs, l, FALSE), "HARNESS", "measurement_crosscheck", l))
          /\ VertexClauses(Ev.vm, l)
          /\ OuterClause(Ev.cover, l)
          /\ Chk(bad = {}, "C08", IF \E j \in 1..K : hist[j].s11 THEN "winding_simple_corners_on_path" ELSE "batch_winding",
                 IF bad = {} THEN l ELSE fam.pts[CHOOSE i \in bad : TRUE])
          /\ (IF Ev.eqcat = 1 THEN TRUE ELSE Note("EQCAT0", l))

Init == l = 1 /\ fam = <<>> /\ cur = <<>> /\ hist = <<>> /\ stat = <<0, 0, 0, 0, 0, 0, 0, 0>>
Next == /\ l <= Len(Tr)
        /\ l' = l + 1
        /\ (TFam \/ TCase \/ TBatch)
        /\ (l = Len(Tr) => Note("STATS", stat'))
Spec == Init /\ [][Next]_vars
=============================================================================
