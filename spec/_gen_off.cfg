CONSTANTS Kind = "off" N = 4 K = 2 G = 8
SPECIFICATION Spec
INVARIANTS Emit
CHECK_DEADLOCK FALSE
