------------------------------ MODULE GenDegen ------------------------------
(* Generator (C10, also used by C11a): the degeneracy grammar F-DEGEN as a finite product       *)
(*   path-list shape x path-list shape x magnitude class x public entry point x parameters.      *)
(* Shapes are written out at lattice level (small integers); the harness embeds them at the      *)
(* magnitude class (1, 2^29, 2^40, 2^52, 2^61, 2^62).  Entry points and their parameter ranges   *)
(* follow the property statement: boolean clipping into paths / a polytree (64 and D), offsetting *)
(* (all join x end types, paths and tree), rectangle clipping (polygons and lines), Minkowski     *)
(* sum / difference, the path utilities and the C export functions.                               *)
EXTENDS Integers, Sequences, FiniteSets, TLC, Json, IOUtils, SequencesExt

Tri == <<<<0, 0>>, <<10, 2>>, <<4, 9>>>>
Sq == <<<<1, 1>>, <<9, 1>>, <<9, 9>>, <<1, 9>>>>
Shapes == <<
  <<>>,                                                      \* 1 no path
  <<<<>>>>,                                                  \* 2 one empty path
  <<<<<<3, 3>>>>>>,                                          \* 3 one point
  <<<<<<1, 2>>, <<8, 7>>>>>>,                                \* 4 two points
  <<<<<<5, 5>>, <<5, 5>>, <<5, 5>>>>>>,                      \* 5 all duplicates
  <<<<<<0, 0>>, <<4, 4>>, <<9, 9>>>>>>,                      \* 6 all collinear
  <<<<<<0, 0>>, <<9, 3>>, <<0, 0>>>>>>,                      \* 7 spike
  <<Tri, Tri>>,                                              \* 8 two coincident copies
  <<<<<<0, 0>>, <<6, 0>>, <<6, 6>>, <<6, 0>>>>>>,            \* 9 zero area with a spike
  <<Sq \o <<<<1, 1>>>>>>,                                    \* 10 explicitly closed
  <<Tri, <<>>>>,                                             \* 11 ordinary + empty path
  <<<<<<0, 0>>, <<9, 9>>, <<9, 0>>, <<0, 9>>>>>>,            \* 12 bow-tie
  <<Sq, <<<<5, 5>>>>>>,                                      \* 13 ordinary + single point
  <<Sq, <<<<3, 3>>, <<3, 7>>, <<7, 7>>, <<7, 3>>>>>>,        \* 14 polygon with hole
  <<<<<<0, 0>>, <<5, 0>>, <<5, 0>>, <<5, 5>>, <<0, 5>>, <<0, 0>>, <<0, 0>>>>>>,  \* 15 duplicates + closing
  <<<<<<-5, 5>>, <<15, 6>>>>>>,                              \* 16 a line that crosses the other shapes
  <<<<<<-4, -3>>, <<5, 12>>, <<14, -2>>>>, <<<<2, 2>>>>>>    \* 17 a crossing polyline + single point
>>
NS == Len(Shapes)
Mags == 0..5                       \* 1, 2^29, 2^40, 2^52, 2^61, 2^62

Rec(ep, s, c, m, a) == [ep |-> ep, s |-> Shapes[s], c |-> Shapes[c], si |-> s, ci |-> c, mag |-> m, a |-> a]

Bool == {Rec(ep, s, c, m, <<ct, fr, open>>) : ep \in {"bool64", "tree64", "exp_bool64", "exp_tree64"}, s \in 1..NS, c \in {1, 2, 4, 8, 12, 14},
                                               m \in Mags, ct \in 1..4, fr \in {0, 2}, open \in {0}}
        \cup {Rec(ep, s, c, m, <<ct, 1, 1>>) : ep \in {"bool64", "tree64"}, s \in 1..NS, c \in {1, 8, 14}, m \in {0, 2, 5}, ct \in {1, 2}}
        \cup {Rec(ep, s, c, m, <<ct, fr, open>>) : ep \in {"boolD", "treeD", "exp_boolD"}, s \in 1..NS, c \in {1, 2, 8, 14}, m \in 0..3, ct \in {1, 4}, fr \in {1, 3}, open \in {0, 1}}
Offs == {Rec(ep, s, 1, m, <<jt, et, d>>) : ep \in {"offset", "offset_tree", "exp_inflate64"}, s \in 1..NS, m \in 0..2, jt \in 0..3, et \in 0..4, d \in {1, 2, 3}}
        \cup {Rec("offsetD", s, 1, m, <<jt, et, d>>) : s \in 1..NS, m \in 0..1, jt \in {0, 2}, et \in 0..4, d \in {1, 3}}
Rcs == {Rec(ep, s, 1, m, <<r>>) : ep \in {"rectclip", "rectcliplines", "exp_rectclip64", "exp_rectcliplines64", "rectclipD"}, s \in 1..NS, m \in 0..2, r \in 1..4}
Mks == {Rec(ep, s, c, m, <<closed>>) : ep \in {"minksum", "minkdiff", "exp_minksum64", "exp_minkdiff64"}, s \in 1..NS, c \in 1..NS, m \in 0..2, closed \in {0, 1}}
Utl == {Rec(ep, s, 1, m, <<k>>) : ep \in {"trim", "simplify", "rdp", "strip", "pip", "misc"}, s \in 1..NS, m \in 0..2, k \in 0..3}
(* short call SEQUENCES on one object (object lifetime and sharing): offsetting into a polytree that is destroyed before the next *)
(* Execute into paths; a ReuseableDataContainer64 holding open and closed paths in either order / combined with AddOpenSubject   *)
Seqs == {Rec("offseq", s, 1, m, <<jt, et, d>>) : s \in 1..NS, m \in 0..2, jt \in {0, 2}, et \in 0..4, d \in {1, 2}}
        \cup {Rec("reuse", s, c, m, <<ct, fr, ord>>) : s \in {4, 6, 11, 13, 16, 17}, c \in {1, 8, 10, 12, 14}, m \in {0, 2, 5}, ct \in 1..4, fr \in {0, 1}, ord \in 0..2}
Cases == Bool \cup Offs \cup Rcs \cup Mks \cup Utl \cup Seqs

ASSUME ndJsonSerialize(IOEnv.OUT, SetToSeq(Cases))
ASSUME PrintT(<<"OUT", Cardinality(Cases), Cardinality(Bool), Cardinality(Offs), Cardinality(Rcs), Cardinality(Mks), Cardinality(Utl), Cardinality(Seqs)>>)
VARIABLE z
Init == z = 0
Next == z' = z
=============================================================================
