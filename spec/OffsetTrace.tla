---------------------------- MODULE OffsetTrace ----------------------------
(* Layer 3 (C06 polygons, C07 open paths): offsetting moves the boundary by delta.          *)
(* One event "Off" per InflatePaths / ClipperOffset call:                                    *)
(*   paths (small integers), jt (0 Square 1 Bevel 2 Round 3 Miter), et (0 Polygon 1 Joined    *)
(*   2 Butt 3 Square 4 Round), d4 (delta in quarter units, signed), ml100 (miter limit x100),  *)
(*   at4 (arc tolerance in quarter units, 0 = library default), rs, pts (sample points in      *)
(*   QUARTER-unit coordinates), cover (winding of the returned paths at pts, measured by the   *)
(*   harness), n (number of returned paths), eqneg (1 if the call with -delta returned          *)
(*   identical paths, open end types only), area2s (sign of the result's signed area)          *)
(* All geometry is done in quarter units (SC = 4).  Every sample point is classified from the  *)
(* definitions as MUST be covered / MUST NOT be covered / FREE (inside the property's          *)
(* tolerance band tol = arc tolerance + 2 + 0.1% |delta|, rounded outward), using only          *)
(* sufficient conditions (Geom!FarSeg / NearSeg), and compared with the measured cover.        *)
EXTENDS PathOps, TLC, Json, IOUtils

VARIABLES l
Tr == ndJsonDeserialize(IOEnv.TRACE)
Ev == Tr[l]
Report(prop, clause, d) == PrintT(<<"FAIL", prop, l, clause, d>>)
Chk(c, prop, clause, d) == IF c THEN TRUE ELSE Report(prop, clause, d)
Note(kind, d) == PrintT(<<"NOTE", kind, l, d>>)

(* SC = units per coordinate unit: 4 (quarter units) for the small families, 1 for the finely tessellated large shapes ("sc" field) *)
SCof(ev) == IF "sc" \in DOMAIN ev THEN ev.sc ELSE 4
CeilDiv(a, b) == (a + b - 1) \div b
(* tolerance in SC units, rounded up: arc tolerance (library default 0.002 |delta|) + 2 + |delta|/1000 *)
Tol4(d4, at4, sc) == (IF at4 = 0 THEN Max2(1, CeilDiv(2 * Abs(d4), 1000)) ELSE at4) + 2 * sc + CeilDiv(Abs(d4), 1000)
JoinF(jt, ml100) == CASE jt = 0 -> 1415 [] jt = 1 -> 1000 [] jt = 2 -> 1000 [] jt = 3 -> Max2(ml100 * 10, 1415)
CapF(et) == IF et = 3 THEN 1415 ELSE 1000
Times(d, f1000) == CeilDiv(d * f1000, 1000)

(* ---- input classes (decided here, conservatively) ---- *)
TurnOKAt(a, b, c) ==      \* direction change at b at least 10 degrees away from a full reversal: |cross| >= tan(10 deg) |dot| when dot < 0
  LET dt == (b[1] - a[1]) * (c[1] - b[1]) + (b[2] - a[2]) * (c[2] - b[2])
      cr == (b[1] - a[1]) * (c[2] - b[2]) - (b[2] - a[2]) * (c[1] - b[1])
  IN a # b /\ b # c /\ (dt >= 0 \/ Abs(cr) * 1000 >= 177 * Abs(dt))
TurnOKClosed(P) == Len(P) >= 3 /\ \A i \in 1..Len(P) : TurnOKAt(Prv(P, i), P[i], Nxt(P, i))
TurnOKOpen(P) == /\ \A i \in 1..(Len(P) - 1) : P[i] # P[i + 1]
                 /\ \A i \in 2..(Len(P) - 1) : TurnOKAt(P[i - 1], P[i], P[i + 1])
SimpleRing(P) == LET E == TagEdges(<<P>>)
                 IN \A i \in 1..Len(E) : \A j \in (i + 1)..Len(E) : AdjOrSame(E[i], E[j]) \/ ~SegMeet(E[i], E[j])
(* simple polygons with holes: every ring simple, rings pairwise disjoint, nesting depth <= 1, holes oppositely oriented *)
PolyClassOK(Ps) ==
  /\ Len(Ps) >= 1 /\ \A k \in 1..Len(Ps) : SimpleRing(Ps[k]) /\ TurnOKClosed(Ps[k]) /\ Area2(Ps[k]) # 0
  /\ LET E == TagEdges(Ps) IN \A i \in 1..Len(E) : \A j \in (i + 1)..Len(E) : E[i][3] = E[j][3] \/ ~SegMeet(E[i], E[j])
  /\ \A k \in 1..Len(Ps) : Depth(Ps, k) <= 1
  /\ \E s \in {1, -1} : \A k \in 1..Len(Ps) : Sgn(Area2(Ps[k])) = (IF Depth(Ps, k) = 0 THEN s ELSE -s)
Conv(Ps) == LET k == CHOOSE k \in 1..Len(Ps) : Depth(Ps, k) = 0 IN Sgn(Area2(Ps[k]))

(* ---- distance predicates on quarter-unit geometry; E a sequence of <<a, b>> ---- *)
DLe(p, E, x) == x >= 0 /\ \E i \in 1..Len(E) : NearSeg(p, E[i][1], E[i][2], x)          \* sufficient for dist <= x
DGt(p, E, x) == x < 0 \/ \A i \in 1..Len(E) : FarSeg(p, E[i][1], E[i][2], x)             \* sufficient for dist > x
(* p lies in the strip of edge ab: projection inside the edge by margin m from both ends, perpendicular distance <= depth, on the given side *)
(* (side +1: Cross > 0, -1: Cross < 0, 0: either) *)
InStrip(p, a, b, depth, side, m) ==
  LET d1 == Dot(a, b, p)  len2 == Dot(a, b, b)  cr == Cross(a, b, p)
  IN /\ depth >= 0 /\ len2 > 0
     /\ d1 >= m * ISqrtHi(len2) /\ len2 - d1 >= m * ISqrtHi(len2)
     /\ Abs(cr) <= depth * ISqrtLo(len2)
     /\ (side = 0 \/ (side = 1 /\ cr > 0) \/ (side = -1 /\ cr < 0))
(* p lies beyond end point b of segment ab by at most ext (along the segment), within depth of its line *)
BeyondEnd(p, a, b, ext, depth) ==
  LET d1 == Dot(a, b, p)  len2 == Dot(a, b, b)
  IN ext >= 0 /\ len2 > 0 /\ d1 >= len2 /\ d1 - len2 <= ext * ISqrtLo(len2) /\ Abs(Cross(a, b, p)) <= depth * ISqrtLo(len2)
(* p is past the plane through b perpendicular to ab by more than m (m may be negative: then "not more than |m| behind it") *)
PastEndPlane(p, a, b, m) == LET len2 == Dot(a, b, b) IN
                              IF m >= 0 THEN Dot(a, b, p) - len2 > m * ISqrtHi(len2) ELSE Dot(a, b, p) - len2 >= m * ISqrtLo(len2)

(* ---- classification: 1 MUST, 0 MUST NOT, 2 FREE ---- *)
(* polygons (C06): s = signed distance to the region (negative inside); lo/hi = min/max(delta, delta*f) *)
PolyClass(p, E, conv, d4, tol, jt, ml100) ==
  LET on == OnAny(E, p)
      ins == ~on /\ Wind(E, p) # 0
      f == JoinF(jt, ml100)
      d == Abs(d4)
      lo == IF d4 > 0 THEN d ELSE -Times(d, f)
      hi == IF d4 > 0 THEN Times(d, f) ELSE -d
      X == lo - tol                \* MUST  if s <= X
      Y == hi + tol                \* MUST NOT if s >= Y
      inward == IF conv = 1 THEN 1 ELSE -1          \* the region lies on the Cross > 0 side of its boundary edges iff conv = 1
      must == IF jt = 1                \* bevel: lower bound is the polygon moved along its edge normals only (growth), the round result (shrink)
              THEN IF d4 > 0 THEN (ins /\ DGt(p, E, tol)) \/ (~on /\ \E i \in 1..Len(E) : InStrip(p, E[i][1], E[i][2], d - tol, -inward, tol))
                             ELSE ins /\ DGt(p, E, d + tol)
              ELSE IF X >= 0 THEN ins \/ DLe(p, E, X) ELSE ins /\ DGt(p, E, -X)
      mustnot == IF jt = 1 /\ d4 < 0   \* bevel shrink: upper bound is the polygon minus the strips swept inward
                 THEN (~on /\ ~ins /\ DGt(p, E, tol)) \/ (~on /\ \E i \in 1..Len(E) : InStrip(p, E[i][1], E[i][2], d - tol, inward, tol))
                 ELSE IF Y > 0 THEN ~on /\ ~ins /\ DGt(p, E, Y) ELSE (~on /\ ~ins) \/ DLe(p, E, -Y)
  IN IF must THEN 1 ELSE IF mustnot THEN 0 ELSE 2

(* open paths (C07): P one polyline (quarter units), E its segments *)
OpenClass(p, P, E, d, tol, jt, et, ml100) ==
  LET f == Max2(JoinF(jt, ml100), CapF(et))
      n == Len(P)
      r == d - tol
      lateral == \E i \in 1..Len(E) : InStrip(p, E[i][1], E[i][2], r, 0, tol)
      behindEnds == ~PastEndPlane(p, P[n - 1], P[n], -tol) /\ ~PastEndPlane(p, P[2], P[1], -tol)    \* behind both end planes by more than tol
      \* joins that contain the round join (round, square, miter): the whole |delta|-neighbourhood of the polyline, except that butt ends cut off
      \* what lies beyond (or within tol of) an end plane; bevel joins: only the strips (the chord passes at |delta| cos(turn/2))
      nbhd == jt # 1 /\ DLe(p, E, r) /\ (et # 2 \/ behindEnds)
      \* round end: the half disc beyond the end plane; square end: the strip prolonged by |delta|
      capdisc == et = 4 /\ r >= 0 /\ ( (Dist2(p, P[n]) <= r * r /\ Dot(P[n - 1], P[n], p) >= Dot(P[n - 1], P[n], P[n]))
                                      \/ (Dist2(p, P[1]) <= r * r /\ Dot(P[2], P[1], p) >= Dot(P[2], P[1], P[1])) )
      capsq == et = 3 /\ (BeyondEnd(p, P[n - 1], P[n], r, r) \/ BeyondEnd(p, P[2], P[1], r, r))
      others(k) == [i \in 1..(Len(E) - 1) |-> IF i < k THEN E[i] ELSE E[i + 1]]
      butt == et = 2 /\ ( (PastEndPlane(p, P[n - 1], P[n], tol) /\ DGt(p, others(Len(E)), Times(d, f) + tol))
                          \/ (PastEndPlane(p, P[2], P[1], tol) /\ DGt(p, others(1), Times(d, f) + tol)) )
      must == lateral \/ nbhd \/ capdisc \/ capsq
      mustnot == DGt(p, E, Times(d, f) + tol) \/ butt
  IN IF must THEN 1 ELSE IF mustnot THEN 0 ELSE 2
(* Joined: the polyline closed (both sides offset): strips of all edges incl. the closing one, vertex discs *)
JoinedClass(p, P, d, tol, jt, ml100) ==
  LET E == PEdges(P)  f == JoinF(jt, ml100)  r == d - tol
      must == (\E i \in 1..Len(E) : InStrip(p, E[i][1], E[i][2], r, 0, tol)) \/ (jt # 1 /\ r >= 0 /\ \E i \in 1..Len(P) : Dist2(p, P[i]) <= r * r)
      mustnot == DGt(p, E, Times(d, f) + tol)
  IN IF must THEN 1 ELSE IF mustnot THEN 0 ELSE 2
(* single point: disc (round) / square of radius d *)
PointClass(p, v, d, tol, jt) ==
  LET r == d - tol
  IN IF r >= 0 /\ Dist2(p, v) <= r * r THEN 1
     ELSE IF Dist2(p, v) > (Times(d, IF jt = 2 THEN 1000 ELSE 1415) + tol + 4) * (Times(d, IF jt = 2 THEN 1000 ELSE 1415) + tol + 4) THEN 0 ELSE 2

(* several far-apart open paths in one call: a point is classified by the path it is nearest to, provided *)
(* every other path is farther than 2 d f + 2 tol (so their strokes cannot reach it)                        *)
Judge(ev) ==
  LET SC == SCof(ev)
      Ps == ScalePaths(ev.paths, SC)
      d4 == ev.d4  d == Abs(d4)  tol == Tol4(d4, ev.at4, SC)
      pts == ev.pts
      poly == ev.et = 0
      ok == IF poly THEN PolyClassOK(ev.paths)
            ELSE \A k \in 1..Len(Ps) : Len(Ps[k]) >= 1 /\ (IF ev.et = 1 /\ Len(Ps[k]) >= 3 THEN TurnOKClosed(ev.paths[k]) ELSE TurnOKOpen(ev.paths[k]))
      E == AllEdges(Ps)
      conv == IF poly /\ ok THEN Conv(ev.paths) ELSE 1
      sg == IF poly THEN (IF (conv = 1) = (ev.rs = 0) THEN 1 ELSE -1) ELSE (IF ev.rs = 0 THEN 1 ELSE -1)
      reach == Times(d, Max2(JoinF(ev.jt, ev.ml100), CapF(ev.et))) + tol
      OneOpen(p, k) == LET P == Ps[k] IN
                         IF Len(P) = 1 THEN PointClass(p, P[1], d, tol, ev.jt)
                         ELSE IF ev.et = 1 /\ Len(P) >= 3 THEN JoinedClass(p, P, d, tol, ev.jt, ev.ml100)
                         ELSE IF ev.et = 1 THEN OpenClass(p, P, OEdges(P), d, tol, ev.jt, IF ev.jt = 2 THEN 4 ELSE 3, ev.ml100)   \* 2-point Joined path: round/square ends
                         ELSE OpenClass(p, P, OEdges(P), d, tol, ev.jt, ev.et, ev.ml100)
      FarFromPath(p, k) == IF Len(Ps[k]) = 1 THEN Dist2(p, Ps[k][1]) > (2 * reach) * (2 * reach) ELSE DGt(p, PEdges(Ps[k]), 2 * reach)
      cls(p) == IF poly THEN PolyClass(p, E, conv, d4, tol, ev.jt, ev.ml100)
                ELSE LET near == {k \in 1..Len(Ps) : ~FarFromPath(p, k)}
                     IN IF near = {} THEN 0
                        ELSE IF Cardinality(near) = 1 THEN OneOpen(p, CHOOSE k \in near : TRUE) ELSE 2
      C == [i \in 1..Len(pts) |-> cls(pts[i])]
      bad1 == {i \in 1..Len(pts) : C[i] = 1 /\ ev.cover[i] # sg}
      bad0 == {i \in 1..Len(pts) : C[i] = 0 /\ ev.cover[i] # 0}
      prop == IF poly THEN "C06" ELSE "C07"
  IN IF ~ok THEN Note("DROP", 0)
     ELSE /\ Note("CLASSES", <<Cardinality({i \in 1..Len(pts) : C[i] = 1}), Cardinality({i \in 1..Len(pts) : C[i] = 0}), Cardinality({i \in 1..Len(pts) : C[i] = 2})>>)
          /\ IF 2 * Abs(d4) < SC       \* |delta| < 0.5: the region is unchanged
             THEN Chk(\A i \in 1..Len(pts) : OnAny(E, pts[i]) \/ ~poly \/ ev.cover[i] = (IF Wind(E, pts[i]) # 0 THEN sg ELSE 0), prop, "insignificant_delta_changes_region", 0)
             ELSE /\ Chk(bad1 = {}, prop, IF ev.jt = 1 THEN "bevel_not_covered" ELSE "not_covered", IF bad1 = {} THEN 0 ELSE CHOOSE i \in bad1 : TRUE)
                  /\ Chk(bad0 = {}, prop, "covered_beyond_bound", IF bad0 = {} THEN 0 ELSE CHOOSE i \in bad0 : TRUE)
                  /\ (poly /\ ev.n > 0) => Chk(ev.area2s = sg, "C06", "orientation_not_preserved", ev.area2s)
                  /\ (~poly) => Chk(ev.eqneg = 1, "C07", "plus_and_minus_delta_differ", ev.eqneg)

TOff == Ev.e = "Off" /\ Judge(Ev)
TCrash == Ev.e = "Crash" /\ Report("ANY", "call_did_not_return", Ev.sig)
Init == l = 1
Next == l <= Len(Tr) /\ l' = l + 1 /\ (TOff \/ TCrash)
Spec == Init /\ [][Next]_l
=============================================================================
