-------------------------- MODULE LocalMinimaTrace --------------------------
(* Layer 3 binding of LocalMinima.tla: hook H3 (clipper.verif.h vertex_fn) reports the vertex list of     *)
(* every path AddPaths_ processed with the flags it assigned (OpenStart 1, OpenEnd 2, LocalMax 4,         *)
(* LocalMin 8).  Event Verts: open (0/1), v = <<x, y, flags>> per vertex.  Checked against the             *)
(* declarative definition.  Engine-level: a failure is a divergence that directs the observable checks.    *)
EXTENDS TLC, Json, IOUtils, Integers, Sequences, FiniteSets
VARIABLES l
Tr == ndJsonDeserialize(IOEnv.TRACE)
Ev == Tr[l]
LM == INSTANCE LocalMinima WITH MaxLen <- 0, YVals <- {}, Y <- <<>>, pc <- "", prev <- 0, curr <- 0, up <- FALSE, up0 <- FALSE, mins <- {}, maxs <- {}
Report(prop, clause, d) == PrintT(<<"FAIL", prop, l, clause, d>>)
Chk(c, prop, clause, d) == IF c THEN TRUE ELSE Report(prop, clause, d)
Has(f, bit) == (f \div bit) % 2 = 1
TVerts ==
  /\ Ev.e = "Verts"
  /\ LET V == Ev.v  n == Len(V)  Y == [i \in 1..n |-> V[i][2]]
         badC == {i \in 1..n : Has(V[i][3], 8) # LM!DeclMinC(Y, i) \/ Has(V[i][3], 4) # LM!DeclMaxC(Y, i)}
         badO == {i \in 1..n : Has(V[i][3], 8) # LM!DeclMinO(Y, i) \/ Has(V[i][3], 4) # LM!DeclMaxO(Y, i)}
     IN /\ Chk(\A i \in 1..n : V[i][1] # V[(i % n) + 1][1] \/ V[i][2] # V[(i % n) + 1][2] \/ (Ev.open = 1 /\ i = n) \/ n = 1, "ENGINE", "L1_duplicate_vertex_kept", n)
        /\ IF Ev.open = 0
           THEN /\ Chk(badC = {}, "ENGINE", "L2_closed_flags_differ_from_declaration", IF badC = {} THEN 0 ELSE CHOOSE i \in badC : TRUE)
                /\ Chk(\A i \in 1..n : ~Has(V[i][3], 1) /\ ~Has(V[i][3], 2), "ENGINE", "L3_open_flags_on_closed_path", 0)
           ELSE /\ Chk(badO = {}, "ENGINE", "L4_open_flags_differ_from_declaration", IF badO = {} THEN 0 ELSE CHOOSE i \in badO : TRUE)
                /\ Chk(Has(V[1][3], 1) /\ Has(V[n][3], 2) /\ \A i \in 2..(n - 1) : ~Has(V[i][3], 1) /\ ~Has(V[i][3], 2), "ENGINE", "L5_open_ends_not_flagged", 0)
Init == l = 1
Next == l <= Len(Tr) /\ l' = l + 1 /\ TVerts
Spec == Init /\ [][Next]_l
=============================================================================
