CONSTANTS NT = 2 NSeg = 6 MaxPre = 99
SPECIFICATION Spec
INVARIANTS TypeOK SchedLegal Emit
CHECK_DEADLOCK FALSE
