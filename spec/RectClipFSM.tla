---------------------------- MODULE RectClipFSM ----------------------------
(* Design-level model for C08: the Location automaton of RectClip64::ExecuteInternal          *)
(* (clipper.rectclip.cpp) - GetLocation, GetNextLocation, GetIntersection (order in which the *)
(* sides are tried), IsClockwise / AddCorner (corner insertion, opposite locations decided by *)
(* the cross product with the rectangle's mid point), start_locs_ and the closing rule, and   *)
(* the enclosing-path case - written as a state machine (one step = one iteration of the main *)
(* loop) and model-checked exhaustively in small scope against the Layer-0 winding number:    *)
(* for EVERY closed path with NV in Lens vertices on the (LatN+1)^2 lattice the ring emitted  *)
(* by the automaton must satisfy the C08 postcondition (Post below) with NO tolerance.        *)
(*                                                                                            *)
(* Idealisation: the intersection point of an edge with a side is exact.  All coordinates are *)
(* lattice coordinates times K = 12, so every such intersection (denominators 1..4) is an     *)
(* integer point and no rounding exists at this level; rounding is covered by the trace-level *)
(* check (RectClipTrace, tolerance 1 unit).  Not modelled: CheckEdges / TidyEdges / GetPath,  *)
(* which remove collinear vertices and split or rejoin rings along the rectangle's sides -    *)
(* operations that do not change the winding number at any point strictly inside the          *)
(* rectangle and off the ring.  The binding of this model to the code is the conformance run  *)
(* RectClipFSMTrace (the rings enumerated here are replayed into the library).                *)
EXTENDS Geom, TLC, Json, IOUtils

CONSTANTS LatN,      \* lattice 0..LatN in each axis
          RcL, RcT, RcR, RcB,   \* the rectangle in lattice coordinates
          Lens,      \* set of path lengths explored
          Emit       \* TRUE: print one OUT line per terminated behaviour (generator mode)

K == 12
Lat == {<<K * i, K * j>> : i \in 0..LatN, j \in 0..LatN}
RL == K * RcL   RT == K * RcT   RR == K * RcR   RB == K * RcB
R4 == <<RL, RT, RR, RB>>
RP == << <<RL, RT>>, <<RR, RT>>, <<RR, RB>>, <<RL, RB>> >>        \* rect_as_path_; C++ index k is RP[k + 1]
MP == <<(RL + RR) \div 2, (RT + RB) \div 2>>                        \* rect_mp_
LEFT == 0  TOP == 1  RIGHT == 2  BOTTOM == 3  INSIDE == 4          \* enum Location (the order matters)

VARIABLE st
vars == <<st>>

(* ------------------------------------------------------------------ GetLocation: <<loc, not on the boundary>> *)
GetLoc(pt) ==
  IF pt[1] = RL /\ pt[2] >= RT /\ pt[2] <= RB THEN <<LEFT, FALSE>>
  ELSE IF pt[1] = RR /\ pt[2] >= RT /\ pt[2] <= RB THEN <<RIGHT, FALSE>>
  ELSE IF pt[2] = RT /\ pt[1] >= RL /\ pt[1] <= RR THEN <<TOP, FALSE>>
  ELSE IF pt[2] = RB /\ pt[1] >= RL /\ pt[1] <= RR THEN <<BOTTOM, FALSE>>
  ELSE IF pt[1] < RL THEN <<LEFT, TRUE>>
  ELSE IF pt[1] > RR THEN <<RIGHT, TRUE>>
  ELSE IF pt[2] < RT THEN <<TOP, TRUE>>
  ELSE IF pt[2] > RB THEN <<BOTTOM, TRUE>>
  ELSE <<INSIDE, TRUE>>

(* ------------------------------------------------------------------ GetSegmentIntersection: <<found, ip>> *)
CP(p1, p2, p3) == Cross(p1, p2, p3)                    \* CrossProduct(pt1, pt2, pt3)
Btw(v, a, b) == (v > a) = (v < b)                      \* the library's "between" test, kept literally
ExactDiv(a, b) == IF a % Abs(b) = 0 THEN a \div b ELSE Assert(FALSE, <<"intersection not on the K-lattice", a, b>>)
FDiv(a, b) == IF b > 0 THEN a \div b ELSE (-a) \div (-b)
ExactIP(p1, p2, p3, p4) ==                              \* p3-p4 is a side of the rectangle (axis parallel), p1-p2 crosses it properly
  IF p3[1] = p4[1]
  THEN LET num == (p3[1] - p1[1]) * (p2[2] - p1[2])  den == p2[1] - p1[1]
       IN IF num % Abs(den) # 0 THEN Assert(FALSE, <<"intersection not on the K-lattice", p1, p2>>) ELSE <<p3[1], p1[2] + FDiv(num, den)>>
  ELSE LET num == (p3[2] - p1[2]) * (p2[1] - p1[1])  den == p2[2] - p1[2]
       IN IF num % Abs(den) # 0 THEN Assert(FALSE, <<"intersection not on the K-lattice", p1, p2>>) ELSE <<p1[1] + FDiv(num, den), p3[2]>>
OnPt(q, p3, p4, horzOf1, horzOf2) ==                    \* q collinear with segment a-b given by (horzOf1, horzOf2): is it on it?
  IF q = p3 \/ q = p4 THEN TRUE
  ELSE IF horzOf1[2] = horzOf2[2] THEN Btw(q[1], p3[1], p4[1]) ELSE Btw(q[2], p3[2], p4[2])
GSI(p1, p2, p3, p4) ==
  LET res1 == CP(p1, p3, p4)  res2 == CP(p2, p3, p4)
  IN IF res1 = 0 THEN (IF res2 = 0 THEN <<FALSE, p1>> ELSE <<OnPt(p1, p3, p4, p3, p4), p1>>)
     ELSE IF res2 = 0 THEN <<OnPt(p2, p3, p4, p3, p4), p2>>
     ELSE IF (res1 > 0) = (res2 > 0) THEN <<FALSE, p1>>
     ELSE LET res3 == CP(p3, p1, p2)  res4 == CP(p4, p1, p2)
          IN IF res3 = 0 THEN <<OnPt(p3, p1, p2, p1, p2), p3>>
             ELSE IF res4 = 0 THEN <<OnPt(p4, p1, p2, p1, p2), p4>>
             ELSE IF (res3 > 0) = (res4 > 0) THEN <<FALSE, p1>>
             ELSE <<TRUE, ExactIP(p1, p2, p3, p4)>>

(* the four sides as the library passes them: Left = rectPath[0],[3]; Top = [0],[1]; Right = [1],[2]; Bottom = [2],[3] *)
SideA(s) == CASE s = LEFT -> RP[1] [] s = TOP -> RP[1] [] s = RIGHT -> RP[2] [] OTHER -> RP[3]
SideB(s) == CASE s = LEFT -> RP[4] [] s = TOP -> RP[2] [] s = RIGHT -> RP[3] [] OTHER -> RP[4]
Hit(p, p2, s) == GSI(p, p2, SideA(s), SideB(s))
(* tries <<guard, side>> in order; <<found, loc, ip>>; loc unchanged when nothing is found *)
RECURSIVE TrySides(_, _, _, _, _)
TrySides(p, p2, loc, tries, k) ==
  IF k > Len(tries) THEN <<FALSE, loc, <<0, 0>>>>
  ELSE IF tries[k][1] /\ Hit(p, p2, tries[k][2])[1] THEN <<TRUE, tries[k][2], Hit(p, p2, tries[k][2])[2]>>
  ELSE TrySides(p, p2, loc, tries, k + 1)
GetIntersection(p, p2, loc) ==
  TrySides(p, p2, loc,
    CASE loc = LEFT   -> << <<TRUE, LEFT>>,   <<p[2] < RP[1][2], TOP>>,  <<TRUE, BOTTOM>> >>
      [] loc = TOP    -> << <<TRUE, TOP>>,    <<p[1] < RP[1][1], LEFT>>, <<TRUE, RIGHT>> >>
      [] loc = RIGHT  -> << <<TRUE, RIGHT>>,  <<p[2] < RP[2][2], TOP>>,  <<TRUE, BOTTOM>> >>
      [] loc = BOTTOM -> << <<TRUE, BOTTOM>>, <<p[1] < RP[4][1], LEFT>>, <<TRUE, RIGHT>> >>
      [] OTHER        -> << <<TRUE, LEFT>>, <<TRUE, TOP>>, <<TRUE, RIGHT>>, <<TRUE, BOTTOM>> >>, 1)

(* ------------------------------------------------------------------ small helpers *)
Adj(loc, cw) == (loc + (IF cw THEN 1 ELSE 3)) % 4                 \* GetAdjacentLocation
HeadingCW(prev, curr) == (prev + 1) % 4 = curr                    \* HeadingClockwise
Opposites(prev, curr) == Abs(prev - curr) = 2                     \* AreOpposites
IsCW(prev, curr, prevPt, currPt) == IF Opposites(prev, curr) THEN CP(prevPt, MP, currPt) < 0 ELSE HeadingCW(prev, curr)
Add(out, pt) == IF out # <<>> /\ out[Len(out)] = pt THEN out ELSE Append(out, pt)
AddCorner2(out, prev, curr) == IF HeadingCW(prev, curr) THEN Add(out, RP[prev + 1]) ELSE Add(out, RP[curr + 1])
(* do { AddCorner(prev, cw) } while (prev != target): <<out, fuel left>>; fuel guards against the C++ loop not terminating *)
RECURSIVE Corners(_, _, _, _, _)
Corners(out, prev, target, cw, fuel) ==
  IF fuel = 0 THEN <<out, 0>>
  ELSE LET nl == Adj(prev, cw)
           o2 == IF cw THEN Add(out, RP[prev + 1]) ELSE Add(out, RP[nl + 1])
       IN IF nl = target THEN <<o2, fuel>> ELSE Corners(o2, nl, target, cw, fuel - 1)
RECURSIVE PushLocs(_, _, _, _, _)
PushLocs(sl, prev, target, cw, fuel) ==
  IF fuel = 0 THEN <<sl, 0>>
  ELSE LET nl == Adj(prev, cw) IN IF nl = target THEN <<Append(sl, prev), fuel>> ELSE PushLocs(Append(sl, prev), nl, target, cw, fuel - 1)

(* ------------------------------------------------------------------ GetNextLocation: <<loc, i, out>>, i is 1-based, n = highI + 1 *)
RECURSIVE SkipWhile(_, _, _)
SkipWhile(P, i, loc) ==
  IF i <= Len(P) /\ (CASE loc = LEFT -> P[i][1] <= RL [] loc = TOP -> P[i][2] <= RT [] loc = RIGHT -> P[i][1] >= RR [] OTHER -> P[i][2] >= RB)
  THEN SkipWhile(P, i + 1, loc) ELSE i
RECURSIVE WalkInside(_, _, _)
WalkInside(P, i, out) ==
  IF i > Len(P) THEN <<INSIDE, i, out>>
  ELSE IF P[i][1] < RL THEN <<LEFT, i, out>>
  ELSE IF P[i][1] > RR THEN <<RIGHT, i, out>>
  ELSE IF P[i][2] > RB THEN <<BOTTOM, i, out>>
  ELSE IF P[i][2] < RT THEN <<TOP, i, out>>
  ELSE WalkInside(P, i + 1, Add(out, P[i]))
GetNextLocation(P, loc, i, out) ==
  IF loc = INSIDE THEN WalkInside(P, i, out)
  ELSE LET j == SkipWhile(P, i, loc)
       IN IF j > Len(P) THEN <<loc, j, out>>
          ELSE LET p == P[j]
               IN << CASE loc = LEFT   -> (IF p[1] >= RR THEN RIGHT ELSE IF p[2] <= RT THEN TOP ELSE IF p[2] >= RB THEN BOTTOM ELSE INSIDE)
                       [] loc = TOP    -> (IF p[2] >= RB THEN BOTTOM ELSE IF p[1] <= RL THEN LEFT ELSE IF p[1] >= RR THEN RIGHT ELSE INSIDE)
                       [] loc = RIGHT  -> (IF p[1] <= RL THEN LEFT ELSE IF p[2] <= RT THEN TOP ELSE IF p[2] >= RB THEN BOTTOM ELSE INSIDE)
                       [] OTHER        -> (IF p[2] <= RT THEN TOP ELSE IF p[1] <= RL THEN LEFT ELSE IF p[1] >= RR THEN RIGHT ELSE INSIDE),
                     j, out >>

(* ------------------------------------------------------------------ the automaton *)
(* st: P path, i next index (1-based), loc, cloc (crossing_loc), first (first_cross_), sl (start_locs_), out (the ring results_[0]), *)
(*     start (starting_loc), pc in {"loop", "close", "done"}, bad (a situation the C++ code does not handle: see Defined)            *)
RECURSIVE BackScan(_, _)                                 \* while (i > 0 && !GetLocation(path[i - 1], prev)) --i;  -> <<i (C++), prev>>
BackScan(P, i) == IF i = 0 THEN <<0, INSIDE>>
                  ELSE LET g == GetLoc(P[i]) IN IF g[2] THEN <<i, g[1]>> ELSE IF i = 1 THEN <<0, g[1]>> ELSE BackScan(P, i - 1)
RECURSIVE AddAll(_, _, _)
AddAll(out, P, i) == IF i > Len(P) THEN out ELSE AddAll(Add(out, P[i]), P, i + 1)

(* RectClip64::Execute: bounding-box shortcuts taken before the automaton runs *)
BB(P) == BBox(<<P>>)
BoundsMiss(P) == LET bb == BB(P) IN ~(Max2(RL, bb[1]) <= Min2(RR, bb[3]) /\ Max2(RT, bb[2]) <= Min2(RB, bb[4]))    \* !rect_.Intersects(path_bounds_)
BoundsInside(P) == LET bb == BB(P) IN bb[1] >= RL /\ bb[3] <= RR /\ bb[2] >= RT /\ bb[4] <= RB                    \* rect_.Contains(path_bounds_)
Internal(P) ==
  LET n == Len(P)  g == GetLoc(P[n])
      base == [P |-> P, i |-> 1, loc |-> g[1], cloc |-> INSIDE, first |-> INSIDE, sl |-> <<>>, out |-> <<>>, start |-> g[1], pc |-> "loop", bad |-> ""]
  IN IF g[2] THEN base
     ELSE LET b == BackScan(P, n - 1)                      \* C++: i = highI = n - 1, tests path[i - 1] = P[i] (1-based)
          IN IF b[1] = 0 THEN [base EXCEPT !.out = AddAll(<<>>, P, 1), !.pc = "done"]      \* every vertex on the boundary
             ELSE IF b[2] = INSIDE THEN [base EXCEPT !.loc = INSIDE, !.start = INSIDE] ELSE base

Step(s) ==
  LET P == s.P  n == Len(P)
      prev == s.loc  cprev == s.cloc
      g == GetNextLocation(P, s.loc, s.i, s.out)
      loc == g[1]  i == g[2]  out == g[3]
  IN IF i > n THEN [s EXCEPT !.loc = loc, !.i = i, !.out = out, !.pc = "close"]
     ELSE
     LET prevPt == IF i > 1 THEN P[i - 1] ELSE P[n]
         x == GetIntersection(P[i], prevPt, loc)            \* crossing_loc = loc; GetIntersection(rect, path[i], prev_pt, crossing_loc, ip)
         cloc == x[2]  ip == x[3]
     IN IF ~x[1] THEN                                      \* remaining outside
          IF loc = INSIDE THEN [s EXCEPT !.bad = "no intersection although entering", !.pc = "done"]
          ELSE IF cprev = INSIDE THEN
            LET pl == PushLocs(s.sl, prev, loc, IsCW(prev, loc, prevPt, P[i]), 8)
            IN [s EXCEPT !.loc = loc, !.i = i + 1, !.out = out, !.sl = pl[1], !.cloc = cprev, !.bad = IF pl[2] = 0 THEN "start_locs loop" ELSE ""]
          ELSE IF prev # INSIDE /\ prev # loc THEN
            LET c == Corners(out, prev, loc, IsCW(prev, loc, prevPt, P[i]), 8)
            IN [s EXCEPT !.loc = loc, !.i = i + 1, !.out = c[1], !.cloc = cloc, !.bad = IF c[2] = 0 THEN "corner loop" ELSE ""]
          ELSE [s EXCEPT !.loc = loc, !.i = i + 1, !.out = out, !.cloc = cloc]
        ELSE IF loc = INSIDE THEN                          \* entering
          IF s.first = INSIDE
          THEN [s EXCEPT !.loc = loc, !.i = i, !.cloc = cloc, !.first = cloc, !.sl = Append(s.sl, prev), !.out = Add(out, ip)]
          ELSE IF prev # cloc
          THEN LET c == Corners(out, prev, cloc, IsCW(prev, cloc, prevPt, P[i]), 8)
               IN [s EXCEPT !.loc = loc, !.i = i, !.cloc = cloc, !.out = Add(c[1], ip), !.bad = IF c[2] = 0 \/ prev = INSIDE THEN "corner loop" ELSE ""]
          ELSE [s EXCEPT !.loc = loc, !.i = i, !.cloc = cloc, !.out = Add(out, ip)]
        ELSE IF prev # INSIDE THEN                         \* passing right through: ip is the second intersection, ip2 the first
          LET y == GetIntersection(prevPt, P[i], prev)
              loc2 == y[2]  ip2 == y[3]
              o1 == IF cprev # INSIDE /\ cprev # loc2 THEN AddCorner2(out, cprev, loc2) ELSE out
              first2 == IF s.first = INSIDE THEN loc2 ELSE s.first
              sl2 == IF s.first = INSIDE THEN Append(s.sl, prev) ELSE s.sl
              o2 == Add(o1, ip2)
          IN IF ~y[1] THEN [s EXCEPT !.bad = "ip2 undefined", !.pc = "done"]
             ELSE IF ip = ip2
             THEN LET l3 == GetLoc(P[i])[1]                  \* very likely path[i] is on the rectangle
                  IN IF l3 = INSIDE THEN [s EXCEPT !.bad = "ip = ip2 with path[i] inside", !.pc = "done"]     \* C++ would index rect_as_path_[4]
                     ELSE [s EXCEPT !.loc = l3, !.i = i, !.cloc = l3, !.first = first2, !.sl = sl2, !.out = AddCorner2(o2, cloc, l3)]
             ELSE [s EXCEPT !.loc = cloc, !.i = i, !.cloc = cloc, !.first = first2, !.sl = sl2, !.out = Add(o2, ip)]
        ELSE                                               \* exiting
          [s EXCEPT !.loc = cloc, !.i = i, !.cloc = cloc, !.first = IF s.first = INSIDE THEN cloc ELSE s.first, !.out = Add(out, ip)]

(* PointInPolygon idealised: inside = odd winding number, on the boundary = on an edge *)
RECURSIVE IoCount(_, _, _)
IoCount(P, k, io) ==
  IF k > 4 \/ Abs(io) > 1 THEN io
  ELSE IF OnAny(PEdges(P), RP[k]) THEN IoCount(P, k + 1, io)
  ELSE IoCount(P, k + 1, IF Wind(PEdges(P), RP[k]) % 2 = 0 THEN io + 1 ELSE io - 1)
Path1ContainsRect(P) == IoCount(P, 1, 0) <= 0
BoundsContainRect(P) == LET bb == BBox(<<P>>) IN RL >= bb[1] /\ RR <= bb[3] /\ RT >= bb[2] /\ RB <= bb[4]
RECURSIVE SLSum(_, _)
SLSum(sl, k) == IF k > Len(sl) THEN 0
                ELSE LET d == sl[k] - sl[k - 1] IN (IF d = 1 \/ d = -3 THEN 1 ELSE IF d = -1 \/ d = 3 THEN -1 ELSE 0) + SLSum(sl, k + 1)
StartLocsCW(sl) == SLSum(sl, 2) > 0
(* for (loc2 : start_locs_) { if (prev == loc2) continue; AddCorner(prev, HeadingClockwise(prev, loc2)); prev = loc2; } : <<out, prev>> *)
RECURSIVE CloseLocs(_, _, _, _)
CloseLocs(out, prev, sl, k) ==
  IF k > Len(sl) THEN <<out, prev>>
  ELSE IF prev = sl[k] THEN CloseLocs(out, prev, sl, k + 1)
  ELSE LET cw == HeadingCW(prev, sl[k])
           o2 == IF cw THEN Add(out, RP[prev + 1]) ELSE Add(out, RP[Adj(prev, FALSE) + 1])
       IN CloseLocs(o2, sl[k], sl, k + 1)
Close(s) ==
  LET P == s.P IN
  IF s.first = INSIDE THEN
    IF s.start # INSIDE /\ BoundsContainRect(P) /\ Path1ContainsRect(P)
    THEN LET cw == StartLocsCW(s.sl)
             o == IF cw THEN Add(Add(Add(Add(s.out, RP[1]), RP[2]), RP[3]), RP[4]) ELSE Add(Add(Add(Add(s.out, RP[4]), RP[3]), RP[2]), RP[1])
         IN [s EXCEPT !.out = o, !.pc = "done"]
    ELSE [s EXCEPT !.pc = "done"]
  ELSE IF s.loc # INSIDE /\ (s.loc # s.first \/ Len(s.sl) > 2) THEN
    LET c == IF Len(s.sl) > 0 THEN CloseLocs(s.out, s.loc, s.sl, 1) ELSE <<s.out, s.loc>>
        loc == c[2]
        o == IF loc # s.first THEN (IF HeadingCW(loc, s.first) THEN Add(c[1], RP[loc + 1]) ELSE Add(c[1], RP[Adj(loc, FALSE) + 1])) ELSE c[1]
    IN [s EXCEPT !.out = o, !.pc = "done"]
  ELSE [s EXCEPT !.pc = "done"]

Start(P) ==
  LET blank == [P |-> P, i |-> 1, loc |-> INSIDE, cloc |-> INSIDE, first |-> INSIDE, sl |-> <<>>, out |-> <<>>, start |-> INSIDE, pc |-> "done", bad |-> ""]
  IN IF BoundsMiss(P) THEN blank                              \* completely outside: nothing
     ELSE IF BoundsInside(P) THEN [blank EXCEPT !.out = P]    \* completely inside: returned unchanged
     ELSE Internal(P)

(* ------------------------------------------------------------------ specification *)
Paths == UNION {[1..n -> Lat] : n \in Lens}
Init == \E P \in Paths : st = Start(P)
Next == \/ st.pc = "loop" /\ st' = Step(st)
        \/ st.pc = "close" /\ st' = Close(st)
Spec == Init /\ [][Next]_vars

(* ------------------------------------------------------------------ the C08 postcondition on the emitted ring, exact *)
InStrict(p) == RL < p[1] /\ p[1] < RR /\ RT < p[2] /\ p[2] < RB
InClosed(p) == RL <= p[1] /\ p[1] <= RR /\ RT <= p[2] /\ p[2] <= RB
OnBoundary(p) == InClosed(p) /\ ~InStrict(p)
Nx(P, i) == P[(i % Len(P)) + 1]
Pv(P, i) == P[((i + Len(P) - 2) % Len(P)) + 1]
Simple(P) ==
  LET n == Len(P)  E == PEdges(P)
  IN /\ n >= 3
     /\ \A i \in 1..n : \A j \in (i + 1)..n : P[i] # P[j]
     /\ \A i \in 1..n : ~(Cross(Pv(P, i), P[i], Nx(P, i)) = 0 /\ Dot(P[i], Pv(P, i), Nx(P, i)) > 0)
     /\ \A i \in 1..n : \A j \in (i + 1)..n : (j = i + 1 \/ (i = 1 /\ j = n)) \/ ~SegMeet(E[i], E[j])
Overl(a1, a2, b1, b2) == Max2(Min2(a1, a2), Min2(b1, b2)) <= Min2(Max2(a1, a2), Max2(b1, b2))
EdgeAlong(e) ==
  LET a == e[1] b == e[2]
  IN a # b /\ \/ (a[1] = b[1] /\ (a[1] = RL \/ a[1] = RR) /\ Overl(a[2], b[2], RT, RB))
              \/ (a[2] = b[2] /\ (a[2] = RT \/ a[2] = RB) /\ Overl(a[1], b[1], RL, RR))
AlongSide(P) == \E i \in 1..Len(P) : EdgeAlong(PEdges(P)[i])
(* sample points: every point of a fine grid strictly inside the rectangle (asymmetric offsets, so few lie on lattice lines or diagonals) *)
GridX == {x \in (RL + 1)..(RR - 1) : x % 12 \in {1, 5, 7, 11}}
GridY == {y \in (RT + 1)..(RB - 1) : y % 12 \in {2, 4, 8, 10}}
Samples == GridX \X GridY
Post(s) ==
  LET P == s.P  ring == s.out  EP == PEdges(P)  ER == PEdges(ring)
      free == {p \in Samples : ~OnAny(EP, p) /\ ~OnAny(ER, p)}
      inputs == {P[i] : i \in 1..Len(P)}
  IN /\ \A i \in 1..Len(ring) : InClosed(ring[i])                                   \* inside the rectangle
     /\ \A i \in 1..Len(ring) : ring[i] \in inputs \/ OnBoundary(ring[i])            \* new vertices on the boundary
     /\ IF Simple(P) THEN \A p \in free : Wind(ER, p) = Wind(EP, p)
        ELSE AlongSide(P) \/ \A p \in free : (Wind(ER, p) - Wind(EP, p)) % 2 = 0
Done == st.pc = "done"
(* invariants *)
Defined == st.bad = ""                          \* the automaton never reaches a situation the C++ code leaves undefined
PostOK == Done => Post(st)
EmitOK == (Done /\ Emit) => PrintT("FSMOUT " \o ToJson([P |-> st.P, ring |-> st.out]))   \* one line per behaviour (a string is never wrapped)
=============================================================================
