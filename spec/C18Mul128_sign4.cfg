CONSTANT W = 4
CONSTANT MODE = "sign"
SPECIFICATION Spec
INVARIANT MulCorrect
INVARIANT SignCorrect
CHECK_DEADLOCK FALSE
