CONSTANT W = 4
CONSTANT MODE = "sign"
CONSTANT RNG = 16
SPECIFICATION Spec
INVARIANT MulCorrect
INVARIANT SignCorrect
CHECK_DEADLOCK FALSE
