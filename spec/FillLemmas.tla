----------------------------- MODULE FillLemmas -----------------------------
(* Algebra of the fill-rule x clip-type semantics (used by C13); TLC checks the lemmas for |w| <= WMax. *)
EXTENDS Fill
CONSTANT WMax
W == (-WMax)..WMax

LemXor   == \A fr \in FillRules, s \in W, c \in W :
              InResult(4, fr, s, c) = (InResult(2, fr, s, c) /\ ~InResult(1, fr, s, c))
LemPart  == \A fr \in FillRules, s \in W, c \in W :
              /\ ~(InResult(3, fr, s, c) /\ InResult(1, fr, s, c))
              /\ (InResult(3, fr, s, c) \/ InResult(1, fr, s, c)) = Filled(fr, s)
LemSwap  == \A fr \in FillRules, s \in W, c \in W, ct \in {1, 2, 4} :
              InResult(ct, fr, s, c) = InResult(ct, fr, c, s)
LemNeg   == \A fr \in FillRules, s \in W, c \in W, ct \in ClipTypes :
              InResult(ct, fr, s, c) = InResult(ct, MirrorFR(fr), -s, -c)
LemNoClip == \A fr \in FillRules, s \in W, c \in W : ~InResult(0, fr, s, c)
LemOpen  == \A fr \in FillRules, s \in W, c \in W :
              /\ KeepOpen(3, fr, s, c) = ~KeepOpen(1, fr, s, c)
              /\ KeepOpen(2, fr, s, c) => KeepOpen(3, fr, s, c)
VARIABLE z
Init == z = 0
Next == z' = z
Lemmas == LemXor /\ LemPart /\ LemSwap /\ LemNeg /\ LemNoClip /\ LemOpen
=============================================================================
