----------------------------- MODULE C17Forward -----------------------------
(* C17: the forwarding table of the C export layer, written from the DOCUMENTED signatures    *)
(* (declarations + comment block of clipper.export.h, and the C++ API they stand for).        *)
(* For each of the 14 exported functions:                                                      *)
(*   x     the scalar parameters of the exported function, in signature order, each with the  *)
(*         finite domain of values the check enumerates (TLC enumerates the full product)      *)
(*   n     the parameters of the corresponding native C++ call.  A native parameter with the   *)
(*         name of an exported parameter must receive exactly that argument; one named in      *)
(*         'fixed' receives that constant; any other receives 0 (= the C++ default / "as        *)
(*         documented").  The extra native-only parameters exist so that TLC can (a) certify    *)
(*         that flipping them changes the native result (non-vacuity: a dropped or transposed   *)
(*         argument would be visible) and (b) name the defect class of a mismatch.             *)
(* The native call of the Inflate* functions is the documented C++ InflatePaths: delta = 0 returns the input paths      *)
(* unchanged; otherwise ClipperOffset(miter_limit, arc_tolerance [* 10^prec], pc, rs) on the [scaled] paths.             *)
(* Codes: doubles are given in quarter units (delta, ml = miter limit, at = arc tolerance);    *)
(* ct/fr/jt/et are the documented enum values; prec = decimal precision; pc/rs = preserve      *)
(* collinear / reverse solution; rect = index into Rects (quarter units; the last one empty).  *)
(* Native-only: roles (1 = subject and clip swapped), pc (ClipperOffset's preserve_collinear), *)
(* atu (1 = arc tolerance NOT scaled by 10^prec although paths and delta are), lines           *)
(* (RectClipLines instead of RectClip), diff (MinkowskiDiff instead of Sum), sw (pattern and   *)
(* path swapped).                                                                              *)
EXTENDS Integers, Sequences

P(nm, dom) == [n |-> nm, d |-> dom]
B == <<0, 1>>
CT == <<0, 1, 2, 3, 4>>
FR == <<0, 1, 2, 3>>
PREC == <<2, 0, 1>>
JT == <<0, 1, 2, 3>>
ET == <<0, 1, 2, 3, 4>>
DELTA == <<10, -8, 20, 0>>
ML == <<8, 20>>
AT == <<0, 1, 8>>
Rects == <<<<8, 4, 44, 36>>, <<-20, 10, 24, 90>>, <<30, 10, 30, 40>>>>
RI == <<1, 2, 3>>
None == [none |-> 0]

BoolX == <<P("ct", CT), P("fr", FR), P("pc", B), P("rs", B)>>
BoolN == BoolX \o <<P("roles", B)>>
BoolDX == <<P("ct", CT), P("fr", FR), P("prec", PREC), P("pc", B), P("rs", B)>>
BoolDN == BoolDX \o <<P("roles", B)>>
InflX == <<P("delta", DELTA), P("jt", JT), P("et", ET), P("ml", ML), P("at", AT), P("rs", B)>>
InflN == <<P("delta", DELTA), P("jt", JT), P("et", ET), P("ml", ML), P("at", AT), P("pc", B), P("rs", B)>>
InflDX == <<P("delta", DELTA), P("jt", JT), P("et", ET), P("prec", PREC), P("ml", ML), P("at", AT), P("rs", B)>>
InflDN == <<P("delta", DELTA), P("jt", JT), P("et", ET), P("prec", PREC), P("ml", ML), P("at", AT), P("pc", B), P("rs", B), P("atu", B)>>
RectX == <<P("rect", RI)>>
RectN == <<P("rect", RI), P("lines", B)>>
RectDX == <<P("rect", RI), P("prec", PREC)>>
RectDN == <<P("rect", RI), P("prec", PREC), P("lines", B)>>
MinkX == <<P("closed", B)>>
MinkN == <<P("closed", B), P("diff", B), P("sw", B)>>

Fn(name, kind, cls, tree, x, n, fixed) == [fn |-> name, kind |-> kind, cls |-> cls, tree |-> tree, x |-> x, n |-> n, fixed |-> fixed]
Fns == <<
  Fn("BooleanOp64",          "64", "bool",  0, BoolX,  BoolN,  None),
  Fn("BooleanOp_PolyTree64", "64", "bool",  1, BoolX,  BoolN,  None),
  Fn("BooleanOpD",           "D",  "bool",  0, BoolDX, BoolDN, None),
  Fn("BooleanOp_PolyTreeD",  "D",  "bool",  1, BoolDX, BoolDN, None),
  Fn("InflatePaths64",       "64", "infl",  0, InflX,  InflN,  None),
  Fn("InflatePathsD",        "D",  "infl",  0, InflDX, InflDN, None),
  Fn("InflatePath64",        "64", "infl1", 0, InflX,  InflN,  None),
  Fn("InflatePathD",         "D",  "infl1", 0, InflDX, InflDN, None),
  Fn("RectClip64",           "64", "rect",  0, RectX,  RectN,  [lines |-> 0]),
  Fn("RectClipD",            "D",  "rect",  0, RectDX, RectDN, [lines |-> 0]),
  Fn("RectClipLines64",      "64", "rect",  0, RectX,  RectN,  [lines |-> 1]),
  Fn("RectClipLinesD",       "D",  "rect",  0, RectDX, RectDN, [lines |-> 1]),
  Fn("MinkowskiSum64",       "64", "mink",  0, MinkX,  MinkN,  [diff |-> 0]),
  Fn("MinkowskiDiff64",      "64", "mink",  0, MinkX,  MinkN,  [diff |-> 1])
>>
FnRec(name) == Fns[CHOOSE i \in 1..Len(Fns) : Fns[i].fn = name]
FnNames == {Fns[i].fn : i \in 1..Len(Fns)}

(* ---- products in row-major order (last parameter fastest) *)
RECURSIVE ProdFrom(_, _)
ProdFrom(ps, i) == IF i > Len(ps) THEN 1 ELSE Len(ps[i].d) * ProdFrom(ps, i + 1)
Size(ps) == ProdFrom(ps, 1)
Strides(ps) == [i \in 1..Len(ps) |-> ProdFrom(ps, i + 1)]
Pos(d, v) == CHOOSE p \in 1..Len(d) : d[p] = v
TupleAt(ps, st, k) == [i \in 1..Len(ps) |-> ps[i].d[((k \div st[i]) % Len(ps[i].d)) + 1]]     \* k = 0-based index
RECURSIVE IdxFrom(_, _, _, _)
IdxFrom(ps, st, t, i) == IF i > Len(ps) THEN 0 ELSE (Pos(ps[i].d, t[i]) - 1) * st[i] + IdxFrom(ps, st, t, i + 1)
IndexOf(ps, st, t) == IdxFrom(ps, st, t, 1)                                                    \* 0-based
XSlot(F, nm) == IF \E j \in 1..Len(F.x) : F.x[j].n = nm THEN CHOOSE j \in 1..Len(F.x) : F.x[j].n = nm ELSE 0
NSlot(F, nm) == IF \E j \in 1..Len(F.n) : F.n[j].n = nm THEN CHOOSE j \in 1..Len(F.n) : F.n[j].n = nm ELSE 0
(* THE forwarding rule: the native argument tuple that the exported call with arguments xa stands for. *)
(* FwdSlots / FwdConst are the rule in table form (evaluated once per function by the trace spec).      *)
FwdSlots(F) == [i \in 1..Len(F.n) |-> XSlot(F, F.n[i].n)]
FwdConst(F) == [i \in 1..Len(F.n) |-> LET nm == F.n[i].n IN IF nm \in DOMAIN F.fixed THEN F.fixed[nm] ELSE 0]
ForwardV(sl, cn, xa) == [i \in 1..Len(sl) |-> IF sl[i] > 0 THEN xa[sl[i]] ELSE cn[i]]
Forward(F, xa) == ForwardV(FwdSlots(F), FwdConst(F), xa)
=============================================================================
