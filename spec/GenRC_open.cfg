CONSTANT Lens = {2, 3}
SPECIFICATION Spec
CHECK_DEADLOCK FALSE
