CONSTANT Lens = {4}
SPECIFICATION Spec
CHECK_DEADLOCK FALSE
