------------------------------- MODULE C16Big -------------------------------
(* Exact arithmetic on naturals of arbitrary size for TLC (whose integers are 32-bit   *)
(* and raise an error on overflow).  A natural is a sequence of limbs in 0..B-1, least  *)
(* significant first, without a most significant zero limb; zero is <<>>.  B = 10^4 so  *)
(* that limb * limb + carry < 2^31 and scaling by 10^p is a shift plus a small factor.  *)
(* Small factors k of MulS / DivS satisfy 0 < k <= KMAX (9999 * KMAX + KMAX < 2^31).    *)
(* A signed wide integer (as written into traces) is <<sign>> \o magnitude with sign in *)
(* {-1, 0, 1}, sign = 0 iff the magnitude is <<>>.                                      *)
EXTENDS Integers, Sequences

B == 10000
KMAX == 200000

IsNat(a) == /\ \A i \in 1..Len(a) : a[i] \in 0..(B - 1)
            /\ (Len(a) > 0 => a[Len(a)] # 0)

RECURSIVE Norm(_)
Norm(a) == IF a = <<>> THEN a
           ELSE IF a[Len(a)] = 0 THEN Norm(SubSeq(a, 1, Len(a) - 1)) ELSE a

RECURSIVE FromInt(_)
FromInt(n) == IF n = 0 THEN <<>> ELSE <<n % B>> \o FromInt(n \div B)      \* n >= 0

RECURSIVE ToIntFrom(_, _)
ToIntFrom(a, i) == IF i > Len(a) THEN 0 ELSE a[i] + B * ToIntFrom(a, i + 1)
ToInt(a) == ToIntFrom(a, 1)                                                \* only for values < 2^31

Limb(a, i) == IF i <= Len(a) THEN a[i] ELSE 0

RECURSIVE AddC(_, _, _, _)
AddC(a, b, i, c) ==
  IF i > Len(a) /\ i > Len(b) THEN (IF c = 0 THEN <<>> ELSE <<c>>)
  ELSE LET s == Limb(a, i) + Limb(b, i) + c
       IN <<s % B>> \o AddC(a, b, i + 1, s \div B)
Add(a, b) == AddC(a, b, 1, 0)

(* a - b for a >= b *)
RECURSIVE SubC(_, _, _, _)
SubC(a, b, i, c) ==
  IF i > Len(a) THEN <<>>
  ELSE LET s == a[i] - Limb(b, i) - c
       IN IF s < 0 THEN <<s + B>> \o SubC(a, b, i + 1, 1) ELSE <<s>> \o SubC(a, b, i + 1, 0)
Sub(a, b) == Norm(SubC(a, b, 1, 0))

RECURSIVE CmpFrom(_, _, _)
CmpFrom(a, b, i) == IF i = 0 THEN 0
                    ELSE IF a[i] < b[i] THEN -1 ELSE IF a[i] > b[i] THEN 1 ELSE CmpFrom(a, b, i - 1)
Cmp(a, b) == IF Len(a) < Len(b) THEN -1 ELSE IF Len(a) > Len(b) THEN 1 ELSE CmpFrom(a, b, Len(a))
Le(a, b) == Cmp(a, b) <= 0
Lt(a, b) == Cmp(a, b) < 0
AbsDiff(a, b) == IF Le(a, b) THEN Sub(b, a) ELSE Sub(a, b)

RECURSIVE MulSC(_, _, _, _)
MulSC(a, k, i, c) ==
  IF i > Len(a) THEN FromInt(c)
  ELSE LET s == a[i] * k + c IN <<s % B>> \o MulSC(a, k, i + 1, s \div B)
MulS(a, k) == IF k = 0 \/ a = <<>> THEN <<>> ELSE MulSC(a, k, 1, 0)       \* 0 <= k <= KMAX

ShiftL(a) == IF a = <<>> THEN a ELSE <<0>> \o a                            \* times B
RECURSIVE MulFrom(_, _, _)
MulFrom(a, b, i) == IF i > Len(b) THEN <<>> ELSE Add(MulS(a, b[i]), ShiftL(MulFrom(a, b, i + 1)))
Mul(a, b) == IF a = <<>> \/ b = <<>> THEN <<>> ELSE MulFrom(a, b, 1)

(* floor(a / k) for 0 < k <= KMAX : short division from the most significant limb; r * B + limb < 2^31 *)
RECURSIVE DivSFrom(_, _, _, _)
DivSFrom(a, k, i, r) ==          \* quotient limbs i..1 (returned least significant first), r the running remainder
  IF i = 0 THEN <<>>
  ELSE LET t == r * B + a[i] IN DivSFrom(a, k, i - 1, t % k) \o <<t \div k>>
DivS(a, k) == Norm(DivSFrom(a, k, Len(a), 0))
RECURSIVE ModSFrom(_, _, _, _)
ModSFrom(a, k, i, r) == IF i = 0 THEN r ELSE ModSFrom(a, k, i - 1, (r * B + a[i]) % k)
ModS(a, k) == ModSFrom(a, k, Len(a), 0)

RECURSIVE Pow2(_)
Pow2(k) == IF k <= 13 THEN <<2 ^ k>> ELSE MulS(Pow2(k - 13), 8192)         \* k >= 0
RECURSIVE Zeros(_)
Zeros(j) == IF j = 0 THEN <<>> ELSE <<0>> \o Zeros(j - 1)
Pow10(k) == Zeros(k \div 4) \o <<10 ^ (k % 4)>>                            \* k >= 0

(* floor(a / 2^k), floor(a / 10^k) by repeated short division (floor(floor(a/b)/c) = floor(a/(bc))) *)
RECURSIVE DivPow2(_, _)
DivPow2(a, k) == IF k = 0 THEN a ELSE IF k <= 13 THEN DivS(a, 2 ^ k) ELSE DivPow2(DivS(a, 8192), k - 13)
RECURSIVE DivPow10(_, _)
DivPow10(a, k) == IF k = 0 THEN a ELSE IF k <= 4 THEN DivS(a, 10 ^ k) ELSE DivPow10(DivS(a, 10000), k - 4)

(* signed wide integers of the traces *)
IsWide(w) == /\ Len(w) >= 1 /\ w[1] \in {-1, 0, 1}
             /\ IsNat(Tail(w)) /\ ((w[1] = 0) = (Len(w) = 1))
Sg(w) == w[1]
Mag(w) == Tail(w)
Wide(s, m) == IF m = <<>> THEN <<0>> ELSE <<s>> \o m
WideOfInt(n) == IF n = 0 THEN <<0>> ELSE IF n < 0 THEN <<-1>> \o FromInt(-n) ELSE <<1>> \o FromInt(n)
=============================================================================
