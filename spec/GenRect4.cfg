CONSTANTS NX = 2 NY = 3
INIT Init
NEXT Next
