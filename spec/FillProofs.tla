----------------------------- MODULE FillProofs -----------------------------
(* Unbounded versions of the Fill algebra lemmas (FillLemmas.tla checks them with TLC for |w| <= 6):     *)
(* proved by the TLA+ proof system (tlapm, SMT back end) for ALL integer windings.  Reported separately   *)
(* in the evidence of C13; never part of a verdict.                                                       *)
EXTENDS Fill, TLAPS

THEOREM XorIsUnionMinusIntersection ==
  \A fr \in FillRules, s \in Int, c \in Int :
    InResult(4, fr, s, c) = (InResult(2, fr, s, c) /\ ~InResult(1, fr, s, c))
  BY DEF InResult, Combine, Filled, FillRules

THEOREM DifferenceAndIntersectionPartitionSubject ==
  \A fr \in FillRules, s \in Int, c \in Int :
    /\ ~(InResult(3, fr, s, c) /\ InResult(1, fr, s, c))
    /\ (InResult(3, fr, s, c) \/ InResult(1, fr, s, c)) = Filled(fr, s)
  BY DEF InResult, Combine, Filled, FillRules

THEOREM SwapSymmetric ==
  \A fr \in FillRules, s \in Int, c \in Int, ct \in {1, 2, 4} :
    InResult(ct, fr, s, c) = InResult(ct, fr, c, s)
  BY DEF InResult, Combine, Filled, FillRules

THEOREM NegationExchangesPositiveAndNegative ==
  \A fr \in {1, 2, 3}, s \in Int, c \in Int, ct \in ClipTypes :
    InResult(ct, fr, s, c) = InResult(ct, MirrorFR(fr), -s, -c)
  BY DEF InResult, Combine, Filled, MirrorFR, ClipTypes

THEOREM NoClipIsEmpty == \A fr \in FillRules, s \in Int, c \in Int : ~InResult(0, fr, s, c)
  BY DEF InResult, Combine
=============================================================================
