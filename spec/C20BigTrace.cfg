CONSTANT LB = 12
SPECIFICATION Spec
CHECK_DEADLOCK FALSE
