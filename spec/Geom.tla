------------------------------- MODULE Geom -------------------------------
(* Layer 0: exact integer geometry.  A point is <<x, y>>, a path a sequence of     *)
(* points, a path set a sequence of paths.  Everything is integer arithmetic that  *)
(* stays below 2^31 for coordinates |c| <= 2^10 (TLC integers are 32-bit and TLC   *)
(* raises an error on overflow, it never wraps).  Distance tests never square a    *)
(* cross product: they compare |cross| with t * ceil(|ab|), which is a SUFFICIENT  *)
(* condition for "farther than t" - every use below only needs that direction.     *)
EXTENDS Integers, Sequences, FiniteSets

Abs(x) == IF x < 0 THEN -x ELSE x
Sgn(x) == IF x > 0 THEN 1 ELSE IF x < 0 THEN -1 ELSE 0
Min2(a, b) == IF a <= b THEN a ELSE b
Max2(a, b) == IF a >= b THEN a ELSE b

RECURSIVE SumF(_, _)
SumF(f, n) == IF n = 0 THEN 0 ELSE f[n] + SumF(f, n - 1)

RECURSIVE Flat(_)
Flat(ss) == IF ss = <<>> THEN <<>> ELSE Head(ss) \o Flat(Tail(ss))

RECURSIVE ISqrtBS(_, _, _)
ISqrtBS(n, lo, hi) ==
  IF lo >= hi THEN lo
  ELSE LET m == (lo + hi) \div 2
       IN IF m * m >= n THEN ISqrtBS(n, lo, m) ELSE ISqrtBS(n, m + 1, hi)
ISqrtHi(n) == ISqrtBS(n, 0, 46340)                 \* least k with k*k >= n
ISqrtLo(n) == LET h == ISqrtHi(n) IN IF h * h = n THEN h ELSE h - 1

Cross(a, b, p) == (b[1] - a[1]) * (p[2] - a[2]) - (b[2] - a[2]) * (p[1] - a[1])
Dot(a, b, p)   == (b[1] - a[1]) * (p[1] - a[1]) + (b[2] - a[2]) * (p[2] - a[2])
Orient(a, b, p) == Sgn(Cross(a, b, p))
Dist2(a, b) == (a[1] - b[1]) * (a[1] - b[1]) + (a[2] - b[2]) * (a[2] - b[2])
ScaleP(p, k) == <<p[1] * k, p[2] * k>>
ScalePath(P, k) == [i \in 1..Len(P) |-> ScaleP(P[i], k)]
ScalePaths(Ps, k) == [j \in 1..Len(Ps) |-> ScalePath(Ps[j], k)]

(* Closed-path edges as <<a, b>> pairs; open-path edges omit the closing edge. *)
PEdges(P) == IF Len(P) = 0 THEN <<>> ELSE [i \in 1..Len(P) |-> <<P[i], P[(i % Len(P)) + 1]>>]
OEdges(P) == IF Len(P) < 2 THEN <<>> ELSE [i \in 1..(Len(P) - 1) |-> <<P[i], P[i + 1]>>]
AllEdges(Ps) == Flat([k \in 1..Len(Ps) |-> PEdges(Ps[k])])
AllOEdges(Ps) == Flat([k \in 1..Len(Ps) |-> OEdges(Ps[k])])

OnSeg(a, b, p) == /\ Cross(a, b, p) = 0
                  /\ Min2(a[1], b[1]) <= p[1] /\ p[1] <= Max2(a[1], b[1])
                  /\ Min2(a[2], b[2]) <= p[2] /\ p[2] <= Max2(a[2], b[2])
OnAny(E, p) == \E i \in 1..Len(E) : OnSeg(E[i][1], E[i][2], p)

(* Winding number of the closed edge list E about p (defined for p on no edge):    *)
(* upward crossings with p strictly left minus downward crossings with p strictly  *)
(* right.  With y read as the Cartesian axis this is the engine's winding count.   *)
Up(e, p)   == e[1][2] <= p[2] /\ e[2][2] > p[2]  /\ Cross(e[1], e[2], p) > 0
Down(e, p) == e[1][2] > p[2]  /\ e[2][2] <= p[2] /\ Cross(e[1], e[2], p) < 0
Wind(E, p) == Cardinality({i \in 1..Len(E) : Up(E[i], p)}) - Cardinality({i \in 1..Len(E) : Down(E[i], p)})
WindPath(P, p) == Wind(PEdges(P), p)

(* FarSeg: SUFFICIENT condition for dist(p, segment ab) > t  (t a non-negative integer). *)
FarSeg(p, a, b, t) ==
  LET d1 == Dot(a, b, p)  len2 == Dot(a, b, b)
  IN IF d1 <= 0 THEN Dist2(p, a) > t * t
     ELSE IF d1 >= len2 THEN Dist2(p, b) > t * t
     ELSE Abs(Cross(a, b, p)) > t * ISqrtHi(len2)
(* NearSeg: SUFFICIENT condition for dist(p, segment ab) <= t. *)
NearSeg(p, a, b, t) ==
  LET d1 == Dot(a, b, p)  len2 == Dot(a, b, b)
  IN IF d1 <= 0 THEN Dist2(p, a) <= t * t
     ELSE IF d1 >= len2 THEN Dist2(p, b) <= t * t
     ELSE Abs(Cross(a, b, p)) <= t * ISqrtLo(len2)
ClearOf(E, p, t) == \A i \in 1..Len(E) : FarSeg(p, E[i][1], E[i][2], t)

ProperCross(e, f) ==
  /\ Orient(e[1], e[2], f[1]) * Orient(e[1], e[2], f[2]) < 0
  /\ Orient(f[1], f[2], e[1]) * Orient(f[1], f[2], e[2]) < 0
(* the two closed segments share at least one point *)
SegMeet(e, f) ==
  LET o1 == Orient(e[1], e[2], f[1])  o2 == Orient(e[1], e[2], f[2])
      o3 == Orient(f[1], f[2], e[1])  o4 == Orient(f[1], f[2], e[2])
  IN \/ (o1 * o2 < 0 /\ o3 * o4 < 0)
     \/ OnSeg(e[1], e[2], f[1]) \/ OnSeg(e[1], e[2], f[2])
     \/ OnSeg(f[1], f[2], e[1]) \/ OnSeg(f[1], f[2], e[2])

(* Crossing point of properly crossing e, f as <<X, Y, D>> meaning (X/D, Y/D), D > 0. *)
CrossPt(e, f) ==
  LET a == e[1] b == e[2] c == f[1] d == f[2]
      den == (b[1] - a[1]) * (d[2] - c[2]) - (b[2] - a[2]) * (d[1] - c[1])
      num == (c[1] - a[1]) * (d[2] - c[2]) - (c[2] - a[2]) * (d[1] - c[1])
      s == Sgn(den)
  IN <<s * (a[1] * den + (b[1] - a[1]) * num), s * (a[2] * den + (b[2] - a[2]) * num), s * den>>

(* SUFFICIENT condition for: the rational point X = (x[1]/x[3], x[2]/x[3]) is at least t away from segment g *)
FarRat(x, g, t) ==
  LET u == g[1] v == g[2] D == x[3]
      cr == (v[1] - u[1]) * (x[2] - D * u[2]) - (v[2] - u[2]) * (x[1] - D * u[1])
  IN \/ Abs(cr) >= t * D * ISqrtHi(Dist2(u, v))
     \/ x[1] <= D * (Min2(u[1], v[1]) - t) \/ x[1] >= D * (Max2(u[1], v[1]) + t)
     \/ x[2] <= D * (Min2(u[2], v[2]) - t) \/ x[2] >= D * (Max2(u[2], v[2]) + t)
(* SUFFICIENT condition for: integer point p at least t away from segment g *)
FarPt(p, g, t) == FarRat(<<p[1], p[2], 1>>, g, t)

(* General position (property C01's input class), conservative: GP(E, t) => every   *)
(* vertex and every pairwise crossing is at least t away from every edge it does   *)
(* not lie on by construction.  E is a sequence of <<a, b, pathIdx, edgeIdx, n>>.   *)
TagEdges(Ps) == Flat([k \in 1..Len(Ps) |->
                  [i \in 1..Len(Ps[k]) |-> <<Ps[k][i], Ps[k][(i % Len(Ps[k])) + 1], k, i, Len(Ps[k])>>]])
AdjOrSame(e, f) == e[3] = f[3] /\ (e[4] = f[4] \/ (e[4] % e[5]) + 1 = f[4] \/ (f[4] % f[5]) + 1 = e[4])
GPVert(E, t) == \A i \in 1..Len(E) : \A j \in 1..Len(E) :
                  \* start vertex of edge i against edge j unless it is an end point of j by construction
                  (E[i][3] = E[j][3] /\ (E[i][4] = E[j][4] \/ (E[j][4] % E[j][5]) + 1 = E[i][4]))
                  \/ FarPt(E[i][1], E[j], t)
GPCross(E, t) == \A i \in 1..Len(E) : \A j \in (i + 1)..Len(E) :
                  ProperCross(E[i], E[j]) =>
                    LET x == CrossPt(E[i], E[j])
                    IN \A k \in 1..Len(E) : (k = i \/ k = j) \/ FarRat(x, E[k], t)
NoShort(E) == \A i \in 1..Len(E) : E[i][1] # E[i][2]
GP(Ps, t) == LET E == TagEdges(Ps) IN NoShort(E) /\ GPVert(E, t) /\ GPCross(E, t)

Rectilinear(Ps) == \A k \in 1..Len(Ps) : \A i \in 1..Len(Ps[k]) :
                     LET a == Ps[k][i] b == Ps[k][(i % Len(Ps[k])) + 1] IN a[1] = b[1] \/ a[2] = b[2]

Area2(P) == IF Len(P) < 3 THEN 0
            ELSE SumF([i \in 1..Len(P) |-> LET a == P[i] b == P[(i % Len(P)) + 1]
                                            IN a[1] * b[2] - b[1] * a[2]], Len(P))
Area2Set(Ps) == SumF([k \in 1..Len(Ps) |-> Area2(Ps[k])], Len(Ps))

BBox(Ps) == LET pts == UNION {{Ps[k][i] : i \in 1..Len(Ps[k])} : k \in 1..Len(Ps)}
                xs == {p[1] : p \in pts}  ys == {p[2] : p \in pts}
                mn(S) == CHOOSE v \in S : \A w \in S : v <= w
                mx(S) == CHOOSE v \in S : \A w \in S : v >= w
            IN IF pts = {} THEN <<0, 0, -1, -1>> ELSE <<mn(xs), mn(ys), mx(xs), mx(ys)>>
=============================================================================
