------------------------------- MODULE GenC11 -------------------------------
(* Generator (C11): the concrete rows replayed by harness/fam_c11.cpp, written as     *)
(* ndjson (one record per line).  The rows refine the abstract domain of ErrTable:    *)
(* ASSUME CoverDom checks that their abstractions are exactly C11ErrTable!Dom (for    *)
(* either build), so the replay exercises every row of the table, and every row is    *)
(* certified to have a judged magnitude class.  No expected outcome is written here:  *)
(* C11Trace recomputes ErrTable[Abs(row)] from what the harness reports it called.    *)
EXTENDS C11Abs, TLC, Json, IOUtils, SequencesExt

RowS(ep, p, q, zs, cnt, ct, fr, b, mg, sh) ==
  [ep |-> ep, p |-> p, q |-> q, zs |-> zs, cnt |-> cnt, ct |-> ct, fr |-> fr, b |-> b,
   m |-> mg[1], x |-> mg[2], sg |-> mg[3], ax |-> mg[4], pos |-> mg[5], sh |-> sh]
Row(ep, p, q, zs, cnt, ct, fr, b, mg) == RowS(ep, p, q, zs, cnt, ct, fr, b, mg, 0)

B(s) == IF s < 0 THEN -s ELSE 0              \* unit exponent so that the unit survives a scale of 10^s
Plain == <<0, 0, 1, 0, 0>>
Sides == {<<sg, ax>> : sg \in {1, -1}, ax \in {0, 1}}
Poss(multi) == IF multi THEN {0, 1} ELSE {0}
(* probe magnitudes for a scale exponent s: <<m, x, sg, ax, pos>> *)
MagIn(s)  == {Plain} \cup {<<9, 17 - s, sd[1], sd[2], 0>> : sd \in Sides}                    \* up to 9*10^17 after scaling
MagBeyond(s, multi) ==
       {<<1, 19 - s, sd[1], sd[2], ps>> : sd \in Sides, ps \in Poss(multi)}                     \* 10^19 after scaling, every side
  \cup {<<1, k - s, 1, 0, 0>> : k \in {60, 300}}
  \cup {<<1, k - s, -1, 1, IF multi THEN 1 ELSE 0>> : k \in {60, 300}}
MagInvalidPrec(s) == {Plain, <<1, 19 - s, 1, 0, 0>>}

MultiEPs == ObjEPs \cup BoolFreeEPs \cup {"Union1D", "InflatePathsD", "InflateOpenD", "RectClipD", "RectClipLinesD"}
(* degenerate shapes (bounding box without area): in range up to 9*10^17 and beyond at 10^19, every side; *)
(* for a segment in a multi-path entry point also behind a second collinear segment (pos = 2)            *)
ShapeMags(s, sh, multi) ==
       {<<9, 17 - s, sd[1], sd[2], 0>> : sd \in Sides}
  \cup {<<1, 19 - s, sd[1], sd[2], ps>> : sd \in Sides, ps \in IF multi /\ sh = 1 THEN {0, 2} ELSE {0}}
  \cup {<<1, 300 - s, 1, 0, 0>>, <<1, 300 - s, -1, 1, 0>>}
ShapePrecs == {-8, 0, 2, 8}

PrecRows ==
  UNION {{Row(ep, p, 0, 0, 0, 2, 1, B(Clamp(p)), mg) :
            mg \in IF PrecOK(p) THEN MagIn(p) \cup MagBeyond(p, ep \in MultiEPs) ELSE MagInvalidPrec(Clamp(p))} :
         ep \in ObjEPs \cup FreeEPs, p \in PrecAll}

TwoScale(ep) == ep \in {"SP2_I_D", "SPS2_I_D", "SP2_I_I", "SPS2_I_I", "SP2_D_I", "SPS2_D_I"}
ZSs(ep) == IF TwoScale(ep) THEN 0..3 ELSE {0, 3}
IntSrc(ep) == ep \in {"SP2_I_I", "SP1_I_I", "SPS2_I_I", "SPS1_I_I", "SP2_D_I", "SP1_D_I", "SPS2_D_I", "SPS1_D_I"}
IsSPS(ep) == ep \in {"SPS2_I_D", "SPS1_I_D", "SPS2_I_I", "SPS1_I_I", "SPS2_D_I", "SPS1_D_I"}
FitsI64(mg) == mg[2] <= 18                   \* m * 10^x with m <= 9, x <= 18 is below 2^63
EcMags(ep, q, zs) ==
  LET all == IF zs # 0 THEN MagInvalidPrec(q)
             ELSE MagIn(q) \cup (IF ep \in EcIntEPs THEN MagBeyond(q, IsSPS(ep)) ELSE {})
  IN {mg \in all : (~IntSrc(ep) \/ FitsI64(mg)) /\ (ep \in EcIntEPs \/ mg[2] + q <= 17)}
EcRows == UNION {{Row(ep, 0, q, zs, 0, 2, 1, B(q), mg) : mg \in IF zs \in ZSs(ep) THEN EcMags(ep, q, zs) ELSE {}} :
                   ep \in EcEPs, q \in {-3, 0, 4}, zs \in 0..3}

ShapeRows ==
  UNION {{RowS(ep, p, 0, 0, 0, 2, 1, B(p), mg, sh) : mg \in ShapeMags(p, sh, ep \in MultiEPs)} :
         ep \in ObjEPs \cup FreeEPs, p \in ShapePrecs, sh \in 1..3}
  \cup UNION {{RowS(ep, 0, q, 0, 0, 2, 1, B(q), mg, sh) :
                 mg \in {g \in ShapeMags(q, sh, IsSPS(ep)) : ~IntSrc(ep) \/ FitsI64(g)}} :
               ep \in EcIntEPs, q \in {0, 4}, sh \in 1..3}

MkRows == {Row(ep, 0, 0, 0, cnt, 2, 1, 0, Plain) : ep \in MkEPs, cnt \in 0..9}

CRows ==
       {Row(ep, 2, 0, 0, 0, ct, fr, 0, Plain) : ep \in CInt64EPs, ct \in ByteAll, fr \in FrFew}
  \cup {Row(ep, 2, 0, 0, 0, ct, fr, 0, Plain) : ep \in CInt64EPs, ct \in CtFew, fr \in ByteAll}
  \cup {Row(ep, p, 0, 0, 0, ct, fr, 0, Plain) : ep \in CIntDEPs, p \in {2, 9}, ct \in ByteAll, fr \in FrFew}
  \cup {Row(ep, p, 0, 0, 0, ct, fr, 0, Plain) : ep \in CIntDEPs, p \in {2, 9}, ct \in CtFew, fr \in ByteAll}
  \cup {Row(ep, p, 0, 0, 0, ct, fr, B(Clamp(p)), Plain) : ep \in CIntDEPs, p \in PrecAll, ct \in CtFew, fr \in FrFew}
  \cup {Row(ep, p, 0, 0, 0, 2, 1, B(Clamp(p)), Plain) : ep \in CPtrEPs, p \in PrecAll}

Rows == PrecRows \cup ShapeRows \cup EcRows \cup MkRows \cup CRows

AllOK == \A r \in Rows : AbsOK(r)
CoverDom == \A exc \in Excs : {Abs(r, exc) : r \in Rows} = {a \in Dom : a.exc = exc}
ASSUME AllOK
ASSUME CoverDom
ASSUME ndJsonSerialize(IOEnv.OUT, SetToSeq(Rows))
ASSUME PrintT(<<"OUT", Cardinality(Rows), Cardinality(Dom)>>)
VARIABLE z
Init == z = 0
Next == z' = z
=============================================================================
