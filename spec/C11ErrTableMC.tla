--------------------------- MODULE C11ErrTableMC ---------------------------
(* Design-level check of the decision table C11ErrTable!ErrTable: TLC visits every    *)
(* abstract call of the table's domain (one initial state per row) and, for each,     *)
(* every observation the entry point's channels can physically produce in that build, *)
(* and checks that the table says what the property statement says:                   *)
(*   NeverSilent   an invalid argument is never answered by an outcome that no        *)
(*                 channel reports ("they are never silently accepted")               *)
(*   ValidNormal   a call without invalid argument must succeed, and success is not   *)
(*                 mistaken for a report                                              *)
(*   Satisfiable   the required outcome can be produced on the channels the entry     *)
(*                 point has in that build (no exception demanded without exceptions, *)
(*                 no error code demanded where there is none ...)                    *)
(*   Exclusive     for an invalid call the required outcome excludes "normal"         *)
(*   CBoundary     at the C boundary the requirement does not depend on the build and  *)
(*                 is "negative"/"null" exactly for out-of-range bytes / precisions   *)
(*   Statement     the clauses of the statement, one by one                           *)
EXTENDS C11ErrTable, TLC

VARIABLE a
Init == a \in Dom
Next == UNCHANGED a

ThCodes == {0, 64, 99}
ObsSpace(c) ==
  {Obs(th, err, ret, n, nul, unt, cr) :
     th  \in IF c.exc = 1 /\ c.ep \notin CEPs THEN ThCodes ELSE {0},
     err \in IF c.ep \in ErrChanEPs THEN {0, 1, 66} ELSE {-1},
     ret \in IF c.ep \in CIntEPs THEN {-4, -1, 0} ELSE {0},
     n   \in 0..1,
     nul \in IF c.ep \in CPtrEPs THEN {0, 1} ELSE {0},
     unt \in IF c.ep \in CIntEPs THEN {0, 1} ELSE {0},
     cr  \in {0, 1}}

Req == Required(a)
NeverSilent == Inv(a) # {} => \A o \in ObsSpace(a) : Exhibits(Req, o, 1, 99) => Reported(a, o)
ValidNormal == Inv(a) = {} => /\ Req = "normal"
                              /\ \A o \in ObsSpace(a) : Exhibits(Req, o, 1, 99) => ~Reported(a, o)
Satisfiable == \E o \in ObsSpace(a) : Exhibits(Req, o, 1, 99)
Exclusive   == Inv(a) # {} => \A o \in ObsSpace(a) : ~(Exhibits(Req, o, 1, 99) /\ Exhibits("normal", o, 1, 99))
CBoundary   == a.ep \in CEPs =>
                 /\ LET other == [a EXCEPT !.exc = 1 - a.exc] IN Required(other) = Req
                 /\ (a.ep \in CIntEPs => (Req = "negative") = (~ClipTypeOK(a.ct) \/ ~FillRuleOK(a.fr) \/ (a.ep \in CIntDEPs /\ ~PrecOK(a.p))))
                 /\ (a.ep \in CPtrEPs => (Req = "null") = ~PrecOK(a.p))
Statement ==
  /\ (TakesPrecision(a.ep) /\ (a.p < -8 \/ a.p > 8)) => Req # "normal"          \* a decimal precision outside +-8
  /\ (ScalesToInt(a.ep) /\ a.mag = "beyond") => Req # "normal"                  \* coordinates that would leave the integer range after scaling
  /\ (TakesScale(a.ep) /\ a.zs) => Req # "normal"                               \* a zero scale
  /\ (TakesCount(a.ep) /\ a.odd) => Req # "normal"                              \* an odd number of coordinates
  /\ (a.exc = 1 /\ a.ep \notin CEPs /\ Req # "normal") => Req = "exception"
  /\ (a.exc = 0 /\ a.ep \notin CEPs /\ Req # "normal") => Req \in {"errcode", "empty"}
TypeOK == Req \in Outcomes /\ a.ep \in AllEPs
=============================================================================
