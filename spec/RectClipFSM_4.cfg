CONSTANTS LatN = 4  RcL = 1  RcT = 1  RcR = 3  RcB = 3  Lens = {4}  Emit = FALSE
SPECIFICATION Spec
INVARIANTS Defined PostOK
CHECK_DEADLOCK FALSE
