CONSTANT LB = 12
CONSTANT BIG = FALSE
SPECIFICATION Spec
CHECK_DEADLOCK FALSE
