----------------------------- MODULE C18Mul128 -----------------------------
(* Design-level model (Layer 2) of the PORTABLE multiplication branch of clipper.core.h *)
(* (used when neither __GNUC__ nor __clang__ provides __int128):                         *)
(*   Multiply(a, b): 2W x 2W -> 4W-bit product from four W x W partial products         *)
(*   ProductsAreEqual / CrossProductSign: |a| |b| vs |c| |d| via Multiply, signs via     *)
(*   TriSign products, comparison hi word first.                                        *)
(* The limb width W is a constant (the code has W = 32); TLC checks, exhaustively for    *)
(* W = 2, 3, 4 (cfg), that                                                               *)
(*   - no intermediate of Multiply exceeds 2W bits (uint64_t never wraps),               *)
(*   - hi * 2^(2W) + lo = a * b for ALL a, b < 2^(2W)            (state = <<a, b>>),     *)
(*   - the sign/compare logic equals Sgn(a*b - c*d) and (a*b = c*d) for ALL              *)
(*     a, b, c, d in -RNG .. RNG, RNG <= 2^(2W) - 1 (so that hi words differ, or are      *)
(*     equal with different lo words, in both sign combinations)  (state = <<a,b,c,d>>).  *)
(* The correspondence with the real code is established separately by C18Trace (the     *)
(* real functions are executed on TLC-generated boundary vectors lifted to W = 32).      *)
EXTENDS Integers, TLC
CONSTANTS W, MODE, RNG         \* MODE = "mul" | "sign"; RNG = operand range of the sign scope
VARIABLES a, b, c, d

M == 2 ^ W                      \* limb modulus
Full == M * M                   \* word modulus (2^(2W))
ASSUME RNG <= Full - 1
LoW(x) == x % M
HiW(x) == x \div M
AbsI(x) == IF x < 0 THEN -x ELSE x
SgnI(x) == IF x > 0 THEN 1 ELSE IF x < 0 THEN -1 ELSE 0

(* the algorithm of Multiply, intermediates included *)
MulSteps(x, y) ==
  LET x1 == LoW(x) * LoW(y)
      x2 == HiW(x) * LoW(y) + HiW(x1)
      x3 == LoW(x) * HiW(y) + LoW(x2)
      lobits == LoW(x3) * M + LoW(x1)            \* lo(x3) << W | lo(x1): disjoint bits
      hibits == HiW(x) * HiW(y) + HiW(x2) + HiW(x3)
  IN [x1 |-> x1, x2 |-> x2, x3 |-> x3, lo |-> lobits, hi |-> hibits]
NoWrap(s) == s.x1 < Full /\ s.x2 < Full /\ s.x3 < Full /\ s.lo < Full /\ s.hi < Full
MulOK(x, y) == LET s == MulSteps(x, y) IN NoWrap(s) /\ s.hi * Full + s.lo = x * y

(* portable ProductsAreEqual / CrossProductSign on already formed differences *)
PortEq(p, q, r, s) ==
  LET ab == MulSteps(AbsI(p), AbsI(q))  cd == MulSteps(AbsI(r), AbsI(s))
  IN ab.lo = cd.lo /\ ab.hi = cd.hi /\ SgnI(p) * SgnI(q) = SgnI(r) * SgnI(s)
PortSign(p, q, r, s) ==
  LET ab == MulSteps(AbsI(p), AbsI(q))  cd == MulSteps(AbsI(r), AbsI(s))
      sab == SgnI(p) * SgnI(q)  scd == SgnI(r) * SgnI(s)
  IN IF sab = scd
     THEN IF ab.hi = cd.hi
          THEN IF ab.lo = cd.lo THEN 0
               ELSE (IF sab > 0 THEN 1 ELSE -1) * (IF ab.lo > cd.lo THEN 1 ELSE -1)
          ELSE (IF sab > 0 THEN 1 ELSE -1) * (IF ab.hi > cd.hi THEN 1 ELSE -1)
     ELSE IF sab > scd THEN 1 ELSE -1

Init == IF MODE = "mul" THEN a \in 0..(Full - 1) /\ b \in 0..(Full - 1) /\ c = 0 /\ d = 0
        ELSE a \in -RNG..RNG /\ b \in -RNG..RNG /\ c \in -RNG..RNG /\ d \in -RNG..RNG
Next == UNCHANGED <<a, b, c, d>>
Spec == Init /\ [][Next]_<<a, b, c, d>>

MulCorrect == MODE = "mul" => MulOK(a, b)
SignCorrect == MODE = "sign" => /\ PortSign(a, b, c, d) = SgnI(a * b - c * d)
                                /\ PortEq(a, b, c, d) = (a * b = c * d)
(* NOTE on the sign branch when sab = scd = 0: both products are 0 and ab = cd = 0, so 0 is returned; *)
(* when sab = scd < 0 the magnitude comparison is reversed - both covered by SignCorrect.             *)
=============================================================================
