CONSTANT N = 2
INIT Init
NEXT Next
