------------------------------ MODULE Clipper2 ------------------------------
(* Layer 1: the abstract Clipper2 object machine (statement of C12).                      *)
(*                                                                                        *)
(* An object's abstract state is a function of what it CURRENTLY holds: the sequence of   *)
(* add calls since the last Clear (order is part of the state - it legitimately decides    *)
(* output order and start vertices) and the current options.  Execute's result may depend *)
(* on nothing else, so a fresh object fed with the abstract state must return the same     *)
(* result bit for bit.  This module is used three ways:                                    *)
(*   - model checking (Clipper2_mc.cfg): the invariants below for all histories <= N       *)
(*   - generation (Emit): every history of length N with the abstract state at each        *)
(*     Execute is printed as JSON and replayed into the real objects by harness/fam_hist   *)
(*   - trace validation (HistTrace.tla re-runs Apply over the logged calls)                *)
(*                                                                                        *)
(* Letters are <<opcode, arg>>.  Kind "c64" (Clipper64 and ClipperD):                      *)
(*   <<1,n>> AddSubject(path set n in {1,2})   <<2,3>> AddOpenSubject(3)   <<3,4>> AddClip(4)*)
(*   <<4,5>> AddReuseableData(container 5, shared with a second clipper; at most once      *)
(*           between Clears)                    <<5,b>> PreserveCollinear(b)                *)
(*   <<6,b>> ReverseSolution(b)  <<7,i>> Execute into Paths with the i-th (clip type, fill  *)
(*   rule) of the run   <<8,i>> Execute into a PolyTree   <<9,0>> Clear                     *)
(* Kind "off" (ClipperOffset): <<1,g>> AddPaths(group g)  <<2,d>> Execute(delta d)          *)
(*   <<3,d>> Execute(delta d, tree)  <<4,0>> Clear  <<5,b>> ReverseSolution(b)              *)
(*   <<6,t>> ArcTolerance(t-th value)                                                       *)
(* Kind "rc" (RectClip64): <<1,p>> Execute(path set p)                                      *)
EXTENDS Integers, Sequences, FiniteSets, TLC, Json

CONSTANTS Kind, N, K, G

VARIABLES st, h
vars == <<st, h>>

InitState(kind) == CASE kind = "c64" -> [adds |-> <<>>, pc |-> 1, rs |-> 0]
                     [] kind = "off" -> [adds |-> <<>>, pc |-> 0, rs |-> 0]
                     [] kind = "rc"  -> [adds |-> <<>>, pc |-> 0, rs |-> 0]

Has(s, op) == \E i \in 1..Len(s.adds) : s.adds[i] = op

Ops(kind, s) ==
  CASE kind = "c64" -> {<<1, 1>>, <<1, 2>>, <<2, 3>>, <<3, 4>>}
                       \cup (IF Has(s, <<4, 5>>) THEN {} ELSE {<<4, 5>>})
                       \cup {<<5, 0>>, <<5, 1>>, <<6, 0>>, <<6, 1>>}
                       \cup {<<7, i>> : i \in 1..K} \cup {<<8, i>> : i \in 1..K} \cup {<<9, 0>>}
    [] kind = "off" -> {<<1, g>> : g \in 1..G} \cup {<<2, d>> : d \in 1..K} \cup {<<3, d>> : d \in 1..K}
                       \cup {<<4, 0>>, <<5, 0>>, <<5, 1>>, <<6, 1>>, <<6, 2>>}
    [] kind = "rc"  -> {<<1, p>> : p \in 1..G}

IsExec(kind, op) == CASE kind = "c64" -> op[1] \in {7, 8}
                      [] kind = "off" -> op[1] \in {2, 3}
                      [] kind = "rc"  -> op[1] = 1
IsAdd(kind, op) == CASE kind = "c64" -> op[1] \in 1..4
                     [] kind = "off" -> op[1] = 1
                     [] kind = "rc"  -> FALSE
IsClear(kind, op) == CASE kind = "c64" -> op[1] = 9 [] kind = "off" -> op[1] = 4 [] kind = "rc" -> FALSE

Apply(kind, s, op) ==
  IF IsAdd(kind, op) THEN [s EXCEPT !.adds = Append(@, op)]
  ELSE IF IsClear(kind, op) THEN [s EXCEPT !.adds = <<>>]
  ELSE IF kind = "c64" /\ op[1] = 5 THEN [s EXCEPT !.pc = op[2]]
  ELSE IF kind = "c64" /\ op[1] = 6 THEN [s EXCEPT !.rs = op[2]]
  ELSE IF kind = "off" /\ op[1] = 5 THEN [s EXCEPT !.rs = op[2]]
  ELSE IF kind = "off" /\ op[1] = 6 THEN [s EXCEPT !.pc = op[2]]      \* ArcTolerance(t): for ClipperOffset the pc field holds the arc-tolerance choice (0 = default)
  ELSE s                                                    \* Execute changes nothing the object holds

(* history entries: <<opcode, arg>> and, for an Execute, the abstract state it must be a function of *)
Entry(kind, s, op) == IF IsExec(kind, op) THEN <<op[1], op[2], s.adds, s.pc, s.rs>> ELSE <<op[1], op[2]>>

Init == st = InitState(Kind) /\ h = <<>>
Step(op) == /\ h' = Append(h, Entry(Kind, st, op))
            /\ st' = Apply(Kind, st, op)
Next == Len(h) < N /\ \E op \in Ops(Kind, st) : Step(op)
Spec == Init /\ [][Next]_vars

(* ---------------- design-level properties ---------------- *)
(* the declarative reading of "what the object currently holds", computed from the history alone *)
LastIdx(P(_)) == LET S == {i \in 1..Len(h) : P(<<h[i][1], h[i][2]>>)} IN IF S = {} THEN 0 ELSE CHOOSE i \in S : \A j \in S : j <= i
HeldAdds == LET c == LastIdx(LAMBDA op : IsClear(Kind, op))
                idx == {i \in (c + 1)..Len(h) : IsAdd(Kind, <<h[i][1], h[i][2]>>)}
                RECURSIVE Coll(_)
                Coll(i) == IF i > Len(h) THEN <<>> ELSE (IF i \in idx THEN <<<<h[i][1], h[i][2]>>>> ELSE <<>>) \o Coll(i + 1)
            IN Coll(1)
LastArg(code, dflt) == LET i == LastIdx(LAMBDA op : op[1] = code) IN IF i = 0 THEN dflt ELSE h[i][2]
StateIsFunctionOfHolding ==
  /\ st.adds = HeldAdds
  /\ (Kind = "c64" => st.pc = LastArg(5, 1) /\ st.rs = LastArg(6, 0))
  /\ (Kind = "off" => st.rs = LastArg(5, 0) /\ st.pc = LastArg(6, 0))
(* an Execute entry records exactly the state before AND after it *)
ExecIsPure == \A i \in 1..Len(h) : Len(h[i]) = 5 =>
                 LET before == IF i = 1 THEN InitState(Kind).adds ELSE h[i][3] IN h[i][3] = before
ReuseOnce == Kind = "c64" => Cardinality({i \in 1..Len(st.adds) : st.adds[i] = <<4, 5>>}) <= 1
TypeOK == /\ st.pc \in {0, 1, 2} /\ st.rs \in {0, 1} /\ Len(h) <= N
          /\ \A i \in 1..Len(st.adds) : IsAdd(Kind, st.adds[i])
ExecPureAction == [][\A op \in Ops(Kind, st) : (IsExec(Kind, op) /\ Step(op)) => st' = st]_vars

(* ---------------- generation ---------------- *)
Emit == (Len(h) = N) => PrintT(<<"OUT", ToJson(h)>>)
=============================================================================
