CONSTANTS MaxP = 2 MaxV = 2 Z = 1 Full = 1
SPECIFICATION Spec
INVARIANTS InvPaths InvPathsAll InvPath
CHECK_DEADLOCK FALSE
