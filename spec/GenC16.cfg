CONSTANT Q = 14
INIT Init
NEXT Next
