CONSTANT N = 3
CONSTANT PLENS = {2}
CONSTANT ANCHOR = TRUE
INIT Init
NEXT Next
