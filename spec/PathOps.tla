------------------------------ MODULE PathOps ------------------------------
(* Layer 0: operations on paths and path sets used by the postconditions:           *)
(* canonical forms, subsequences, well-formedness analysis of closed ring sets.     *)
EXTENDS Geom, SequencesExt

PtLess(p, q) == p[1] < q[1] \/ (p[1] = q[1] /\ p[2] < q[2])
RECURSIVE SeqLess(_, _)
SeqLess(P, Q) == IF P = <<>> THEN Q # <<>>
                 ELSE IF Q = <<>> THEN FALSE
                 ELSE IF Head(P) = Head(Q) THEN SeqLess(Tail(P), Tail(Q))
                 ELSE PtLess(Head(P), Head(Q))
Rot(P, s) == [i \in 1..Len(P) |-> P[((s + i - 2) % Len(P)) + 1]]      \* rotation starting at index s
RevPath(P) == [i \in 1..Len(P) |-> P[Len(P) + 1 - i]]
(* canonical rotation: start at the lexicographically least vertex (first such, ties by whole sequence) *)
Canon(P) == IF Len(P) = 0 THEN P
            ELSE LET cands == {Rot(P, s) : s \in 1..Len(P)}
                 IN CHOOSE c \in cands : \A d \in cands : c = d \/ SeqLess(c, d)
(* a path set as a bag of canonical rings: function ring -> multiplicity *)
CanonBag(Ps) == LET cs == [k \in 1..Len(Ps) |-> Canon(Ps[k])]
                IN [c \in {cs[k] : k \in 1..Len(Ps)} |-> Cardinality({k \in 1..Len(Ps) : cs[k] = c})]
SameRings(Ps, Qs) == CanonBag(Ps) = CanonBag(Qs)
(* open paths: direction may be either way *)
CanonOpen(P) == IF SeqLess(RevPath(P), P) THEN RevPath(P) ELSE P
CanonOpenBag(Ps) == LET cs == [k \in 1..Len(Ps) |-> CanonOpen(Ps[k])]
                    IN [c \in {cs[k] : k \in 1..Len(Ps)} |-> Cardinality({k \in 1..Len(Ps) : cs[k] = c})]

RECURSIVE IsSubseqFrom(_, _, _, _)
IsSubseqFrom(out, in, i, j) ==      \* out[i..] is a subsequence of in[j..]
  IF i > Len(out) THEN TRUE
  ELSE IF j > Len(in) THEN FALSE
  ELSE IF out[i] = in[j] THEN IsSubseqFrom(out, in, i + 1, j + 1)
  ELSE IsSubseqFrom(out, in, i, j + 1)
IsSubseq(out, in) == IsSubseqFrom(out, in, 1, 1)

Nxt(P, i) == P[(i % Len(P)) + 1]
Prv(P, i) == P[((i + Len(P) - 2) % Len(P)) + 1]

(* ---- well-formedness analysis of a set of closed rings (C03 geometric part) ---- *)
HasZeroArea(Ps)  == \E k \in 1..Len(Ps) : Area2(Ps[k]) = 0
HasSpike(Ps)     == \E k \in 1..Len(Ps) : \E i \in 1..Len(Ps[k]) :
                      LET a == Prv(Ps[k], i) b == Ps[k][i] c == Nxt(Ps[k], i)
                      IN Cross(a, b, c) = 0 /\ Dot(b, a, c) > 0
HasCollinear(Ps) == \E k \in 1..Len(Ps) : \E i \in 1..Len(Ps[k]) :
                      Cross(Prv(Ps[k], i), Ps[k][i], Nxt(Ps[k], i)) = 0
HasCrossing(Ps)  == LET E == AllEdges(Ps)
                    IN \E i \in 1..Len(E) : \E j \in (i + 1)..Len(E) : ProperCross(E[i], E[j])
(* two edges that are not neighbours on one ring share a point *)
Touching(Ps) == LET E == TagEdges(Ps)
                IN \E i \in 1..Len(E) : \E j \in (i + 1)..Len(E) :
                     ~AdjOrSame(E[i], E[j]) /\ SegMeet(E[i], E[j])
(* P inside Q, for rings that do not properly cross: test the first vertex or edge midpoint of P *)
(* (doubled coordinates) that is not on Q's boundary; undecidable (all on boundary) counts as not inside *)
InsideRing(P, Q) ==
  LET P2 == ScalePath(P, 2)  EQ == PEdges(ScalePath(Q, 2))
      cands == [i \in 1..(2 * Len(P)) |-> IF i % 2 = 1 THEN P2[(i + 1) \div 2]
                                            ELSE LET a == P[i \div 2] b == Nxt(P, i \div 2) IN <<a[1] + b[1], a[2] + b[2]>>]
      free == {i \in 1..(2 * Len(P)) : ~OnAny(EQ, cands[i])}
  IN free # {} /\ Wind(EQ, cands[CHOOSE i \in free : \A j \in free : i <= j]) # 0
Depth(Ps, k) == Cardinality({j \in 1..Len(Ps) : j # k /\ InsideRing(Ps[k], Ps[j])})
OrientOK(Ps, rs) == \A k \in 1..Len(Ps) :
                      Area2(Ps[k]) = 0 \/ ((Area2(Ps[k]) > 0) = ((Depth(Ps, k) % 2 = 0) = (rs = 0)))
StructOK(Ps) == \A k \in 1..Len(Ps) : Len(Ps[k]) >= 3 /\ \A i \in 1..Len(Ps[k]) : Ps[k][i] # Nxt(Ps[k], i)
=============================================================================
