CONSTANT N = 4
CONSTANT K = 4
INIT Init
NEXT Next
