------------------------------- MODULE ZTrace -------------------------------
(* Layer 3 (C15): USINGZ builds compute the same geometry and account for every Z.             *)
(* Event ZPair = the same operation on the same seeded input run on a plain build (p) and a     *)
(* USINGZ build (z): p.paths / z.paths are the x,y solutions, z.zs the Z of every solution      *)
(* vertex, z.in the labelled input vertices <<x, y, z>>, z.cb the log of the Z callback          *)
(* <<x, y, assigned z>> (the harness's callback assigns a fresh label at every invocation).      *)
(*  geometry : p.paths = z.paths and p.open = z.open, exactly (same order, same vertices)        *)
(*  Z (boolean clipping, inputs TLC-certified in general position):                              *)
(*    with a callback: every solution vertex either coincides with an input vertex and carries   *)
(*      one of the Z given at that location, or some callback invocation was made for its x,y     *)
(*      and assigned its Z                                                                       *)
(*    without a callback: a vertex that coincides with no input vertex carries the default Z 0    *)
EXTENDS Geom, TLC, Json, IOUtils
VARIABLES l
Tr == ndJsonDeserialize(IOEnv.TRACE)
Ev == Tr[l]
Report(prop, clause, d) == PrintT(<<"FAIL", prop, l, clause, d>>)
Chk(c, prop, clause, d) == IF c THEN TRUE ELSE Report(prop, clause, d)

XY(Ps) == [k \in 1..Len(Ps) |-> [i \in 1..Len(Ps[k]) |-> <<Ps[k][i][1], Ps[k][i][2]>>]]
LabelsAt(In, p) == {In[k][i][3] : k \in {k \in 1..Len(In) : \E i \in 1..Len(In[k]) : <<In[k][i][1], In[k][i][2]>> = p}, i \in 1..0} \cup
                   UNION {{In[k][i][3] : i \in {i \in 1..Len(In[k]) : <<In[k][i][1], In[k][i][2]>> = p}} : k \in 1..Len(In)}
Accounted(In, cb, hascb, P, Z) ==
  \A k \in 1..Len(P) : \A i \in 1..Len(P[k]) :
    LET v == P[k][i]  z == Z[k][i]  lab == LabelsAt(In, v)
    IN IF hascb = 1 THEN z \in lab \/ \E j \in 1..Len(cb) : cb[j][1] = v[1] /\ cb[j][2] = v[2] /\ cb[j][3] = z
       ELSE lab # {} \/ z = 0

TPair ==
  /\ Ev.e = "ZPair"
  /\ LET p == Ev.p  z == Ev.z
     IN /\ Chk(p.op = z.op /\ p.par = z.par /\ p.z = 0 /\ z.z = 1, "HARNESS", "pair_mismatch", 0)
        /\ Chk(p.paths = z.paths /\ p.open = z.open, "C15", "usingz_changes_geometry", 0)
        /\ (z.op \in {"bool", "boolD"} /\ GP(XY(z.in), 3)) =>
              /\ Chk(Accounted(z.in, z.cb, z.hascb, z.paths, z.zs), "C15", "z_not_accounted_for", 0)
              /\ Chk(Accounted(z.in, z.cb, z.hascb, z.open, z.ozs), "C15", "open_z_not_accounted_for", 0)
TCrash == Ev.e = "Crash" /\ Report("ANY", "call_did_not_return", Ev.sig)
Init == l = 1
Next == l <= Len(Tr) /\ l' = l + 1 /\ (TPair \/ TCrash)
Spec == Init /\ [][Next]_l
=============================================================================
