------------------------------ MODULE C11Trace ------------------------------
(* Trace specification for C11.  Consumes the ndjson log of harness/fam_c11.cpp        *)
(* (file named by env TRACE):                                                          *)
(*   Hdr     which build produced the log (exc = 1: C++ exceptions enabled); env        *)
(*           WANT_EXC ("0" / "1") is the build the driver asked for                     *)
(*   Row     one call of the error-reporting table: the concrete arguments the harness  *)
(*           used and what it observed.  TLC abstracts the call (C11Abs!Abs), looks up   *)
(*           the required outcome in C11ErrTable!ErrTable and checks the observation.    *)
(*   End     COVER = "1": the rows of this trace abstract to exactly the table's domain  *)
(*           for this build (nothing of the table was skipped)                           *)
(* A failed clause is printed as a FAIL line and the step is taken.  Clause names:       *)
(*   precision_not_reported, range_not_reported, zero_scale_not_reported,                *)
(*   odd_count_not_reported, bad_enum_not_rejected, valid_call_not_normal,               *)
(*   execute_returned_false, and the class of a genuine defect of the unchanged tree     *)
(*   (known_findings.json): noexc_makepath_odd_not_empty, decided by a predicate on the  *)
(*   call.  (Former classes S6 / Minkowski precision / noexc BooleanOp range were         *)
(*   repaired in /repo and are ordinary violations now.)                                  *)
EXTENDS C11Abs, TLC, Json, IOUtils

VARIABLES l, hdr
vars == <<l, hdr>>

Tr == ndJsonDeserialize(IOEnv.TRACE)
Ev == Tr[l]
WantExc == IOEnv.WANT_EXC
Cover == IOEnv.COVER = "1"

Report(prop, clause, d) == PrintT(<<"FAIL", prop, l, clause, d>>)
Chk(c, prop, clause, d) == IF c THEN TRUE ELSE Report(prop, clause, d)
Note(kind, d) == PrintT(<<"NOTE", kind, l, d>>)

RowOf(ev) == [ep |-> ev.ep, p |-> ev.p, q |-> ev.q, zs |-> ev.zs, cnt |-> ev.cnt, ct |-> ev.ct, fr |-> ev.fr,
              b |-> ev.b, m |-> ev.m, x |-> ev.x, sg |-> ev.sg, ax |-> ev.ax, pos |-> ev.pos, sh |-> ev.sh]
ObsOf(ev) == Obs(ev.th, ev.err, ev.ret, ev.n, ev.nul, ev.unt, ev.crash)

Clause(a, req) ==
  LET inv == Inv(a) IN
  IF req = "normal" THEN "valid_call_not_normal"
  ELSE IF a.exc = 0 /\ a.ep \in MkEPs /\ inv = {"nonpair"} THEN "noexc_makepath_odd_not_empty"
  ELSE IF "precision" \in inv THEN "precision_not_reported"
  ELSE IF "range" \in inv THEN "range_not_reported"
  ELSE IF "scale" \in inv THEN "zero_scale_not_reported"
  ELSE IF "nonpair" \in inv THEN "odd_count_not_reported"
  ELSE "bad_enum_not_rejected"

Judge(ev) ==
  LET r == RowOf(ev) IN
  IF ~AbsOK(r) THEN Note("DROP", ev.id)
  ELSE LET a == Abs(r, hdr.exc) IN
       IF a \notin Dom THEN Report("HARNESS", "row_outside_table", ev.id)
       ELSE LET req == ErrTable[a]  o == ObsOf(ev) IN
            /\ Chk(ev.exc = hdr.exc, "HARNESS", "build_changed", ev.id)
            /\ Chk(Exhibits(req, o, NMin(r), NMax(r)), "C11", Clause(a, req), ev.id)
            /\ Chk(ev.ok = 1, "C11", "execute_returned_false", ev.id)

THdr == /\ Ev.e = "Hdr"
        /\ hdr' = [exc |-> Ev.exc]
        /\ Chk(ToString(Ev.exc) = WantExc, "HARNESS", "wrong_build", Ev.exc)

TRow == /\ Ev.e = "Row"
        /\ UNCHANGED hdr
        /\ Judge(Ev)

RowIdx == {i \in 1..Len(Tr) : Tr[i].e = "Row"}
TEnd == /\ Ev.e = "End"
        /\ UNCHANGED hdr
        /\ IF Cover
           THEN LET rows == {RowOf(Tr[i]) : i \in RowIdx}
                    got == {Abs(r, hdr.exc) : r \in {rr \in rows : AbsOK(rr)}}
                    want == {a \in Dom : a.exc = hdr.exc}
                    inval == {a \in got : Required(a) # "normal"}
                IN /\ Chk(got = want, "HARNESS", "table_not_covered", Cardinality(got))
                   /\ Note("STATS", <<Cardinality(rows), Cardinality(got), Cardinality(inval)>>)
           ELSE TRUE

Init == l = 1 /\ hdr = [exc |-> -1]
Next == /\ l <= Len(Tr)
        /\ l' = l + 1
        /\ (THdr \/ TRow \/ TEnd)
Spec == Init /\ [][Next]_vars
=============================================================================
