------------------------------ MODULE C18Defs ------------------------------
(* Declarative definitions for property C18, written from the property statement and  *)
(* the documented interface of clipper.core.h - NOT from the implementation:          *)
(*   Multiply(a, b)            -> the 128-bit product, returned as (lo, hi) 64-bit words *)
(*   ProductsAreEqual(a,b,c,d) -> a * b = c * d                                        *)
(*   CrossProductSign(p1,p2,p3)-> sign of (p2 - p1) x (p3 - p2)                        *)
(*   IsCollinear(p1, p2, p3)   -> that cross product is 0                              *)
(*   PointInPolygon(pt, poly)  -> IsOn = 0 / IsInside = 1 / IsOutside = 2 (enum order) *)
(*                                boundary first, otherwise the even-odd rule          *)
(*   GetSegmentIntersectPt     -> false iff the two lines are parallel (exact          *)
(*                                determinant 0); otherwise ip                         *)
(*   Area(path)                -> shoelace area, positive for counter-clockwise paths  *)
(*                                in Cartesian axes                                    *)
(* Small (lattice) arguments use TLC integers through Geom; wide arguments arrive as   *)
(* split words (C18BigInt wire format) and every product is formed by C18BigInt.       *)
EXTENDS Geom, C18BigInt, TLC

P2(k) == Pow2(k)
I64Min == Neg(P2(63))
I64Max == Sub(P2(63), FromInt(1))
InI64(x) == Le(I64Min, x) /\ Le(x, I64Max)
InU64(x) == Sg(x) >= 0 /\ Lt(x, P2(64))
AbsLe(x, bound) == Le(AbsB(x), bound)

(* ------------------------------------------------------------------ products *)
MulExact(a, b, lo, hi) == Add(lo, Shl(hi, 64)) = Mul(a, b)
ProdEq(a, b, c, d) == Mul(a, b) = Mul(c, d)
ProdCmp(a, b, c, d) == Cmp(Mul(a, b), Mul(c, d))              \* sign of a*b - c*d
(* cross product (p2 - p1) x (p3 - p2) of three points given as big-integer pairs; the four *)
(* differences are returned so that the caller can certify "differences do not overflow"   *)
Diffs(p1, p2, p3) == << Sub(p2[1], p1[1]), Sub(p3[2], p2[2]), Sub(p2[2], p1[2]), Sub(p3[1], p2[1]) >>
CrossSign3(p1, p2, p3) == LET d == Diffs(p1, p2, p3) IN ProdCmp(d[1], d[2], d[3], d[4])

(* ------------------------------------------------------------------ point in polygon (lattice) *)
(* even-odd rule: a point not on the boundary is inside iff a ray from it crosses the boundary an  *)
(* odd number of times; the ray goes to +x and an edge counts when it straddles the ray's line     *)
(* half-open (lower end included, upper end excluded), the usual way to count a vertex once.       *)
RayCross(e, p) == \/ (e[1][2] <= p[2] /\ e[2][2] > p[2]  /\ Cross(e[1], e[2], p) > 0)
                  \/ (e[1][2] > p[2]  /\ e[2][2] <= p[2] /\ Cross(e[1], e[2], p) < 0)
PipOn == 0
PipIn == 1
PipOut == 2
ClassifyE(E, p) == IF OnAny(E, p) THEN PipOn
                   ELSE IF Cardinality({i \in 1..Len(E) : RayCross(E[i], p)}) % 2 = 1 THEN PipIn ELSE PipOut
Classify(P, p) == ClassifyE(PEdges(P), p)
HLine(P) == \A i \in 1..Len(P) : P[i][2] = P[1][2]              \* contained in a single horizontal line
PipClass(P) == Len(P) >= 3 /\ ~HLine(P)

(* same definition when the cross product does not fit TLC integers (|coordinates| <= 2^25) *)
CrossSgnB(a, b, p) == Cmp(Mul(FromInt(b[1] - a[1]), FromInt(p[2] - a[2])), Mul(FromInt(b[2] - a[2]), FromInt(p[1] - a[1])))
OnSegB(a, b, p) == /\ Min2(a[1], b[1]) <= p[1] /\ p[1] <= Max2(a[1], b[1])
                   /\ Min2(a[2], b[2]) <= p[2] /\ p[2] <= Max2(a[2], b[2])
                   /\ CrossSgnB(a, b, p) = 0
RayCrossB(e, p) == \/ (e[1][2] <= p[2] /\ e[2][2] > p[2]  /\ CrossSgnB(e[1], e[2], p) > 0)
                   \/ (e[1][2] > p[2]  /\ e[2][2] <= p[2] /\ CrossSgnB(e[1], e[2], p) < 0)
ClassifyB(P, p) == LET E == PEdges(P)
                   IN IF \E i \in 1..Len(E) : OnSegB(E[i][1], E[i][2], p) THEN PipOn
                      ELSE IF Cardinality({i \in 1..Len(E) : RayCrossB(E[i], p)}) % 2 = 1 THEN PipIn ELSE PipOut

(* ------------------------------------------------------------------ segment intersection *)
(* segment 1 = a..b, segment 2 = c..d (big-integer pairs).  Lines: a + t (b - a), c + u (d - c).   *)
(*   Den = (b - a) x (d - c);  t = Nt / Den, Nt = (c - a) x (d - c);  u = Nu / Den, Nu = (c - a) x (b - a) *)
(* crossing point = (a.x * Den + Nt * dx1) / Den, (a.y * Den + Nt * dy1) / Den.                     *)
SegAnalyse(a, b, c, d) ==
  LET dx1 == Sub(b[1], a[1])  dy1 == Sub(b[2], a[2])
      dx2 == Sub(d[1], c[1])  dy2 == Sub(d[2], c[2])
      ex == Sub(c[1], a[1])   ey == Sub(c[2], a[2])
      p1 == Mul(dx1, dy2)  p2 == Mul(dy1, dx2)
      q1 == Mul(ex, dy2)   q2 == Mul(ey, dx2)
      r1 == Mul(ex, dy1)   r2 == Mul(ey, dx1)
      den == Sub(p1, p2)  nt == Sub(q1, q2)  nu == Sub(r1, r2)
      s == Sg(den)
      aden == AbsB(den)  snt == IF s < 0 THEN Neg(nt) ELSE nt  snu == IF s < 0 THEN Neg(nu) ELSE nu
  IN [ dx1 |-> dx1, dy1 |-> dy1, den |-> den, aden |-> aden,
       parallel |-> s = 0,
       \* the crossing of the lines lies on both (closed) segments
       onboth |-> s # 0 /\ Sg(snt) >= 0 /\ Le(snt, aden) /\ Sg(snu) >= 0 /\ Le(snu, aden),
       \* numerators of the crossing point over the POSITIVE denominator aden
       xn |-> Add(Mul(a[1], aden), Mul(snt, dx1)), yn |-> Add(Mul(a[2], aden), Mul(snt, dy1)),
       \* magnitudes used by the rounding-class predicates
       sd |-> Add(AbsB(p1), AbsB(p2)), sn |-> Add(AbsB(q1), AbsB(q2)),
       dinexact |-> ~Lt(MaxB(AbsB(p1), AbsB(p2)), P2(53)),
       ninexact |-> ~Lt(MaxB(AbsB(q1), AbsB(q2)), P2(53)),
       maxd |-> MaxB(AbsB(dx1), AbsB(dy1)) ]
(* |ip - crossing| per axis, times aden:  <<ex, ey>> ; the property demands both <= aden *)
SegErr(an, ip) == << AbsB(Sub(Mul(ip[1], an.aden), an.xn)), AbsB(Sub(Mul(ip[2], an.aden), an.yn)) >>
SegNear(an, ip) == LET e == SegErr(an, ip) IN Le(e[1], an.aden) /\ Le(e[2], an.aden)
(* ip is within one unit per axis of some point of segment 1 (necessary condition, rounded outward): *)
(* inside the bounding box of a..b widened by 1 and |(b - a) x (ip - a)| <= |dx1| + |dy1|            *)
SegOnFirst(a, b, an, ip) ==
  LET one == FromInt(1)
  IN /\ Le(Sub(MinB(a[1], b[1]), one), ip[1]) /\ Le(ip[1], Add(MaxB(a[1], b[1]), one))
     /\ Le(Sub(MinB(a[2], b[2]), one), ip[2]) /\ Le(ip[2], Add(MaxB(a[2], b[2]), one))
     /\ Le(AbsB(Sub(Mul(an.dx1, Sub(ip[2], a[2])), Mul(an.dy1, Sub(ip[1], a[1])))), Add(AbsB(an.dx1), AbsB(an.dy1)))
(* ---- classes of the two confirmed defects (known findings, see known_findings.json) ----           *)
(* The library evaluates the determinant and the numerators in IEEE double.  A product of two        *)
(* coordinate differences is exact only below 2^53; above, each product carries a relative error     *)
(* up to 2^-53.  (1) two different products may round to the same double: "parallel" is reported     *)
(* although Den # 0 - possible only if |Den| <= 2^-53 (|p1| + |p2|), tested with factor 2 slack.      *)
ParallelRoundingClass(an) == an.dinexact /\ Le(Shl(an.aden, 52), an.sd)
(* (2) the crossing point: first-order forward error of t = Nt / Den is u (sn + sd) / |Den| (+ u for  *)
(* the division) and the point moves by maxd times that, plus the rounding of the final sum; the      *)
(* class is "excess over one unit <= 32 x that bound" (u = 2^-53; measured ratio on 2.8e6 probe       *)
(* cases of both builds: <= 1.15), or a determinant so ill-conditioned that the bound is void.        *)
(* Terms of products that are exact in double (< 2^53) contribute nothing.                            *)
SegRoundingClass(an, ip, maxc) ==
  LET e == SegErr(an, ip)
      exc == MaxB(Sub(e[1], an.aden), Sub(e[2], an.aden))                \* excess * aden  (> 0 on a failure)
      rs == Add(IF an.dinexact THEN an.sd ELSE Zero, IF an.ninexact THEN an.sn ELSE Zero)
  IN \/ Le(Shl(an.aden, 48), rs)
     \/ Le(Shl(exc, 48), Add(Mul(an.maxd, Add(rs, an.aden)), Mul(Add(maxc, an.maxd), an.aden)))

(* ------------------------------------------------------------------ area *)
(* P: sequence of big-integer pairs.  A2 = sum x_i y_j - x_j y_i (j = i + 1 cyclically) = 2 * area.   *)
RECURSIVE SumB(_, _)
SumB(f, n) == IF n = 0 THEN Zero ELSE Add(f[n], SumB(f, n - 1))
Area2B(P) == IF Len(P) < 3 THEN Zero
             ELSE SumB([i \in 1..Len(P) |-> LET a == P[i] b == P[(i % Len(P)) + 1]
                                             IN Sub(Mul(a[1], b[2]), Mul(b[1], a[2]))], Len(P))
(* sum of absolute terms (of the shoelace and of the trapezoid form, whichever is larger per edge):   *)
(* the scale of the double rounding error of any straight-line evaluation                             *)
AreaScaleB(P) == IF Len(P) < 3 THEN Zero
                 ELSE SumB([i \in 1..Len(P) |-> LET a == P[i] b == P[(i % Len(P)) + 1]
                                                 IN MaxB(Add(AbsB(Mul(a[1], b[2])), AbsB(Mul(b[1], a[2]))),
                                                         AbsB(Mul(Add(a[2], b[2]), Sub(a[1], b[1]))))], Len(P))
RECURSIVE MaxAbsB(_, _)
MaxAbsB(P, n) == IF n = 0 THEN Zero ELSE MaxB(MaxB(AbsB(P[n][1]), AbsB(P[n][2])), MaxAbsB(P, n - 1))
(* the double m * 2^ex (m a big integer, ex a TLC integer) against A2 / 2 :                           *)
(*   err2 = |m * 2^(ex+1) - A2|  (scaled by 2^k, k = max(0, -(ex+1)), to stay integral)               *)
AreaErr(m, ex, a2) == LET k == IF ex + 1 < 0 THEN -(ex + 1) ELSE 0
                      IN << AbsB(Sub(Shl(m, ex + 1 + k), Shl(a2, k))), k >>
(* "to double rounding": |Area - A2/2| <= (n + 4) * 2^-53 * scale   (n terms: conversions, products,  *)
(* n - 1 additions, rounded outward).  nterms = number of edges summed.                               *)
AreaWithin(m, ex, a2, scale, nterms) ==
  LET e == AreaErr(m, ex, a2) IN Le(Shl(e[1], 52), Shl(Mul(FromInt(nterms + 4), scale), e[2]))
(* every partial sum of every evaluation order is an integer below 2^53: the result must be exact     *)
AreaExactClass(maxabs, nterms) == Lt(Mul(FromInt(4 * (nterms + 1)), Mul(maxabs, maxabs)), P2(53))
AreaExact(m, ex, a2) == AreaErr(m, ex, a2)[1] = Zero
=============================================================================
