CONSTANT WMax = 6
INIT Init
NEXT Next
INVARIANT Lemmas
