---------------------------- MODULE ContribProofs ----------------------------
(* The ContribTable theorems for ALL integer windings (TLC checks them for |w| <= 4): proved with TLAPS.  *)
(* Optional strengthening reported in the evidence of C01; never part of a verdict.                        *)
EXTENDS ContribTable, TLAPS

THEOREM CntAll == \A wl2 \in Int, dx2 \in Dx, dx \in Dx :
                    NextCnt(CntOf(wl2, dx2), dx2, dx) = CntOf(wl2 + dx2, dx)
<1> SUFFICES ASSUME NEW wl2 \in Int, NEW dx2 \in Dx, NEW dx \in Dx
             PROVE  NextCnt(CntOf(wl2, dx2), dx2, dx) = CntOf(wl2 + dx2, dx)
    OBVIOUS
<1>1 CASE dx2 = 1 /\ dx = 1   BY <1>1, Z3T(60) DEF NextCnt, CntOf, AbsV
<1>2 CASE dx2 = 1 /\ dx = -1  BY <1>2, Z3T(60) DEF NextCnt, CntOf, AbsV
<1>3 CASE dx2 = -1 /\ dx = 1  BY <1>3, Z3T(60) DEF NextCnt, CntOf, AbsV
<1>4 CASE dx2 = -1 /\ dx = -1 BY <1>4, Z3T(60) DEF NextCnt, CntOf, AbsV
<1> QED BY <1>1, <1>2, <1>3, <1>4 DEF Dx

THEOREM ClosedAll == \A fr \in FillRules, ct \in ClipTypes, pt \in {1, 2}, wl \in Int, dx \in Dx, w2 \in Int :
                       ContribClosed(fr, ct, pt, StoredCnt(fr, wl, dx), StoredCnt2(fr, w2)) = Differs(fr, ct, pt, wl, dx, w2)
  BY DEF ContribClosed, StoredCnt, StoredCnt2, Differs, CntOf, AbsV, Dx, InResult, Combine, Filled, FillRules, ClipTypes

THEOREM OpenAll == \A fr \in FillRules, ct \in 1..4, ws \in Int, wc \in Int :
                     ContribOpen(fr, ct, StoredOpen(fr, ws), StoredOpen(fr, wc)) = KeepOpen(ct, fr, ws, wc)
  BY DEF ContribOpen, StoredOpen, KeepOpen, Filled, FillRules
=============================================================================
