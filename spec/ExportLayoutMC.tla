--------------------------- MODULE ExportLayoutMC ---------------------------
(* C17 design-level model checking of the CPaths layout (ExportLayout.tla) in small scope:   *)
(* every path set with <= MaxP paths of <= MaxV vertices is reached by the builder machine    *)
(* below (start a new - possibly empty - path, or append a vertex to the last path) and the   *)
(* layout theorems are invariants: Dec(Enc(ps)) = NonEmpty(ps), first element = length =       *)
(* documented allocation, the parser consumes exactly the stated length.  Cells are plain      *)
(* integers here (K = identity), as in a real int64 array.                                     *)
(*   Z = 0 / 1   : 2 or 3 cells per vertex (USINGZ)                                            *)
(*   Full = 0    : 3 vertices that use every value of the 3-value coordinate domain in x, y, z *)
(*   Full = 1    : all 9 (27) vertices over the 3-value coordinate domain                      *)
EXTENDS Integers, Sequences, FiniteSets, TLC
CONSTANTS MaxP, MaxV, Z, Full
Id(n) == n
DimC == 2 + Z
L == INSTANCE ExportLayout WITH K <- Id, KInv <- Id, Dim <- DimC
Coord == 0..2
Verts == IF Full = 1 THEN (IF Z = 1 THEN {<<x, y, z>> : x \in Coord, y \in Coord, z \in Coord} ELSE {<<x, y>> : x \in Coord, y \in Coord})
         ELSE (IF Z = 1 THEN {<<0, 1, 2>>, <<1, 2, 0>>, <<2, 0, 1>>} ELSE {<<0, 1>>, <<1, 2>>, <<2, 0>>})
VARIABLE ps
Init == ps = <<>>
Next == \/ Len(ps) < MaxP /\ ps' = Append(ps, <<>>)
        \/ Len(ps) > 0 /\ Len(ps[Len(ps)]) < MaxV /\ \E v \in Verts : ps' = [ps EXCEPT ![Len(ps)] = Append(@, v)]
Spec == Init /\ [][Next]_ps
InvPaths == L!ThmPaths(ps)
InvPathsAll == L!ThmPathsAll(ps)
InvPath == \A k \in 1..Len(ps) : L!ThmPath(ps[k])
(* two path sets with the same non-empty paths have the same export; different ones differ (follows from InvPaths, stated for the reader) *)
=============================================================================
