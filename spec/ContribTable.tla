---------------------------- MODULE ContribTable ----------------------------
(* Layer 2 (implementation-shaped, C01): the sweep's per-edge winding bookkeeping and the     *)
(* decision tables that tell whether an edge contributes to the solution, transcribed from    *)
(* clipper.engine.cpp (SetWindCountForClosedPathEdge, IsContributingClosed,                   *)
(* IsContributingOpen) and checked by TLC against the Layer-0 semantics (Fill.tla):           *)
(*   CntTheorem   the incremental rule that derives an edge's wind_cnt from its left          *)
(*                neighbour of the same type yields "the winding of larger magnitude of the    *)
(*                two regions the edge separates"                                             *)
(*   ClosedTheorem an edge is contributing  <=>  InResult differs across it                   *)
(*   OpenTheorem  an open-path edge is contributing <=> KeepOpen at its position              *)
(* Conventions (engine): the region to the right of an edge has the winding of the region to   *)
(* its left plus wind_dx; wind_cnt2 is the other type's winding at the edge (under EvenOdd:    *)
(* a parity).  Every row is realised observably by the winding-ladder family (C01).            *)
EXTENDS Fill, FiniteSets, TLC
CONSTANT WMax
W == (-WMax)..WMax
Dx == {-1, 1}
AbsV(x) == IF x < 0 THEN -x ELSE x

(* wind_cnt of an edge whose left region has winding wl and whose direction is dx *)
CntOf(wl, dx) == IF AbsV(wl + dx) > AbsV(wl) THEN wl + dx ELSE wl

(* ---- SetWindCountForClosedPathEdge, NonZero / Positive / Negative branch ---- *)
NextCnt(c2, dx2, dx) ==
  IF c2 * dx2 < 0
  THEN IF AbsV(c2) > 1 THEN (IF dx2 * dx < 0 THEN c2 ELSE c2 + dx) ELSE dx
  ELSE IF dx2 * dx < 0 THEN c2 ELSE c2 + dx
CntTheorem == \A wl2 \in W, dx2 \in Dx, dx \in Dx :
                NextCnt(CntOf(wl2, dx2), dx2, dx) = CntOf(wl2 + dx2, dx)
FirstCntTheorem == \A dx \in Dx : CntOf(0, dx) = dx            \* no same-type edge to the left: wind_cnt = wind_dx

(* ---- IsContributingClosed(fill rule, clip type, path type, wind_cnt, wind_cnt2) ---- *)
(* path type: 1 subject, 2 clip *)
ContribClosed(fr, ct, pt, c, c2) ==
  LET pass1 == CASE fr = 0 -> TRUE [] fr = 1 -> AbsV(c) = 1 [] fr = 2 -> c = 1 [] fr = 3 -> c = -1
      t2(pos, neg, dflt) == CASE fr = 2 -> pos [] fr = 3 -> neg [] OTHER -> dflt
  IN pass1 /\
     CASE ct = 0 -> FALSE
       [] ct = 1 -> t2(c2 > 0, c2 < 0, c2 # 0)
       [] ct = 2 -> t2(c2 <= 0, c2 >= 0, c2 = 0)
       [] ct = 3 -> LET r == t2(c2 <= 0, c2 >= 0, c2 = 0) IN IF pt = 1 THEN r ELSE ~r
       [] ct = 4 -> TRUE
(* what the engine stores for the given true windings *)
StoredCnt(fr, wl, dx) == IF fr = 0 THEN dx ELSE CntOf(wl, dx)
StoredCnt2(fr, w2) == IF fr = 0 THEN (IF w2 % 2 = 0 THEN 0 ELSE 1) ELSE w2
Differs(fr, ct, pt, wl, dx, w2) == IF pt = 1 THEN InResult(ct, fr, wl, w2) # InResult(ct, fr, wl + dx, w2)
                                            ELSE InResult(ct, fr, w2, wl) # InResult(ct, fr, w2, wl + dx)
ClosedTheorem == \A fr \in FillRules, ct \in ClipTypes, pt \in {1, 2}, wl \in W, dx \in Dx, w2 \in W :
                   ContribClosed(fr, ct, pt, StoredCnt(fr, wl, dx), StoredCnt2(fr, w2)) = Differs(fr, ct, pt, wl, dx, w2)

(* ---- IsContributingOpen: wind_cnt = closed-subject winding, wind_cnt2 = clip winding at the open edge ---- *)
ContribOpen(fr, ct, c, c2) ==
  LET inClip == CASE fr = 2 -> c2 > 0 [] fr = 3 -> c2 < 0 [] OTHER -> c2 # 0
      inSubj == CASE fr = 2 -> c > 0 [] fr = 3 -> c < 0 [] OTHER -> c # 0
  IN CASE ct = 1 -> inClip [] ct = 2 -> ~inSubj /\ ~inClip [] OTHER -> ~inClip
StoredOpen(fr, w) == IF fr = 0 THEN (IF w % 2 = 0 THEN 0 ELSE 1) ELSE w
OpenTheorem == \A fr \in FillRules, ct \in 1..4, ws \in W, wc \in W :
                 ContribOpen(fr, ct, StoredOpen(fr, ws), StoredOpen(fr, wc)) = KeepOpen(ct, fr, ws, wc)

VARIABLE z
Init == z = 0
Next == z' = z
Theorems == CntTheorem /\ FirstCntTheorem /\ ClosedTheorem /\ OpenTheorem
(* rows of the closed table (for evidence): number of distinct (fr, ct, pt, stored cnt, stored cnt2) the theorem ranges over *)
Rows == Cardinality({<<fr, ct, pt, StoredCnt(fr, wl, dx), StoredCnt2(fr, w2)>> : fr \in FillRules, ct \in ClipTypes, pt \in {1, 2}, wl \in W, dx \in Dx, w2 \in W})
ASSUME PrintT(<<"OUT", "contrib_table_rows", Rows>>)
=============================================================================
