----------------------------- MODULE C20Trace -----------------------------
(* Layer 3: trace specification for the path utilities (C20).  Consumes an ndjson     *)
(* log written by harness/fam_c20.cpp (file named by env TRACE):                       *)
(*   Path - one input path (lattice level, with the embedding the harness applied)    *)
(*          and every utility call made on it with what the library returned          *)
(*   Ell  - one Ellipse call (centre, doubled radii, requested steps) and its result  *)
(* Every clause is evaluated here from spec/PathUtils.tla; the step is always taken    *)
(* and each failed clause is printed once per path as                                  *)
(*   <<"FAIL", "C20", line, clause, <<first failing call, number of failing calls>>>>  *)
(* Clause names that are class predicates of recorded findings (decided here, on the   *)
(* call's arguments): rdp_first_eq_last (S3), simplify_fewer_than_4_points (S10),      *)
(* trim_open_zero_length_emptied.                                                      *)
EXTENDS PathUtils, TLC, Json, IOUtils

VARIABLES l, st
vars == <<l, st>>

Tr == ndJsonDeserialize(IOEnv.TRACE)
Ev == Tr[l]

Report(clause, d) == PrintT(<<"FAIL", "C20", l, clause, d>>)

OffLat(x, name) == IF x.lat = 1 THEN {} ELSE {name}

CallFails(p, x) ==
  CASE x.f = "TC"  -> IF x.lat = 1 /\ x.lat2 = 1 THEN TrimFails(p, x.c = 1, x.out, x.out2) ELSE {"trim_not_subsequence"}
    [] x.f = "SP"  -> IF x.lat = 1 THEN SimpFails(p, x.c = 1, x.out, x.en, x.ed) ELSE {"simplify_not_subsequence"}
    [] x.f = "RDP" -> IF x.lat = 1 THEN RdpFails(p, x.out, x.en, x.ed) ELSE {"rdp_not_subsequence"}
    [] x.f = "SD"  -> IF x.lat = 1 /\ x.out = StripDup(p, x.c = 1) THEN {} ELSE {"stripduplicates_equation"}
    [] x.f = "SNE" -> IF x.lat = 1 /\ x.out = StripNear(p, x.c = 1, x.mn, x.md) THEN {} ELSE {"stripnearequal_equation"}
    [] x.f = "TR"  -> IF x.lat = 1 /\ x.out = Translate(p, x.dx, x.dy) THEN {} ELSE {"translatepath_equation"}
    [] x.f = "GB"  -> IF (IF Len(p) = 0 THEN x.inv = 1 ELSE x.inv = 0 /\ x.lat = 1 /\ x.bb = Bounds(p)) THEN {} ELSE {"getbounds_equation"}
    [] x.f = "LEN" -> IF x.lo <= LenHi(p, x.c = 1, x.s) /\ x.hi >= LenLo(p, x.c = 1, x.s) THEN {} ELSE {"length_equation"}
    [] OTHER -> {"unknown_call"}

(* counters kept along the trace and printed with its last event (vacuity evidence): calls judged, TrimCollinear  *)
(* calls whose input is in the clean class, RDP / SimplifyPath calls that removed something, Ellipse calls          *)
Cnt(p, calls) ==
  LET n(S) == Cardinality(S)  I == 1..Len(calls)
  IN <<n(I),
       n({i \in I : calls[i].f = "TC" /\ Clean(p, calls[i].c = 1)}),
       n({i \in I : calls[i].f = "RDP" /\ calls[i].out # p}),
       n({i \in I : calls[i].f = "SP" /\ calls[i].out # p}), 0>>
Add5(a, b) == [i \in 1..5 |-> a[i] + b[i]]
AtEnd(s) == IF l = Len(Tr) THEN PrintT(<<"NOTE", "STATS", l, s>>) ELSE TRUE

TPath ==
  /\ Ev.e = "Path"
  /\ st' = Add5(st, Cnt(Ev.p, Ev.calls))
  /\ AtEnd(st')
  /\ LET p == Ev.p
         F == [i \in 1..Len(Ev.calls) |-> CallFails(p, Ev.calls[i])]
         cl == UNION {F[i] : i \in 1..Len(F)}
     IN \A c \in cl : LET S == {i \in 1..Len(F) : c \in F[i]}
                      IN Report(c, <<CHOOSE i \in S : \A j \in S : i <= j, Cardinality(S)>>)

(* Ellipse(centre, a2/2, b2/2, steps) returned n vertices p *)
EllFails(ev) ==
  LET c == ev.c  a2 == ev.a2  b2e == IF ev.b2 <= 0 THEN ev.a2 ELSE ev.b2  P == ev.p
  IN IF a2 <= 0 THEN (IF Len(P) = 0 THEN {} ELSE {"ellipse_nonpositive_radius_not_empty"})
     ELSE (IF Len(P) = ev.n /\ (IF ev.steps > 2 THEN ev.n = ev.steps ELSE EllDefaultCount(ev.n, a2 + b2e)) THEN {} ELSE {"ellipse_vertex_count"})
          \cup (IF Len(P) >= 1 /\ P[1][2] = c[2] /\ Abs(2 * (P[1][1] - c[1]) - a2) <= 1 THEN {} ELSE {"ellipse_first_vertex"})
          \cup (IF \A i \in 1..Len(P) : EllBand(P[i], c, a2, b2e) THEN {} ELSE {"ellipse_vertex_off_curve"})
          \* counter-clockwise once around the centre (rounding moves a vertex by < 1 and every chord stays >= min(rx, ry) / 2 >= 1 away)
          \cup (IF (Len(P) >= 3 /\ a2 >= 4 /\ b2e >= 4) => WindPath(ScalePath(P, 2), ScaleP(c, 2)) = 1 THEN {} ELSE {"ellipse_not_once_around"})

TEll ==
  /\ Ev.e = "Ell"
  /\ st' = Add5(st, <<0, 0, 0, 0, 1>>)
  /\ AtEnd(st')
  /\ \A c \in EllFails(Ev) : Report(c, <<0, 1>>)

Init == l = 1 /\ st = <<0, 0, 0, 0, 0>>
Next == /\ l <= Len(Tr)
        /\ l' = l + 1
        /\ (TPath \/ TEll)
Spec == Init /\ [][Next]_vars
=============================================================================
