----------------------------- MODULE HistTrace -----------------------------
(* Layer 3 (C12): validates the harness's replay of TLC-enumerated histories.  Re-runs the    *)
(* abstract machine Clipper2!Apply over the logged calls; at every Execute the fresh object   *)
(* must have been fed exactly the abstract state, and its result must have been bit-identical *)
(* (eq = 1).  For ClipperOffset additionally: when the groups held are pairwise distinct (and  *)
(* by construction far apart), the result is the bag union of each unit offset alone.          *)
EXTENDS Geom, TLC, Json, IOUtils, SequencesExt

VARIABLES l, units, rings
vars == <<l, units, rings>>
Tr == ndJsonDeserialize(IOEnv.TRACE)
Ev == Tr[l]
M == INSTANCE Clipper2 WITH Kind <- "c64", N <- 0, K <- 0, G <- 0, st <- 0, h <- <<>>

Report(prop, clause, d) == PrintT(<<"FAIL", prop, l, clause, d>>)
Chk(c, prop, clause, d) == IF c THEN TRUE ELSE Report(prop, clause, d)
KindOf(k) == IF k = "cd" THEN "c64" ELSE IF k = "offm" THEN "off" ELSE k     \* "offm": offset world mixing orientations, judged against the fresh object only

RECURSIVE Run(_, _, _)
Run(kind, steps, i) == IF i = 0 THEN M!InitState(kind) ELSE M!Apply(kind, Run(kind, steps, i - 1), steps[i])

NoDup(s) == \A i \in 1..Len(s) : \A j \in (i + 1)..Len(s) : s[i] # s[j]
Sorted(s) == SortSeq(s, LAMBDA a, b : a < b)
RECURSIVE FlatU(_, _, _, _)
FlatU(adds, d, rs, i) == IF i > Len(adds) THEN <<>> ELSE units[<<adds[i][2], d, rs[1], rs[2]>>].ids \o FlatU(adds, d, rs, i + 1)   \* rs = <<ReverseSolution, arc tolerance choice>>

(* class predicate of known finding S11: the differing rings pair up so that every vertex of each lies     *)
(* within 2 units of the other's boundary (an intersection point of two nearly parallel offset edges is     *)
(* rounded differently, or kept as an extra nearly collinear vertex, in the clean-up Union when distant     *)
(* paths contribute other scanbeam boundaries; the region changes by less than 2 units)                     *)
NearRing(p, Q) == \E i \in 1..Len(Q) : NearSeg(p, Q[i], Q[(i % Len(Q)) + 1], 2)
RingNear(P, Q) == (\A i \in 1..Len(P) : NearRing(P[i], Q)) /\ (\A i \in 1..Len(Q) : NearRing(Q[i], P))
OnlyRounding(got, want) ==
  LET A == ToSet(got) \ ToSet(want)  B == ToSet(want) \ ToSet(got)
  IN /\ Cardinality(A) = Cardinality(B)
     /\ \A a \in A : \E b \in B : RingNear(rings[a], rings[b])
     /\ \A b \in B : \E a \in A : RingNear(rings[a], rings[b])

(* classes of confirmed defects (known_findings.json), decided here on the failing call: *)
(*  S2: a Joined group holding a 2-point path followed by a longer path                  *)
(*  S5: a Polygon group without area precedes other groups and delta < 0                 *)
ObsOK(kind, steps, o, f, alone) ==
  LET i == o[1]  s == Run(kind, steps, i - 1)
  IN /\ Chk(M!IsExec(kind, steps[i]), "HARNESS", "obs_not_an_execute", i)
     /\ Chk(kind = "rc" \/ (f[1] = s.adds /\ f[2] = s.pc /\ f[3] = s.rs), "HARNESS", "fresh_object_not_fed_the_abstract_state", i)
     /\ Chk(o[3] = 1, "C11", "execute_returned_false", i)
     /\ Chk(o[2] = 1, "C12", "result_differs_from_fresh_object", i)
     /\ (kind = "off" /\ alone /\ NoDup(s.adds) /\ s.adds # <<>>) =>
          LET want == Sorted(FlatU(s.adds, steps[i][2], <<s.rs, s.pc>>, 1))
          IN IF o[5] = want THEN TRUE
             ELSE IF OnlyRounding(o[5], want) THEN Report("C12", "offset_alone_differs_by_rounding", i)
             ELSE Report("C12", "offset_units_not_offset_as_alone", i)

THist == /\ Ev.e = "Hist"
         /\ UNCHANGED <<units, rings>>
         /\ LET kind == KindOf(Ev.kind)
                nex == Cardinality({i \in 1..Len(Ev.steps) : M!IsExec(kind, Ev.steps[i])})
            IN /\ Chk(Len(Ev.obs) = nex /\ Len(Ev.fresh) = nex, "HARNESS", "missing_observation", nex)
               /\ \A j \in 1..Len(Ev.obs) : ObsOK(kind, Ev.steps, Ev.obs[j], Ev.fresh[j], Ev.kind = "off")
TUnit == /\ Ev.e = "OffUnit"
         /\ units' = (<<Ev.g, Ev.d, Ev.rs, Ev.at>> :> [ids |-> Ev.ids, et |-> Ev.et, np |-> Ev.npaths]) @@ units
         /\ UNCHANGED rings
TRing == Ev.e = "Ring" /\ rings' = (Ev.id :> Ev.p) @@ rings /\ UNCHANGED units
TWorld == Ev.e = "World" /\ UNCHANGED <<units, rings>>

(* a history whose replay killed the child process: no call of the abstract machine explains that *)
TCrash == Ev.e = "Crash" /\ UNCHANGED <<units, rings>> /\ Report("C12", "history_replay_did_not_return", Ev.sig)
Init == l = 1 /\ units = <<>> /\ rings = <<>>
Next == l <= Len(Tr) /\ l' = l + 1 /\ (THist \/ TUnit \/ TWorld \/ TRing \/ TCrash)
Spec == Init /\ [][Next]_vars
=============================================================================
