---------------------------- MODULE C11ExecTrace ----------------------------
(* Trace specification for C11, success part through the C export path.  Consumes the  *)
(* ndjson log of `vh c11exec` (file named by env TRACE):                                *)
(*   Hdr     which build produced the log; env WANT_EXC is the build the driver asked for*)
(*   CCase   one input: its magnitude as the bit length mb of the largest |coordinate|   *)
(*   CExecs  the calls made on it, each <<entry, ct, fr, ret, nsol, nopen>>:             *)
(*           entry 1 BooleanOp64, 2 BooleanOp_PolyTree64, 3 BooleanOpD, 4 BooleanOp_     *)
(*           PolyTreeD (ret = the C return value), 0 Clipper64::Execute (ret = 0 iff it   *)
(*           returned true); nsol / nopen = number of closed paths (top-level tree nodes) *)
(*           / open paths returned; ret = -99: the call never returned (the process died  *)
(*           in it; the harness logs only that call for the case and is restarted)        *)
(* Statement: "Execute returns true (the C export returns 0) for every set of paths and   *)
(* every clip type and fill rule; ClipType::NoClip yields empty solutions."  Input class  *)
(* (as C10): |coordinates| < 2^62, i.e. mb <= 62; anything else is dropped, not judged.   *)
EXTENDS Integers, Sequences, TLC, Json, IOUtils

VARIABLES l, cur
vars == <<l, cur>>

Tr == ndJsonDeserialize(IOEnv.TRACE)
Ev == Tr[l]
WantExc == IOEnv.WANT_EXC

Report(prop, clause, d) == PrintT(<<"FAIL", prop, l, clause, d>>)
Chk(c, prop, clause, d) == IF c THEN TRUE ELSE Report(prop, clause, d)
Note(kind, d) == PrintT(<<"NOTE", kind, l, d>>)

THdr == /\ Ev.e = "Hdr"
        /\ UNCHANGED cur
        /\ Chk(ToString(Ev.exc) = WantExc, "HARNESS", "wrong_build", Ev.exc)

TCCase == /\ Ev.e = "CCase"
          /\ cur' = [id |-> Ev.id, judged |-> Ev.mb <= 62]
          /\ IF Ev.mb <= 62 THEN TRUE ELSE Note("DROP", Ev.id)
TCExecs == /\ Ev.e = "CExecs"
           /\ UNCHANGED cur
           /\ Chk(Ev.id = cur.id, "HARNESS", "case_mismatch", Ev.id)
           /\ cur.judged =>
                \A i \in 1..Len(Ev.x) :
                  LET x == Ev.x[i]
                      d == Ev.id * 1000 + i     \* detail: case id and index of the call (one short integer: TLC wraps long tuples)
                  IN
                  /\ Chk(x[2] \in 0..4 /\ x[3] \in 0..3, "HARNESS", "bad_enum_in_success_family", Ev.id)
                  /\ IF x[4] = -99                                     \* the process died inside the call
                     THEN Report("C11", IF x[1] \in {2, 4} THEN "tree_execute_did_not_return"    \* Execute into a PolyTree (was S13, repaired in /repo)
                                        ELSE "execute_did_not_return", d)
                     ELSE Chk(x[4] = 0, "C11", "execute_returned_false", d)
                  /\ Chk(x[2] # 0 \/ (x[5] = 0 /\ x[6] = 0), "C11", "noclip_not_empty", d)
TEnd == Ev.e = "End" /\ UNCHANGED cur

Init == l = 1 /\ cur = [id |-> 0, judged |-> FALSE]
Next == /\ l <= Len(Tr)
        /\ l' = l + 1
        /\ (THdr \/ TCCase \/ TCExecs \/ TEnd)
Spec == Init /\ [][Next]_vars
=============================================================================
