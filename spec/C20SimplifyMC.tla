--------------------------- MODULE C20SimplifyMC ---------------------------
(* Design-level model checking (Layer 2, C20): the SimplifyPath loop as a state machine. *)
(* This module IS shaped after the implementation (clipper.h SimplifyPath / GetNext /     *)
(* GetPrior: cyclic index walk over a removal-flag vector, "remove the smaller of two     *)
(* adjacent distances", re-measure the two vertices around the gap) and is used only to   *)
(* examine that DESIGN against the contract of PathUtils.tla - it never judges the        *)
(* library.  One behaviour per (path with MinLen..K vertices on the N x N grid, closed /  *)
(* open, epsilon); each step is one iteration of the for(;;) loop; when the loop exits    *)
(* the SimplifyPath contract must hold, every index walk must be well defined (a CHOOSE   *)
(* over an empty set is a TLC error) and the loop must exit within Len(p) iterations.     *)
(* Indices are 0-based as in the code: vertex i is p[i + 1].  Squared distances are       *)
(* rationals <<num, den>>; <<1, 0>> stands for MAX_DBL.                                   *)
EXTENDS PathUtils, TLC
CONSTANTS N, K, MinLen
EPS == {<<0, 1>>, <<1, 2>>, <<1, 1>>, <<2, 1>>}
VARIABLES p, closed, eps, flags, dist, curr, pc, iters
vars == <<p, closed, eps, flags, dist, curr, pc, iters>>

Pts == (0..(N - 1)) \X (0..(N - 1))
Paths == UNION {[1..k -> Pts] : k \in MinLen..K}
High == Len(p) - 1
V(i) == p[i + 1]
MinS(S) == CHOOSE x \in S : \A y \in S : x <= y
MaxS(S) == CHOOSE x \in S : \A y \in S : x >= y

INF == <<1, 0>>
Perp(pt, l1, l2) == IF l1 = l2 THEN <<0, 1>> ELSE <<Cross(l1, l2, pt) * Cross(l1, l2, pt), Dist2(l1, l2)>>
GtEps(d) == d = INF \/ d[1] * eps[2] * eps[2] > eps[1] * eps[1] * d[2]            \* d > epsSqr
Lt(a, b) == a # INF /\ (b = INF \/ a[1] * b[2] < b[1] * a[2])

GetNext(cur, fl) == LET up == {i \in (cur + 1)..High : i \notin fl}
                    IN IF up # {} THEN MinS(up) ELSE MinS({i \in 0..High : i \notin fl})
GetPrior(cur, fl) == LET c0 == IF cur = 0 THEN High ELSE cur - 1
                         dn == {i \in 0..c0 : i \notin fl}
                     IN IF dn # {} THEN MaxS(dn) ELSE MaxS({i \in 0..High : i \notin fl})

InitDist == [i \in 0..High |->
               IF i = 0 THEN (IF closed THEN Perp(V(0), V(High), V(1)) ELSE INF)
               ELSE IF i = High THEN (IF closed THEN Perp(V(High), V(0), V(High - 1)) ELSE INF)
               ELSE Perp(V(i), V(i - 1), V(i + 1))]

Init == /\ p \in Paths /\ closed \in BOOLEAN /\ eps \in EPS
        /\ flags = {} /\ curr = 0 /\ iters = 0
        /\ pc = IF Len(p) < 4 THEN "done" ELSE "loop"
        /\ dist = IF Len(p) < 4 THEN <<>> ELSE InitDist

(* do curr = GetNext(curr) while (curr != start && distSqr[curr] > epsSqr) *)
RECURSIVE Scan(_, _)
Scan(cu, start) == LET n == GetNext(cu, flags) IN IF n = start \/ ~GtEps(dist[n]) THEN n ELSE Scan(n, start)

Step ==
  /\ pc = "loop"
  /\ iters' = iters + 1
  /\ LET c1 == IF GtEps(dist[curr]) THEN Scan(curr, curr) ELSE curr
     IN IF GtEps(dist[curr]) /\ c1 = curr
        THEN pc' = "done" /\ UNCHANGED <<flags, dist, curr>>
        ELSE LET prior == GetPrior(c1, flags)  next == GetNext(c1, flags)
             IN IF next = prior
                THEN pc' = "done" /\ UNCHANGED <<flags, dist, curr>>
                ELSE LET swap == Lt(dist[next], dist[c1])
                         prior2 == IF swap THEN prior ELSE GetPrior(prior, flags)
                         pr     == IF swap THEN c1 ELSE prior
                         rem    == IF swap THEN next ELSE c1
                         nx0    == IF swap THEN GetNext(next, flags) ELSE next
                         fl2    == flags \cup {rem}
                         cu     == nx0
                         nx     == GetNext(nx0, fl2)
                         d1 == IF closed \/ (cu # High /\ cu # 0) THEN [dist EXCEPT ![cu] = Perp(V(cu), V(pr), V(nx))] ELSE dist
                         d2 == IF closed \/ (pr # 0 /\ pr # High) THEN [d1 EXCEPT ![pr] = Perp(V(pr), V(prior2), V(cu))] ELSE d1
                     IN /\ flags' = fl2 /\ curr' = cu /\ dist' = d2 /\ pc' = "loop"
  /\ UNCHANGED <<p, closed, eps>>

Done == pc = "done" /\ UNCHANGED vars
Next == Step \/ Done
Spec == Init /\ [][Next]_vars

Result == Pick(p, LAMBDA i : (i - 1) \notin flags)
(* the contract at loop exit; for fewer than 4 points the design returns the input (class S10), judged separately *)
PostOK == pc = "done" => \/ Len(p) < 4
                         \/ SimpFails(p, closed, Result, eps[1], eps[2]) = {}
Bounded == iters <= Len(p)
(* the distances the loop keeps are those of the current neighbours (no stale entry on a live vertex) *)
DistFresh == pc = "loop" =>
  \A i \in 0..High : i \in flags \/ (~closed /\ (i = 0 \/ i = High)) \/
     dist[i] = Perp(V(i), V(GetPrior(i, flags)), V(GetNext(i, flags)))
(* what the short-path shortcut costs: counted, not asserted (S10) *)
ShortOK == (pc = "done" /\ Len(p) < 4) => SimpFails(p, closed, p, eps[1], eps[2]) \subseteq {"simplify_fewer_than_4_points"}
=============================================================================
