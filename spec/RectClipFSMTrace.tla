-------------------------- MODULE RectClipFSMTrace --------------------------
(* Conformance of the design model RectClipFSM.tla with the code: every terminated behaviour   *)
(* of the automaton (path P, emitted ring) enumerated by TLC is replayed into the library       *)
(* (harness/fam_c08.cpp, subcommand rcfsm) and the raw result is compared with the ring:        *)
(*   fsm_vertex   every vertex the library returns is a vertex of the model's ring (within 1    *)
(*                unit per axis: the model intersects exactly, the library truncates)           *)
(*   fsm_winding  at every grid point strictly inside the rectangle and farther than 2 units    *)
(*                from the ring, the result has EXACTLY the ring's winding number (CheckEdges / *)
(*                TidyEdges / GetPath only drop collinear vertices and split or rejoin along    *)
(*                the sides)                                                                    *)
(* A failure here is a divergence between model and code (DESIGN.md 3.6 item 2): it is recorded *)
(* in the evidence, it is not a verdict on C08 - RectClipTrace decides that.                    *)
EXTENDS PathOps, TLC, Json, IOUtils

VARIABLES l, rect
vars == <<l, rect>>
Tr == ndJsonDeserialize(IOEnv.TRACE)
Ev == Tr[l]
Report(prop, clause, d) == PrintT(<<"FAIL", prop, l, clause, d>>)
Chk(c, prop, clause, d) == IF c THEN TRUE ELSE Report(prop, clause, d)

Grid(r) == {<<x, y>> \in ((r[1] + 1)..(r[3] - 1)) \X ((r[2] + 1)..(r[4] - 1)) : x % 12 \in {3, 5, 9} /\ y % 12 \in {2, 7, 10}}
Near1(v, u) == Abs(v[1] - u[1]) <= 1 /\ Abs(v[2] - u[2]) <= 1

TFam == Ev.e = "FsmFam" /\ rect' = Ev.rect
TFsm ==
  /\ Ev.e = "Fsm"
  /\ UNCHANGED rect
  /\ LET ring == Ev.ring  Q == Ev.raw
         ER == PEdges(ring)  EQ == AllEdges(SelectSeq(Q, LAMBDA p : Len(p) >= 2))
         verts == {ring[i] : i \in 1..Len(ring)}
         clear == {p \in Grid(rect) : ClearOf(ER, p, 2)}
     IN /\ Chk(\A k \in 1..Len(Q) : \A i \in 1..Len(Q[k]) : \E u \in verts : Near1(Q[k][i], u), "C08FSM", "fsm_vertex", Ev.id)
        /\ Chk(\A p \in clear : ~OnAny(EQ, p) /\ Wind(EQ, p) = Wind(ER, p), "C08FSM", "fsm_winding", Ev.id)

Init == l = 1 /\ rect = <<>>
Next == /\ l <= Len(Tr)
        /\ l' = l + 1
        /\ (TFam \/ TFsm)
Spec == Init /\ [][Next]_vars
=============================================================================
