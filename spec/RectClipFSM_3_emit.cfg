CONSTANTS LatN = 4  RcL = 1  RcT = 1  RcR = 3  RcB = 3  Lens = {3}  Emit = TRUE
SPECIFICATION Spec
INVARIANTS Defined PostOK EmitOK
CHECK_DEADLOCK FALSE
