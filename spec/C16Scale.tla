------------------------------ MODULE C16Scale ------------------------------
(* C16 - "the floating-point API is the integer API on scaled coordinates".             *)
(* The documented scale of every PathsD entry point and the documented rounding,        *)
(* written from the property statement:                                                 *)
(*   family "D" (ClipperD and the BooleanOp overloads built on it, PolyTreeD):          *)
(*       S = the smallest power of two above 10^precision                               *)
(*   family "T" (InflatePaths, RectClip, RectClipLines, MinkowskiSum/Diff,              *)
(*       TrimCollinear):  S = 10^precision                                              *)
(*   an input coordinate x becomes the integer nearest to x * S (ties away from zero,   *)
(*   the behaviour of std::round that the interface documents).                         *)
(* Inputs are dyadic rationals x = n / 2^e (every finite double is one), n a signed     *)
(* wide integer (C16Big), so x * S is the exact fraction N / D below and ScaleRound is  *)
(* exact integer arithmetic.                                                            *)
(*                                                                                      *)
(* Soundness band.  The library computes x * S in double arithmetic.  That product is   *)
(* exact when S is a power of two, and when S = 10^p (p >= 0) and n * 10^p < 2^53.      *)
(* Otherwise it carries a relative error <= 2^-52 and a coordinate whose exact product  *)
(* lies within 2^-50 (relative) of a rounding tie may legitimately go either way (both  *)
(* neighbours are "nearest" at the precision the interface works in).  Such a           *)
(* coordinate is AMBIGUOUS and a call containing one is not judged.  Exact ties under   *)
(* exact arithmetic are judged strictly (half away from zero).                          *)
EXTENDS C16Big

PrecRange == -8..8
Ops == {"clipperd", "clipperd_tree", "boolop", "boolop_tree", "union1",
        "inflate", "rectclip", "rectcliplines", "minksum", "minkdiff", "trim"}
FamOf(op) == IF op \in {"clipperd", "clipperd_tree", "boolop", "boolop_tree", "union1"} THEN "D" ELSE "T"

(* k with 2^(k-1) <= 10^p < 2^k : 2^k is the smallest power of two (strictly) above 10^p *)
IsSDExp(p, k) ==
  IF p >= 0 THEN k >= 1 /\ Le(Pow2(k - 1), Pow10(p)) /\ Lt(Pow10(p), Pow2(k))
  ELSE k <= 0 /\ Lt(Pow2(-k), Pow10(-p)) /\ Le(Pow10(-p), Pow2(1 - k))
SDTab == [p \in PrecRange |-> CHOOSE k \in -40..40 : IsSDExp(p, k)]

(* |x * S| = N / (2^e2 * 10^q10) for |x| = a / 2^e  (a a natural, e >= 0) *)
Frac(a, e, fam, p) ==
  IF fam = "D" THEN LET k == SDTab[p]
                    IN IF k >= 0 THEN [N |-> Mul(a, Pow2(k)), e2 |-> e, q10 |-> 0]
                       ELSE [N |-> a, e2 |-> e - k, q10 |-> 0]
  ELSE IF p >= 0 THEN [N |-> Mul(a, Pow10(p)), e2 |-> e, q10 |-> 0]
  ELSE [N |-> a, e2 |-> e, q10 |-> -p]
Den(f) == Mul(Pow2(f.e2), Pow10(f.q10))

(* ---- the rounding, computed: floor((2N + D) / (2D)) by short divisions ---- *)
SRMagF(f) == DivPow10(DivPow2(Add(MulS(f.N, 2), Den(f)), f.e2 + 1), f.q10)
SRMag(a, e, fam, p) == SRMagF(Frac(a, e, fam, p))
ScaleRound(w, e, fam, p) == Wide(Sg(w), SRMag(Mag(w), e, fam, p))

(* ---- the rounding, declared (the property's words): M is a nearest integer to N / D; at a tie the one away from zero ---- *)
Nearest(N, D, M)  == Le(AbsDiff(MulS(N, 2), MulS(Mul(M, D), 2)), D)
HalfAway(N, D, M) == LET t == MulS(Mul(M, D), 2) IN Le(t, Add(MulS(N, 2), D)) /\ Lt(MulS(N, 2), Add(t, D))

(* distance (in units of 1 / (2D)) from N / D to the closest rounding tie next to M *)
TieDist(N, D, M) ==
  LET up == AbsDiff(MulS(N, 2), Mul(Add(MulS(M, 2), <<1>>), D))
  IN IF M = <<>> THEN up
     ELSE LET dn == AbsDiff(MulS(N, 2), Mul(Sub(MulS(M, 2), <<1>>), D)) IN IF Le(up, dn) THEN up ELSE dn

ExactArith(fam, p, N) == fam = "D" \/ (p >= 0 /\ Lt(N, Pow2(53)))
AmbF(fam, p, f) ==
  LET D == Den(f)  M == SRMagF(f)  td == TieDist(f.N, D, M)
  IN IF ExactArith(fam, p, f.N) THEN FALSE
     ELSE IF p >= 0 THEN td # <<>> /\ Lt(Mul(td, Pow2(49)), f.N)      \* an exact tie is itself a double: judged
     ELSE f.N # <<>> /\ Lt(Mul(td, Pow2(49)), f.N)                     \* 10^p (p < 0) is not a double: ties are ambiguous too
Amb(a, e, fam, p) == AmbF(fam, p, Frac(a, e, fam, p))

(* verdict on one input coordinate: w / 2^e fed to the integer API as m *)
Judge(w, e, fam, p, m) ==
  IF Amb(Mag(w), e, fam, p) THEN "amb"
  ELSE IF m = ScaleRound(w, e, fam, p) THEN "ok" ELSE "bad"

(* input class: a double (|n| < 2^53, 0 <= e <= 80), scaled magnitude at most 2^52 *)
InClass(w, e, fam, p) == /\ IsWide(w) /\ e \in 0..80 /\ Lt(Mag(w), Pow2(53))
                         /\ Le(SRMag(Mag(w), e, fam, p), Pow2(52))

(* ---- scaled parameters (delta, arc tolerance) of family T: v = <<w, e>>, fed f = <<w2, e2>> (both dyadic) ---- *)
(* "exact": f = v * 10^p exactly (possible only for p >= 0, or v = 0);  "close": |f - v * 10^p| <= 2^-52 |v * 10^p| - the  *)
(* scaled parameter is then only defined up to its last bits (10^p, p < 0, is not a double; or the product is not one)  *)
(* and the call is judged only if the integer result does not depend on them (relation `robust`);  else "bad"           *)
ParamScaled(v, f, p) ==
  LET a == Mag(v[1])  b == Mag(f[1])
      L == IF p >= 0 THEN Mul(b, Pow2(v[2])) ELSE Mul(Mul(b, Pow10(-p)), Pow2(v[2]))      \* f * 2^e * 2^e2 * (10^-p)
      R == IF p >= 0 THEN Mul(Mul(a, Pow10(p)), Pow2(f[2])) ELSE Mul(a, Pow2(f[2]))        \* v * 10^p * 2^e * 2^e2 (* 10^-p)
  IN IF Sg(v[1]) # Sg(f[1]) THEN "bad"
     ELSE IF L = R /\ (p >= 0 \/ a = <<>>) THEN "exact"
     ELSE IF Le(Mul(AbsDiff(L, R), Pow2(52)), R) THEN "close" ELSE "bad"
SameDyadic(v, f) == Sg(v[1]) = Sg(f[1]) /\ Mul(Mag(v[1]), Pow2(f[2])) = Mul(Mag(f[1]), Pow2(v[2]))
=============================================================================
