CONSTANT N = 4
INIT Init
NEXT Next
