------------------------------- MODULE C18Gen -------------------------------
(* Generator (C18): the boundary vectors named by the property's quantifier, lifted to   *)
(* the real limb width W = 32 and written in C18BigInt wire format for the harness:       *)
(*   IOEnv.C18MUL  - all pairs (a, b) of unsigned 64-bit boundary values for Multiply:     *)
(*                   hi * 2^32 + lo with hi, lo in the per-limb classes                   *)
(*                   {0, 1, 2^31 - 1, 2^31, 2^32 - 2, 2^32 - 1} (includes 2^63 - 1, 2^63,  *)
(*                   2^64 - 1, 2^31, 2^32 +- 1) plus 2^61 and 2^61 +- 1                    *)
(*   IOEnv.C18PRED - all 4-tuples (a, b, c, d) over the signed boundary set                *)
(*                   {0, +-1, +-2^31, +-2^61, +-(2^63 - 1), -2^63, 2^32 - 1} (quick)       *)
(*                   plus {2^31 + 1, -2^32, 2^62, -(2^62 + 1), 2^61 - 1, 3} (BIG = TRUE)   *)
(* No expected value is written: C18Trace recomputes every product from the operands the  *)
(* harness reports it actually used.                                                      *)
EXTENDS C18BigInt, TLC, Json, IOUtils, SequencesExt
CONSTANT BIG
One == FromInt(1)
L32 == << Zero, One, Sub(Pow2(31), One), Pow2(31), Sub(Pow2(32), FromInt(2)), Sub(Pow2(32), One) >>
U == [i \in 1..36 |-> Add(Shl(L32[((i - 1) \div 6) + 1], 32), L32[((i - 1) % 6) + 1])]
     \o << Pow2(61), Sub(Pow2(61), One), Add(Pow2(61), One) >>
SQ == << Zero, One, Neg(One), Pow2(31), Neg(Pow2(31)), Pow2(61), Neg(Pow2(61)),
         Sub(Pow2(63), One), Neg(Sub(Pow2(63), One)), Neg(Pow2(63)), Sub(Pow2(32), One) >>
ST == SQ \o << Add(Pow2(31), One), Neg(Pow2(32)), Pow2(62), Neg(Add(Pow2(62), One)), Sub(Pow2(61), One), FromInt(3) >>
S == IF BIG THEN ST ELSE SQ
Wire(x) == <<x[1]>> \o x[2]
NU == Len(U)
NS == Len(S)
MulCases == [i \in 1..(NU * NU) |-> [a |-> Wire(U[((i - 1) \div NU) + 1]), b |-> Wire(U[((i - 1) % NU) + 1])]]
Dg(i, k) == (((i - 1) \div (NS ^ k)) % NS) + 1
PredCases == [i \in 1..(NS ^ 4) |-> [v |-> << Wire(S[Dg(i, 3)]), Wire(S[Dg(i, 2)]), Wire(S[Dg(i, 1)]), Wire(S[Dg(i, 0)]) >>]]
ASSUME \A i \in 1..NU : \A j \in 1..NU : i # j => U[i] # U[j]
ASSUME \A i \in 1..NS : \A j \in 1..NS : i # j => S[i] # S[j]
ASSUME ndJsonSerialize(IOEnv.C18MUL, MulCases)
ASSUME ndJsonSerialize(IOEnv.C18PRED, PredCases)
ASSUME PrintT(<<"OUT", Len(MulCases), Len(PredCases)>>)
VARIABLE z
Init == z = 0
Next == z' = z
Spec == Init /\ [][Next]_z
=============================================================================
