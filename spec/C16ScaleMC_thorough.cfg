CONSTANTS NMAX = 160 EMAX = 34 GMAX = 300
INIT Init
NEXT Next
INVARIANT Inv
CHECK_DEADLOCK FALSE
