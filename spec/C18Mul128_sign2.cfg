CONSTANT W = 2
CONSTANT MODE = "sign"
CONSTANT RNG = 10
SPECIFICATION Spec
INVARIANT MulCorrect
INVARIANT SignCorrect
CHECK_DEADLOCK FALSE
