CONSTANT W = 3
CONSTANT MODE = "mul"
CONSTANT RNG = 1
SPECIFICATION Spec
INVARIANT MulCorrect
INVARIANT SignCorrect
CHECK_DEADLOCK FALSE
