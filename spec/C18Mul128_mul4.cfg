CONSTANT W = 4
CONSTANT MODE = "mul"
SPECIFICATION Spec
INVARIANT MulCorrect
INVARIANT SignCorrect
CHECK_DEADLOCK FALSE
