INIT Init
NEXT Next
INVARIANT TypeOK
INVARIANT NeverSilent
INVARIANT ValidNormal
INVARIANT Satisfiable
INVARIANT Exclusive
INVARIANT CBoundary
INVARIANT Statement
CHECK_DEADLOCK FALSE
