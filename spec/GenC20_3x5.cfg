CONSTANT N = 3
CONSTANT K = 5
INIT Init
NEXT Next
