------------------------- MODULE RectClipLinesTrace -------------------------
(* Trace specification for property C09: RectClipLines returns exactly the parts of each      *)
(* polyline inside the rectangle.  Consumes an ndjson log of the real library (env TRACE)     *)
(* written by harness/fam_c08.cpp (subcommand rcl):                                            *)
(*   Fam   - rectangle and embedding of the run in WORKING coordinates (exact embeddings:      *)
(*           working = real - translation; coarse embeddings, scale >= 2^13: working = lattice *)
(*           units and result vertices are reported rounded to the nearest working unit)       *)
(*   Case  - one call RectClipLines(rect, {L}): the open polyline L, the pieces Q returned, and *)
(*           per piece vertex [is an input vertex, amount outside the real rectangle in x, y]   *)
(*   Batch - several of the preceding paths (polylines and one-vertex / empty filler paths)    *)
(*           clipped by ONE call on an object that may have executed before, and whether the    *)
(*           result equals the concatenation of the separate results (compared natively)        *)
(* Clauses (all from the statement of C09; tolerances rounded outward):                         *)
(*   piece_off_polyline   a piece vertex farther than 1.5 units from every segment of L         *)
(*   piece_outside_rect   a piece vertex more than 1 unit outside the rectangle                 *)
(*   order_direction      the piece edges cannot be laid on the segments of L in input order    *)
(*                        and direction (non-decreasing segment index, non-decreasing position  *)
(*                        along the segment, every edge along ONE segment)                      *)
(*   length_short/_long   total length of the pieces differs from the exact length of L inside  *)
(*                        the closed rectangle by more than 2 units per crossing; segments on   *)
(*                        the line of a side may be counted or not (both brackets accepted);    *)
(*                        lengths are bracketed by integer square roots at scale F              *)
EXTENDS PathOps, TLC, Json, IOUtils

VARIABLES l, fam, hist, stat
vars == <<l, fam, hist, stat>>

Tr == ndJsonDeserialize(IOEnv.TRACE)
Ev == Tr[l]

Report(prop, clause, d) == PrintT(<<"FAIL", prop, l, clause, d>>)
Chk(c, prop, clause, d) == IF c THEN TRUE ELSE Report(prop, clause, d)
Note(kind, d) == PrintT(<<"NOTE", kind, l, d>>)
B(c) == IF c THEN 1 ELSE 0

F == 16                                            \* lengths are measured in 1/16 working units
OutX(r, p) == Max2(Max2(r[1] - p[1], p[1] - r[3]), 0)
OutY(r, p) == Max2(Max2(r[2] - p[2], p[2] - r[4]), 0)
Sat(v) == IF v > 100 THEN 100 ELSE IF v < 0 THEN 0 ELSE v

(* ------------------------------------------------------------------ exact clipping of a segment (rational parameters <<n, d>>, d > 0) *)
RLeq(x, y) == x[1] * y[2] <= y[1] * x[2]
RMax(x, y) == IF RLeq(x, y) THEN y ELSE x
RMin(x, y) == IF RLeq(x, y) THEN x ELSE y
(* parameter interval in which a + t (b - a) satisfies lo <= coordinate <= hi; <<enter, exit, feasible>> *)
AxisT(a, b, lo, hi) ==
  IF b > a THEN << <<lo - a, b - a>>, <<hi - a, b - a>>, TRUE >>
  ELSE IF b < a THEN << <<a - hi, a - b>>, <<a - lo, a - b>>, TRUE >>
  ELSE << <<0, 1>>, <<1, 1>>, lo <= a /\ a <= hi >>
(* the part of segment a -> b inside the closed rectangle r: <<t0, t1, nonempty>> *)
ClipT(r, a, b) ==
  LET X == AxisT(a[1], b[1], r[1], r[3])  Y == AxisT(a[2], b[2], r[2], r[4])
      t0 == RMax(RMax(<<0, 1>>, X[1]), Y[1])
      t1 == RMin(RMin(<<1, 1>>, X[2]), Y[2])
  IN <<t0, t1, X[3] /\ Y[3] /\ RLeq(t0, t1)>>
OnSideLine(r, a, b) == a # b /\ ((a[1] = b[1] /\ (a[1] = r[1] \/ a[1] = r[3])) \/ (a[2] = b[2] /\ (a[2] = r[2] \/ a[2] = r[4])))
CeilDiv(x, d) == -((-x) \div d)
(* per segment: <<length inside (lower bracket), (upper bracket), crossings, lies on the line of a side>>, lengths scaled by F *)
SegInfo(r, a, b) ==
  LET c == ClipT(r, a, b)
      num == c[2][1] * c[1][2] - c[1][1] * c[2][2]      den == c[1][2] * c[2][2]
      len2 == Dist2(a, b) * F * F
  IN IF ~c[3] \/ a = b THEN <<0, 0, 0, FALSE>>
     ELSE << (num * ISqrtLo(len2)) \div den, CeilDiv(num * ISqrtHi(len2), den),
             B(c[1][1] > 0) + B(c[2][1] < c[2][2]), OnSideLine(r, a, b) >>

(* ------------------------------------------------------------------ analysis of the polyline *)
Analyse(L) ==
  LET r == fam.rect  S == OEdges(L)  n == Len(S)
      info == [s \in 1..n |-> SegInfo(r, S[s][1], S[s][2])]
  IN [ L |-> L, segs |-> S,
       A2 |-> [s \in 1..n |-> ScaleP(S[s][1], 2)], B2 |-> [s \in 1..n |-> ScaleP(S[s][2], 2)],
       len2 |-> [s \in 1..n |-> 4 * Dist2(S[s][1], S[s][2])],
       lenHi |-> [s \in 1..n |-> ISqrtHi(4 * Dist2(S[s][1], S[s][2]))],
       eLoMin |-> SumF([s \in 1..n |-> IF info[s][4] THEN 0 ELSE info[s][1]], n),
       eHiMax |-> SumF([s \in 1..n |-> info[s][2]], n),
       cross |-> SumF([s \in 1..n |-> info[s][3]], n),
       along |-> \E s \in 1..n : info[s][4] /\ info[s][2] > 0 ]

(* SUFFICIENT condition for dist(q, segment s) > tol2 / 2 (doubled coordinates) *)
FarS(a, s, q2) ==
  LET A == a.A2[s]  Bp == a.B2[s]  d1 == Dot(A, Bp, q2)
  IN IF d1 <= 0 THEN Dist2(q2, A) > fam.tol2 * fam.tol2
     ELSE IF d1 >= a.len2[s] THEN Dist2(q2, Bp) > fam.tol2 * fam.tol2
     ELSE Abs(Cross(A, Bp, q2)) > fam.tol2 * a.lenHi[s]
NearS(a, s, q2) == ~FarS(a, s, q2)

(* the piece edges, in output order: <<start, end>> in doubled coordinates *)
EdgesOf(Q) == Flat([k \in 1..Len(Q) |-> [i \in 1..(Len(Q[k]) - 1) |-> <<ScaleP(Q[k][i], 2), ScaleP(Q[k][i + 1], 2)>>]])

(* SUFFICIENT condition for dist(q, segment A-B) > tol2 / 2, any segment (doubled coordinates) *)
FarG(q2, A, Bp) ==
  LET d1 == Dot(A, Bp, q2)  len2 == Dist2(A, Bp)
  IN IF d1 <= 0 THEN Dist2(q2, A) > fam.tol2 * fam.tol2
     ELSE IF d1 >= len2 THEN Dist2(q2, Bp) > fam.tol2 * fam.tol2
     ELSE Abs(Cross(A, Bp, q2)) > fam.tol2 * ISqrtHi(len2)

(* can edges k..N be laid on the polyline in order?  Edge k starts on segment s0 >= sp and ends on segment s1 >= s0; when it     *)
(* spans several segments (an implementation may merge collinear ones) the input vertices it passes must lie on the edge (within *)
(* the tolerance).  dp: position (dot product along segment sp) reached so far.                                                  *)
RECURSIVE Lay(_, _, _, _, _)
Lay(a, E, k, sp, dp) ==
  IF k > Len(E) THEN TRUE
  ELSE \E s0 \in sp..Len(a.segs) :
         /\ NearS(a, s0, E[k][1])
         /\ (s0 = sp => Dot(a.A2[s0], a.B2[s0], E[k][1]) >= dp - 2 * fam.tol2 * a.lenHi[s0])      \* order on the same segment
         /\ \E s1 \in s0..Len(a.segs) :
              /\ NearS(a, s1, E[k][2])
              /\ (s1 = s0 => Dot(a.A2[s0], a.B2[s0], E[k][2]) >= Dot(a.A2[s0], a.B2[s0], E[k][1]) - 2 * fam.tol2 * a.lenHi[s0])   \* direction
              /\ \A s \in (s0 + 1)..s1 : ~FarG(a.A2[s], E[k][1], E[k][2])                       \* vertices passed lie on the edge
              /\ Lay(a, E, k + 1, s1, Dot(a.A2[s1], a.B2[s1], E[k][2]))

RLenLo(Q) == SumF([k \in 1..Len(Q) |-> SumF([i \in 1..(Len(Q[k]) - 1) |-> ISqrtLo(Dist2(Q[k][i], Q[k][i + 1]) * F * F)], Len(Q[k]) - 1)], Len(Q))
RLenHi(Q) == SumF([k \in 1..Len(Q) |-> SumF([i \in 1..(Len(Q[k]) - 1) |-> ISqrtHi(Dist2(Q[k][i], Q[k][i + 1]) * F * F)], Len(Q[k]) - 1)], Len(Q))
NEdges(Q) == SumF([k \in 1..Len(Q) |-> Len(Q[k]) - 1], Len(Q))

(* the clauses as booleans *)
(* 2 units per crossing; coarse embeddings add the rounding of the reported vertices (<= 0.71 per vertex, 2 vertices per edge) *)
Slack(a, Q) == F * (2 * a.cross + (IF fam.exact THEN 0 ELSE 2 * NEdges(Q)))
OnPoly(a, Q) == \A k \in 1..Len(Q) : \A i \in 1..Len(Q[k]) : \E s \in 1..Len(a.segs) : NearS(a, s, ScaleP(Q[k][i], 2))
InRect1(vm) == \A k \in 1..Len(vm) : \A i \in 1..Len(vm[k]) : vm[k][i][2] <= 1 /\ vm[k][i][3] <= 1
Ordered(a, Q) == (\A k \in 1..Len(Q) : Len(Q[k]) >= 1) /\ Lay(a, EdgesOf(Q), 1, 1, -1000000000)
NotShort(a, Q) == RLenHi(Q) >= a.eLoMin - Slack(a, Q)
NotLong(a, Q) == RLenLo(Q) <= a.eHiMax + Slack(a, Q)
AllOK(a, Q, vm) == OnPoly(a, Q) /\ InRect1(vm) /\ Ordered(a, Q) /\ NotShort(a, Q) /\ NotLong(a, Q)

SmallPt(p) == Abs(p[1]) <= 1024 /\ Abs(p[2]) <= 1024
PathOK(P) == \A i \in 1..Len(P) : SmallPt(P[i])
PathsOK(Q) == \A k \in 1..Len(Q) : PathOK(Q[k])

(* ------------------------------------------------------------------ Fam *)
TFam ==
  /\ Ev.e = "Fam" /\ Ev.kind = "rcl"
  /\ LET r == Ev.rect
     IN fam' = [ rect |-> r, exact |-> Ev.coarse = 0, m |-> Ev.m,
                 \* doubled tolerance for "on the polyline": 1.5 units exact; coarse: rounding of the reported vertex (0.71) + 1.5 real units < 1 working unit
                 tol2 |-> IF Ev.coarse = 0 THEN 3 ELSE 2,
                 ok |-> r[1] < r[3] /\ r[2] < r[4] /\ \A c \in 1..4 : Abs(r[c]) <= 1024 ]
  /\ hist' = <<>> /\ UNCHANGED stat
  /\ Chk(fam'.ok, "HARNESS", "bad_family", 0)

(* measurements recomputed from the raw pieces (exact embeddings) *)
VmOf(r, inputs, Q) == [k \in 1..Len(Q) |-> [i \in 1..Len(Q[k]) |->
                         LET q == Q[k][i] IN << IF q \in inputs THEN 1 ELSE 0, Sat(OutX(r, q)), Sat(OutY(r, q)) >>]]

(* ------------------------------------------------------------------ Case *)
TCase ==
  /\ Ev.e = "Case"
  /\ UNCHANGED fam
  /\ IF ~PathOK(Ev.L) THEN hist' = <<>> /\ UNCHANGED stat /\ Note("DROP", Ev.id)
     ELSE IF ~PathsOK(Ev.Q)
     THEN \* a piece vertex far outside the family's range (the harness clamps it): only the measured distance to the rectangle is judged
          /\ hist' = (IF Ev.b = 1 THEN Append(hist, Analyse(Ev.L)) ELSE <<Analyse(Ev.L)>>) /\ stat' = [stat EXCEPT ![1] = @ + 1]
          /\ Chk(InRect1(Ev.vm), "C09", "piece_outside_rect", Ev.id)
     ELSE /\ hist' = IF Ev.b = 1 THEN Append(hist, Analyse(Ev.L)) ELSE <<Analyse(Ev.L)>>
          /\ LET a == hist'[Len(hist')]
             IN /\ stat' = << stat[1] + 1, stat[2] + B(a.cross > 0), stat[3] + a.cross, stat[4] + B(a.along), stat[5] + B(Len(Ev.Q) > 0),
                              stat[6] + Len(Ev.Q), stat[7] >>
                /\ Chk(Len(Ev.Q) = Ev.n /\ Len(Ev.vm) = Ev.n, "HARNESS", "measurement_crosscheck", Ev.id)
                /\ (fam.exact => Chk(VmOf(fam.rect, {Ev.L[i] : i \in 1..Len(Ev.L)}, Ev.Q) = Ev.vm /\ ((Ev.same = 1) = (Ev.Q = <<Ev.L>>)),
                                     "HARNESS", "measurement_crosscheck", Ev.id))
                /\ Chk(OnPoly(a, Ev.Q), "C09", "piece_off_polyline", Ev.id)
                /\ Chk(InRect1(Ev.vm), "C09", "piece_outside_rect", Ev.id)
                /\ Chk(Ordered(a, Ev.Q), "C09", "order_direction", Ev.id)
                /\ Chk(NotShort(a, Ev.Q), "C09", "length_short", <<Ev.id, RLenHi(Ev.Q), a.eLoMin, a.cross>>)
                /\ Chk(NotLong(a, Ev.Q), "C09", "length_long", <<Ev.id, RLenLo(Ev.Q), a.eHiMax, a.cross>>)

(* ------------------------------------------------------------------ Batch *)
(* one multi-path Execute on an object that may have executed before: Ev.idx lists, in call order, which Cases since the last   *)
(* reset were passed (polylines and filler paths: one-vertex paths in / on / outside the rectangle, empty paths).  The pieces   *)
(* must be attributable IN ORDER to those paths: cut the piece list into Len(idx) consecutive (possibly empty) groups, group j  *)
(* satisfying every clause for path idx[j] (a path with fewer than 2 vertices has no segment, so its group must be empty).      *)
RECURSIVE SplitOK(_, _, _, _, _)
SplitOK(Q, vm, idx, j, from) ==       \* pieces from+1.. can be attributed to paths idx[j], idx[j+1], ..
  IF j > Len(idx) THEN from = Len(Q)
  ELSE \E to \in from..Len(Q) :
         /\ AllOK(hist[idx[j]], SubSeq(Q, from + 1, to), SubSeq(vm, from + 1, to))
         /\ SplitOK(Q, vm, idx, j + 1, to)

TBatch ==
  /\ Ev.e = "Batch"
  /\ UNCHANGED fam
  /\ hist' = IF Ev.last = 1 THEN <<>> ELSE hist
  /\ stat' = [stat EXCEPT ![7] = @ + 1]
  /\ LET idxOK == \A j \in 1..Len(Ev.idx) : Ev.idx[j] \in 1..Len(hist)
     IN /\ Chk(idxOK, "HARNESS", "batch_index", l)
        /\ (IF PathsOK(Ev.Q) THEN TRUE ELSE Chk(InRect1(Ev.vm), "C09", "piece_outside_rect", l))
        /\ (idxOK /\ PathsOK(Ev.Q)) =>
             \* equal to the concatenation of the separately judged results: nothing more to decide; otherwise the
             \* pieces must still be attributable, in call order, to the paths passed
             IF Ev.eqcat = 1 THEN TRUE
             ELSE /\ Note("EQCAT0", l)
                  /\ Chk(SplitOK(Ev.Q, Ev.vm, Ev.idx, 1, 0), "C09", "batch_pieces_not_attributable", l)

Init == l = 1 /\ fam = <<>> /\ hist = <<>> /\ stat = <<0, 0, 0, 0, 0, 0, 0>>
Next == /\ l <= Len(Tr)
        /\ l' = l + 1
        /\ (TFam \/ TCase \/ TBatch)
        /\ (l = Len(Tr) => Note("STATS", stat'))
Spec == Init /\ [][Next]_vars
=============================================================================
