----------------------------- MODULE BoolTrace -----------------------------
(* Layer 3: trace specification for boolean clipping (C01 C02 C03 C04 C11a C13).     *)
(* Consumes an ndjson log of the real library (file named by env TRACE):             *)
(*   Case   - the closed subject / clip paths one clipper holds, at lattice level,   *)
(*            the sample points chosen by the driver and the affine embedding used   *)
(*   Out    - one distinct solution returned by the library with the harness's       *)
(*            measurements of it (cover at the sample points, sizes, bounding box)   *)
(*            and, when its vertices are lattice points, the raw paths               *)
(*   Exec   - one Execute call: parameters, success flag, which Out it returned      *)
(*   ReUnion- the solution fed back through Union                                    *)
(*   Xform  - (C13) the same Execute on a re-representation / transformation         *)
(* Every postcondition is evaluated here, from the definitions in Geom/Fill/PathOps; *)
(* the step is always taken and each failed clause is printed as a FAIL line (the    *)
(* driver turns them into VIOLATION / KNOWN-FINDING), so one rejection never hides   *)
(* the rest of the trace.                                                            *)
EXTENDS PathOps, Fill, TLC, Json, IOUtils

VARIABLES l, cs, outs
vars == <<l, cs, outs>>

Tr == ndJsonDeserialize(IOEnv.TRACE)
Ev == Tr[l]

Report(prop, clause, d) == PrintT(<<"FAIL", prop, l, clause, d>>)
Chk(c, prop, clause, d) == IF c THEN TRUE ELSE Report(prop, clause, d)   \* IF, not \/ : TLC explores every disjunct of an action
Note(kind, d) == PrintT(<<"NOTE", kind, l, d>>)

(* lattice-level clearance used per embedding id (harness/common.hpp emb_table; the  *)
(* inequality m * tol >= 2 + maxcoord * 2^-42 is checked by the driver's self-test)  *)
EmbTol(id) == CASE id = 0 -> 2 [] id = 1 -> 3 [] OTHER -> 1
EmbM1(id) == id \in {0, 1}                       \* embeddings with m = 1
XN == 24                                          \* sample points re-measured by TLC (projection cross-check)

XsOf(Ps) == UNION {{Ps[k][i][1] : i \in 1..Len(Ps[k])} : k \in 1..Len(Ps)}
YsOf(Ps) == UNION {{Ps[k][i][2] : i \in 1..Len(Ps[k])} : k \in 1..Len(Ps)}

AnalyseCase(ev) ==
  LET ps == ev.ps
      In == ev.subj \o ev.clip
      ES == AllEdges(ScalePaths(ev.subj, ps))  EC == AllEdges(ScalePaths(ev.clip, ps))
      EA == ES \o EC
      t  == EmbTol(ev.emb) * ps
      rect == Rectilinear(In)
      \* transformed copies (C13) are judged through their base case; for coordinates beyond 128 the crossing-point products of
      \* Geom!GP exceed TLC's integers: there the harness's certificate (the same conservative test in 128-bit arithmetic) is trusted
      \* "extra": boxes <<lx, ly, hx, hy>> (lattice units, rounded outward) around small additional subject triangles that exist only in the
      \* embedded input (their vertices are placed a few UNITS above / below the y of an edge crossing, i.e. off the lattice).  They are
      \* admissible iff they lie at least 3 lattice units to the right of everything else and of one another; then they change no winding
      \* at any sample point (which must lie left of them) and the input stays in general position.
      X == IF "extra" \in DOMAIN ev THEN ev.extra ELSE <<>>
      bb0 == BBox(In)
      xok == \A i \in 1..Len(X) : /\ X[i][1] >= bb0[3] + 3 /\ X[i][3] > X[i][1] /\ X[i][4] > X[i][2]
                                   /\ (\A j \in 1..Len(X) : (i = j) \/ (X[j][1] >= X[i][3] + 3) \/ (X[i][1] >= X[j][3] + 3))
                                   /\ (\A k \in 1..Len(ev.pts) : ev.pts[k][1] <= ps * (X[i][1] - 1))
      gp == xok /\ (IF "nogp" \in DOMAIN ev THEN FALSE ELSE IF "gpcert" \in DOMAIN ev THEN ev.gpcert = 1 ELSE GP(In, 3))
      pts == ev.pts
      bb == BBox(In)
      cells == IF ps = 2 /\ rect THEN {<<2 * i + 1, 2 * j + 1>> : i \in bb[1]..(bb[3] - 1), j \in bb[2]..(bb[4] - 1)} ELSE {}   \* only the cell-exact (C02) clauses need them
  IN [ loose |-> ("loose" \in DOMAIN ev), light |-> ("light" \in DOMAIN ev), subj |-> ev.subj, clip |-> ev.clip, emb |-> ev.emb, ps |-> ps, pts |-> pts, gp |-> gp, rect |-> rect /\ X = <<>>,
       bb |-> IF X = <<>> THEN bb ELSE <<bb[1], Min2(bb[2], CHOOSE v \in {X[i][2] : i \in 1..Len(X)} : \A i \in 1..Len(X) : v <= X[i][2]),
                                         CHOOSE v \in {X[i][3] : i \in 1..Len(X)} : \A i \in 1..Len(X) : v >= X[i][3],
                                         Max2(bb[4], CHOOSE v \in {X[i][4] : i \in 1..Len(X)} : \A i \in 1..Len(X) : v >= X[i][4])>>,
       ein |-> AllEdges(In), xs |-> XsOf(In), ys |-> YsOf(In),
       ws |-> [i \in 1..Len(pts) |-> Wind(ES, pts[i])],
       wc |-> [i \in 1..Len(pts) |-> Wind(EC, pts[i])],
       clearT |-> [i \in 1..Len(pts) |-> ClearOf(EA, pts[i], t)],
       clearR |-> [i \in 1..Len(pts) |-> ~OnAny(EA, pts[i])],
       sp2 |-> (\A x \in XsOf(In) : \A y \in XsOf(In) : x = y \/ x - y >= 2 \/ y - x >= 2)
               /\ (\A x \in YsOf(In) : \A y \in YsOf(In) : x = y \/ x - y >= 2 \/ y - x >= 2),
       allcells |-> (ps = 2 /\ rect /\ cells \subseteq {pts[i] : i \in 1..Len(pts)}),
       ncell |-> Cardinality(cells) ]

TCase == /\ Ev.e = "Case"
         /\ cs' = AnalyseCase(Ev)
         /\ outs' = <<>>
         /\ IF cs'.gp \/ cs'.rect THEN TRUE ELSE Note("DROP", Ev.id)

(* analysis of one distinct solution; outs is a sequence indexed by k (harness numbers them 1,2,...) *)
AnalyseOut(ev) ==
  LET lat == ev.lat = 1
      P == IF lat THEN ev.paths ELSE <<>>
      EP == AllEdges(ScalePaths(P, cs.ps))
      nx == Min2(XN, Len(cs.pts))
      heavy == lat /\ ~cs.light        \* "light" cases (C02's large exhaustive scopes) skip the C03 well-formedness analysis, which C03 runs itself
  IN [ n |-> ev.n, minlen |-> ev.minlen, dups |-> ev.dups, bb |-> ev.bb, cover |-> ev.cover, lat |-> lat, paths |-> P,
       xcheck |-> heavy => \A i \in 1..nx : (ev.cover[i] = 99 /\ OnAny(EP, cs.pts[i])) \/ (ev.cover[i] = Wind(EP, cs.pts[i])),
       struct |-> lat => (StructOK(P) /\ Len(P) = ev.n),
       zero |-> heavy /\ HasZeroArea(P), spike |-> heavy /\ HasSpike(P), coll |-> heavy /\ HasCollinear(P),
       cross |-> heavy /\ HasCrossing(P), or0 |-> heavy => OrientOK(P, 0), or1 |-> heavy => OrientOK(P, 1),
       touch |-> (heavy \/ (lat /\ cs.loose)) /\ Touching(P),
       far |-> IF heavy THEN {k \in 1..Len(P) : \E i \in 1..Len(P[k]) :
                              \* m = 1: farther than 2 units; scaled rectilinear input: a lattice vertex must lie ON an input edge;
                              \* scaled general-position input: farther than 1 lattice unit (= m >= 3 units) is certainly farther than 2 units
                              \A j \in 1..Len(cs.ein) : IF EmbM1(cs.emb) THEN FarSeg(P[k][i], cs.ein[j][1], cs.ein[j][2], 2)
                                                        ELSE IF cs.rect THEN ~OnSeg(cs.ein[j][1], cs.ein[j][2], P[k][i])
                                                        ELSE FarSeg(P[k][i], cs.ein[j][1], cs.ein[j][2], 1)} ELSE {},
       offxy |-> lat /\ \E k \in 1..Len(P) : \E i \in 1..Len(P[k]) : P[k][i][1] \notin cs.xs \/ P[k][i][2] \notin cs.ys,
       area2 |-> IF lat THEN Area2Set(P) ELSE 0 ]

TOut == /\ Ev.e = "Out"
        /\ Ev.k = Len(outs) + 1
        /\ outs' = Append(outs, AnalyseOut(Ev))
        /\ UNCHANGED cs
        /\ Chk(outs'[Ev.k].xcheck, "HARNESS", "projection_crosscheck", Ev.k)

InBB(o) == o.n = 0 \/ cs.emb \in {4, 7} \/      \* the bounding-box clause is stated for coordinates up to 2^52 (embedding 4 is 2^61)
            (o.bb[1] >= cs.bb[1] /\ o.bb[2] >= cs.bb[2] /\ o.bb[3] <= cs.bb[3] /\ o.bb[4] <= cs.bb[4])

BadPts(o, ct, fr, rs, clear) == {i \in 1..Len(cs.pts) : clear[i] /\ o.cover[i] # Expected(ct, fr, rs, cs.ws[i], cs.wc[i])}
NSel(ct, fr) == Cardinality({i \in 1..Len(cs.pts) : InResult(ct, fr, cs.ws[i], cs.wc[i])})

(* postcondition of one Execute(ct, fr) with options pc, rs that returned success flag ok and solution outs[k] *)
ExecPost(ct, fr, pc, rs, ok, k) ==
  LET o == outs[k]
      geo == (cs.gp \/ cs.rect) /\ o.lat
  IN /\ Chk(ok = 1, "C11", "execute_returned_false", k)
     /\ Chk(ct # 0 \/ o.n = 0, "C11", "noclip_not_empty", k)
     \* ---- C03 structural: every input
     /\ Chk(o.minlen >= 3 /\ o.dups = 0 /\ o.struct, "C03", "struct", k)
     /\ Chk(InBB(o), "C03", "bbox", k)
     \* ---- C01: general position, tolerance band
     /\ (cs.gp => LET bad == BadPts(o, ct, fr, rs, cs.clearT)
                  IN Chk(bad = {}, "C01", "cover", IF bad = {} THEN 0 ELSE CHOOSE i \in bad : TRUE))
     \* ---- C02: rectilinear, exact
     /\ (cs.rect => LET bad == BadPts(o, ct, fr, rs, cs.clearR)
                    IN /\ Chk(bad = {}, "C02", "cells", IF bad = {} THEN 0 ELSE CHOOSE i \in bad : TRUE)
                       /\ Chk(o.lat, "C02", "vertex_off_lattice", k)
                       /\ Chk(~o.offxy, "C02", "vertex_xy_not_from_input", k)
                       /\ ((cs.allcells /\ o.lat) =>
                             Chk(o.area2 = (IF rs = 1 THEN -2 ELSE 2) * NSel(ct, fr), "C02", "area", k)))
     \* ---- C03 geometric: general position or rectilinear
     /\ (geo => /\ Chk(~o.zero, "C03", "zero_area", k)
                /\ Chk(~o.spike, "C03", "spike", k)
                /\ Chk(~o.cross, "C03", "proper_crossing", k)
                /\ Chk(IF rs = 1 THEN o.or1 ELSE o.or0, "C03", "orientation_vs_nesting", k)
                /\ Chk(pc = 1 \/ ~o.coll, "C03", "collinear", k)
                /\ Chk(o.far = {}, "C03", "vertex_far_from_input", k))

TExec ==
  /\ Ev.e = "Exec"
  /\ UNCHANGED <<cs, outs>>
  /\ ExecPost(Ev.ct, Ev.fr, Ev.pc, Ev.rs, Ev.ok, Ev.k)
(* batched form: x is a list of <<ct, fr, pc, rs, tree, ok, k>> *)
TExecs ==
  /\ Ev.e = "Execs"
  /\ UNCHANGED <<cs, outs>>
  /\ \A i \in 1..Len(Ev.x) : LET x == Ev.x[i] IN ExecPost(x[1], x[2], x[3], x[4], x[6], x[7])

TReUnion ==
  /\ Ev.e = "ReUnion"
  /\ UNCHANGED <<cs, outs>>
  /\ LET a == outs[Ev.k]  b == outs[Ev.k2]
     IN ((cs.gp \/ cs.rect) /\ a.lat /\ b.lat) =>
          IF SameRings(a.paths, b.paths) THEN TRUE
          ELSE IF a.touch THEN Report("C03", "reunion_touching", Ev.k)     \* class S8 (known finding)
          ELSE Report("C03", "reunion", Ev.k)

(* C04: the tree execution's flattened paths (Out k2) against the paths execution (Out k); the  *)
(* tree itself as parent vector + per-node ring                                                  *)
TTree ==
  /\ Ev.e = "Tree"
  /\ UNCHANGED <<cs, outs>>
  /\ LET a == outs[Ev.k]  nodes == Ev.nodes  par == Ev.par  rs == Ev.rs
         N == Len(nodes)
         lvl[i \in 1..N] == IF par[i] = 0 THEN 1 ELSE 1 + lvl[par[i]]
         RingsTouch(P, Q) == \E x \in 1..Len(P) : \E y \in 1..Len(Q) : SegMeet(<<P[x], Nxt(P, x)>>, <<Q[y], Nxt(Q, y)>>)
         \* "loose" cases: arbitrary random polygons, no input certificate.  The tree's own consistency (orientation by level, children
         \* inside parents, siblings apart, level = containment depth) is a statement about the OUTPUT and is well defined whenever the
         \* output rings are simple and pairwise apart, which TLC decides here on the rings themselves.  Orientation and area are NOT judged
         \* there: without a clearance certificate a sliver thinner than the rounding error may legitimately come out with either sign
         \* (seen: a 1.5-unit sliver of negative area at the top level of a Difference)
         apart == ~a.touch /\ SameRings(a.paths, nodes)        \* the tree's rings are the paths' rings, whose Touching was decided once per distinct output
         judge == a.lat /\ (cs.gp \/ (cs.rect /\ cs.sp2))
         judgeL == a.lat /\ cs.loose /\ ~judge /\ N > 0 /\ apart
         \* nodes whose level differs from their containment depth, and the class of known finding S13: each of them shares a boundary
         \* point with a ring that contains it (an island touching the hole it lies in is attached to the wrong parent)
         mis == {i \in 1..N : Depth(nodes, i) + 1 # lvl[i]}
         touchClass == mis # {} /\ \A i \in mis : \E j \in 1..N : j # i /\ InsideRing(nodes[i], nodes[j]) /\ RingsTouch(nodes[i], nodes[j])
         \* class of known finding S15: rectilinear input; every misplaced node is a hole at the top level that lies strictly inside (touching nothing)
         \* another ring (seen for unions of several overlapping rectangles of mixed orientation with coincident horizontal edges)
         HoleAtTop(i) == (par[i] = 0) /\ ((Area2(nodes[i]) < 0) = (rs = 0))
         TouchesNone(i) == \A j \in 1..N : (j = i) \/ ~RingsTouch(nodes[i], nodes[j])
         InsideOnLine(i) == \E j \in 1..N : (j # i) /\ InsideRing(nodes[i], nodes[j])
         horzClass == cs.rect /\ (mis # {}) /\ (\A i \in mis : HoleAtTop(i) /\ TouchesNone(i) /\ InsideOnLine(i))
     IN /\ Chk(Ev.ok = 1, "C11", "execute_returned_false", Ev.k)
        \* (not for "loose" inputs: without general position a contour that pinches after rounding may be split by the tree builder and not by the
        \*  paths builder; such a case is simply not judged, see apart)
        /\ (a.lat /\ ~cs.loose) => Chk(SameRings(a.paths, nodes), "C04", "tree_paths_differ", Ev.k)
        /\ Chk(Ev.openeq = 1, "C04", "open_paths_differ", Ev.k)
        \* ... and only for rings that are not slivers (area at least twice the perimeter, i.e. about 4 units wide): without clearance a sliver
        \* thinner than the rounding error may legitimately be found inside or outside its neighbour (seen: a 3.5-unit triangle hole at the top level)
        /\ judgeL =>
             LET Perim(P) == SumF([x \in 1..Len(P) |-> ISqrtHi(Dist2(P[x], Nxt(P, x)))], Len(P))
                 fat == {i \in 1..N : Abs(Area2(nodes[i])) >= 4 * Perim(nodes[i])}
             IN /\ Chk(\A i \in fat : par[i] # 0 => InsideRing(nodes[i], nodes[par[i]]), "C04", "child_not_in_parent", Ev.k)
                /\ Chk(\A i \in fat : \A j \in 1..N : (i # j /\ par[i] = par[j]) => ~InsideRing(nodes[i], nodes[j]), "C04", "inside_sibling", Ev.k)
                /\ Chk(mis \cap fat = {}, "C04", "level_vs_containment", Ev.k)
        /\ judge =>
             /\ Chk(Area2Set(nodes) = a.area2, "C04", "area", Ev.k)
             /\ IF touchClass THEN Report("C04", "nesting_wrong_for_ring_touching_its_container", Ev.k)
                ELSE IF horzClass THEN Report("C04", "rectilinear_hole_left_at_top_level", Ev.k)
                ELSE
                  /\ Chk(\A i \in 1..N : (Area2(nodes[i]) > 0) = ((lvl[i] % 2 = 1) = (rs = 0)), "C04", "level_orientation", Ev.k)
                  /\ Chk(\A i \in 1..N : par[i] # 0 => InsideRing(nodes[i], nodes[par[i]]), "C04", "child_not_in_parent", Ev.k)
                  /\ Chk(\A i \in 1..N : \A j \in 1..N : (i # j /\ par[i] = par[j]) => ~InsideRing(nodes[i], nodes[j]), "C04", "inside_sibling", Ev.k)
                  /\ Chk(\A i \in 1..N : par[i] # 0 =>
                            ~\E e \in {PEdges(nodes[i])[x] : x \in 1..Len(nodes[i])} :
                               \E f \in {PEdges(nodes[par[i]])[x] : x \in 1..Len(nodes[par[i]])} : ProperCross(e, f),
                         "C04", "child_crosses_parent", Ev.k)
                  \* depth of a node = number of rings it is inside (independent nesting oracle)
                  /\ Chk(mis = {}, "C04", "level_vs_containment", Ev.k)

(* the harness runs every case in a child process; a child that was killed (signal, sanitizer, timeout)  *)
(* leaves a Crash event: the call did not return, so no postcondition can hold                          *)
TCrash == Ev.e = "Crash" /\ UNCHANGED <<cs, outs>> /\ Report("ANY", "call_did_not_return", Ev.sig)

Init == l = 1 /\ cs = <<>> /\ outs = <<>>
Next == /\ l <= Len(Tr)
        /\ l' = l + 1
        /\ (TCase \/ TOut \/ TExec \/ TExecs \/ TReUnion \/ TTree \/ TCrash)
Spec == Init /\ [][Next]_vars
Accepted == TLCGet("stats").diameter = Len(Tr) + 1
=============================================================================
