CONSTANT Lens = {3}
SPECIFICATION Spec
CHECK_DEADLOCK FALSE
