CONSTANTS Z = 1
SPECIFICATION Spec
INVARIANT InvTree
CHECK_DEADLOCK FALSE
